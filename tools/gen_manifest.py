#!/usr/bin/env python3
"""Regenerate /verif/MANIFEST.json from checks/claims.py and the rule modules present."""
import json
import os
import sys
ROOT = os.path.dirname(os.path.dirname(os.path.abspath(__file__)))
sys.path.insert(0, ROOT)
sys.dont_write_bytecode = True
from checks import claims

props = [json.loads(l) for l in open(os.path.join(ROOT, 'properties.jsonl'))]
checks = []
na = []
for p in props:
  pid = p['id']
  built = os.path.exists(os.path.join(ROOT, 'checks', 'rules', f'{pid}.py'))
  if pid in claims.CLAIMED and built:
    tech, text, note, ref = claims.CLAIMED[pid]
    checks.append({
        'property_id': pid,
        'quick_cmd': f'./check {pid} --tier quick',
        'thorough_cmd': f'./check {pid} --tier thorough',
        'evidence_file': f'/verif/evidence/{pid}.json',
        'replay_cmd_template': f'./check {pid} --replay {{path}}',
        'engine': 'ordfacts+rules',
        'level_claimed': {'category': 'other', 'text': text, 'design_ref': 'DESIGN.md ' + ref},
        'level_note': note,
        'technique': 'static analysis: ' + tech,
    })
  elif pid in claims.NOT_APPLICABLE:
    na.append({'property_id': pid, 'reason': 'static analysis not applicable: ' + claims.NOT_APPLICABLE[pid]})
  else:
    na.append({'property_id': pid, 'reason': 'not claimed at this commit: the static rules planned in DESIGN.md §5 for this property are not built yet'})
m = {
    'version': 1,
    'setup_cmd': './setup.sh',
    'hooks': {
        'guard': 'ordinals_ord_verif',
        'enable': 'none needed: static analysis reads the type-checked program through a rustc_private driver injected with RUSTC_WORKSPACE_WRAPPER; no instrumentation is compiled into ord',
        'baseline_off_cmd': 'cd /repo && cargo test --workspace --no-fail-fast --offline',
        'source_commits': [],
        'add_only': True,
    },
    'engines': [
        {'name': 'ordfacts', 'path': 'driver/', 'serves_properties': [c['property_id'] for c in checks],
         'kind_free_text': 'rustc_private driver: dumps MIR (opt-level 0, resolved callees, constants), HIR trees with typeck resolutions, ADTs and evaluated constants of the ord and ordinals lib crates from /repo\'s working tree'},
        {'name': 'rules', 'path': 'checks/', 'serves_properties': [c['property_id'] for c in checks],
         'kind_free_text': 'Python rule engines over the facts: CFG/dominators, guard inventory with data sources, call graph (who-may-call, reachability), backward slices, lockstep effects, HIR literal-shape queries, interval analysis'},
    ],
    'checks': checks,
    'not_applicable': na,
    'notes': 'Technique family: static analysis only. Every check re-extracts facts from /repo when its source digest changed. known_findings.json lists genuine defects (known/fixed).',
}
with open(os.path.join(ROOT, 'MANIFEST.json'), 'w') as fh:
  json.dump(m, fh, indent=1)
print(f'{len(checks)} checks, {len(na)} not claimed')
