#!/bin/sh
# dev: run the thorough tier for the listed checks one after the other, evidence redirected, one log per check under /var/tmp/thor
# usage: tools/thorough_all.sh C04 C05 ...
mkdir -p /var/tmp/thor /var/tmp/ev_thor_$$
for c in "$@"; do
  ORDVERIF_EVIDENCE=/var/tmp/ev_thor_$$ /verif/check $c --tier thorough > /var/tmp/thor/$c.log 2>&1
  echo "$c exit=$? $(tail -n 1 /var/tmp/thor/$c.log)" >> /var/tmp/thor/SUMMARY
done
