#!/bin/sh
# Run checks against a seeded patch without touching /repo: scratch copy under /var/tmp, evidence redirected, all removed afterwards.
# usage: tools/seedcheck.sh <patch.diff> Cxx [Cyy ...]
P=$1; shift
D=$(mktemp -d /var/tmp/ordseed.XXXXXX)
rsync -a --exclude target --exclude .git /repo/ $D/repo/
(cd $D/repo && patch -p1 --forward --silent -i "$P") || { echo "PATCH DOES NOT APPLY"; rm -rf $D; exit 2; }
mkdir -p $D/evidence
for c in "$@"; do
  ORDVERIF_REPO=$D/repo ORDVERIF_EVIDENCE=$D/evidence /verif/check $c 2>&1 | grep -v "^ordverif" | cut -c1-500
done
# facts extracted for the scratch path
python3 - "$D/repo" <<'PY'
import sys, shutil, os
sys.path.insert(0, '/verif'); sys.dont_write_bytecode = True
from checks import extract
d = extract.facts_dir('dev', sys.argv[1])
shutil.rmtree(d, ignore_errors=True)
PY
rm -rf $D
