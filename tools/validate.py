#!/usr/bin/env python3
"""validate MANIFEST.json and evidence/*.json against the schemas (run with python3-vt)"""
import json, glob, sys, jsonschema
ms = json.load(open('/root/.vp/MANIFEST.schema.json'))
es = json.load(open('/root/.vp/EVIDENCE.schema.json'))
jsonschema.validate(json.load(open('/verif/MANIFEST.json')), ms)
n = 0
for f in sorted(glob.glob('/verif/evidence/*.json')):
  jsonschema.validate(json.load(open(f)), es); n += 1
print('manifest valid;', n, 'evidence files valid')
