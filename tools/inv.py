#!/usr/bin/env python3
"""dev: panic-site inventory for entries: tools/inv.py 're:...' ['re:...'] [--part N] [--all] [--table Cxx] [--prof]"""
import sys, os, re, time
sys.path.insert(0, os.path.dirname(os.path.dirname(os.path.abspath(__file__))))
sys.dont_write_bytecode = True
from checks import extract as _ex
_ex.ensure_facts('dev', quiet=True)
from checks.facts import Facts
from checks import panics, core
t0 = time.time()
F = Facts(os.environ.get('FACTS', '/verif/.work/facts/dev'))
print('facts loaded', round(time.time() - t0, 1))
argv = sys.argv[1:]
part = 1
table = {}
args = []
i = 0
while i < len(argv):
  a = argv[i]
  if a == '--part':
    part = int(argv[i + 1]); i += 2; continue
  if a == '--table':
    import importlib
    table = importlib.import_module('checks.tables.sites_' + argv[i + 1]).TABLE; i += 2; continue
  if not a.startswith('--'):
    args.append(a)
  i += 1
ctx = core.Ctx('DEV', 'quick', F)
pre = None
if '--pre-sat' in argv:
  pred0, _ = panics.closure(F, args)
  pre = {}
  for pth in pred0:
    b = F.bodies[pth]
    if b.argc >= 1 and b.local_ty(1) in ('ordinals::sat::Sat', 'ordinals::Sat') and not b.n.startswith('<ordinals::sat::Sat as std::ops'):
      pre[b.n] = {(1, ('0',)): ('i', 0, 2099999997690000 - 1, 0)}
def go():
  return panics.run_inventory(ctx, 'RX', args, table, partition=part, pre=pre)
if '--prof' in argv:
  import cProfile, pstats
  pr = cProfile.Profile(); pr.enable(); out, pred = go(); pr.disable()
  pstats.Stats(pr).sort_stats('cumulative').print_stats(25)
else:
  out, pred = go()
for o in ctx.obligations:
  if not o['ok'] or '--all' in argv:
    print('OK ' if o['ok'] else 'BAD', '|', o['function'], '|', o['instance'], '|', (o.get('note') or '')[:160], '@', o['where'])
print(ctx.extra['inventory']['RX'])
for n in ctx.notes: print('NOTE', n)
print('time', round(time.time() - t0, 1))
if '--guards' in argv:
  inv = panics.Inventory(F, part)
  for o in ctx.obligations:
    if not o['ok'] and not o['instance'].startswith('ctx:'):
      b = F.body(o['function'])
      sites, an = inv.sites_of(b)
      for s in sites:
        if f'{s.kind}:{s.desc}' == o['instance']:
          print('GUARDS', o['function'], o['instance'][:80]); [print('     ', g) for g in panics.guard_strings(b, s.bb)]
