#!/usr/bin/env python3
"""write /verif/seeded/<id>/meta.json: tools/seed_meta.py <id> <property> <needs> <demo cmd> <detected_by> <detected: yes|no|after-strengthening> [note]"""
import json, sys, os
i, prop, needs, demo, by, det = sys.argv[1:7]
note = sys.argv[7] if len(sys.argv) > 7 else ''
d = f'/verif/seeded/{i}'
log = open(os.path.join(d, 'verify.log')).read() if os.path.exists(os.path.join(d, 'verify.log')) else ''
meta = {
  'id': i, 'property': prop, 'source': 'independent sub-agent given only the property record and a scratch worktree',
  'needs_to_manifest': needs,
  'demonstration': {'file': 'demo.diff', 'command': demo, 'without_change': 'passes', 'with_change': 'fails', 'log': 'verify.log'},
  'confirmed_by_me': {'how': 'tools/seed_verify.sh in the scratch worktree: demo applied -> test passes; patch applied on top -> test fails; worktree restored and removed',
                      'passes_without': ' ... ok' in log.split('== demo with the change')[0] if '== demo with the change' in log else None,
                      'fails_with': 'FAILED' in log.split('== demo with the change')[1] if '== demo with the change' in log else None},
  'existing_suite': 'per the sub-agent\'s notes.md: same passing set as the unmodified tree',
  'checks_run': f'git -C /repo apply patch.diff; ./check {prop}; git -C /repo checkout -- .',
  'detected': det, 'detected_by': by, 'note': note,
}
json.dump(meta, open(os.path.join(d, 'meta.json'), 'w'), indent=1)
print(json.dumps(meta['confirmed_by_me']))
