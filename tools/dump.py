#!/usr/bin/env python3
"""print a body's MIR facts compactly: tools/dump.py <normalised path or regex> [--calls]"""
import sys, os, re, json
sys.path.insert(0, os.path.dirname(os.path.dirname(os.path.abspath(__file__))))
sys.dont_write_bytecode = True
from checks import extract as _ex
_ex.ensure_facts('dev', quiet=True)
from checks.facts import Facts, norm
F = Facts(os.environ.get('FACTS', '/verif/.work/facts/dev'))
pat = sys.argv[1]
calls_only = '--calls' in sys.argv

def pl(p):
  s = f"_{p['l']}"
  for e in p.get('p') or []:
    if e == '*': s = f"(*{s})"
    elif isinstance(e, dict) and 'f' in e: s += '.' + str(e.get('n', e['f']))
    elif isinstance(e, dict) and 'v' in e: s = f"({s} as {e['v']})"
    elif isinstance(e, dict) and 'i' in e: s += f"[_{e['i']}]"
    else: s += '[?]'
  return s
def op(o):
  if 'c' in o: return pl(o['c'])
  if 'm' in o: return 'move ' + pl(o['m'])
  if 'k' in o:
    k = o['k']
    if 'fn' in k: return 'fn:' + norm(k['fn'])
    if 'def' in k: return 'const ' + norm(k['def']) + (f"={k['v']}" if 'v' in k and not isinstance(k['v'], dict) else '')
    return 'const ' + json.dumps(k.get('v')) + ':' + k['ty'][:30]
  return '?'
def rv(r):
  k = r['k']
  if k == 'use': return op(r['o'])
  if k == 'ref': return ('&mut ' if r['mut'] else '&') + pl(r['p'])
  if k == 'bin': return f"{r['op']}({op(r['a'])}, {op(r['b'])})"
  if k == 'un': return f"{r['op']}({op(r['o'])})"
  if k == 'cast': return f"{op(r['o'])} as {r['ty']} ({r['ck']})"
  if k == 'discr': return f"discr({pl(r['p'])})"
  if k == 'agg':
    nm = (norm(r['adt']) + '::' + r['variant']) if r['ak'] == 'adt' else (r['ak'] + (':' + norm(r['def']) if 'def' in r else ''))
    fs = r.get('fields')
    return nm + '{' + ', '.join((f"{fs[i]}: " if fs and i < len(fs) else '') + op(o) for i, o in enumerate(r['ops'])) + '}'
  return k
for b in F.bodies.values():
  if b.n == pat or (pat.startswith('re:') and re.search(pat[3:], b.n)):
    print('=====', b.n, b.file, b.line, 'argc', b.argc)
    if not calls_only:
      for i, l in enumerate(b.locals):
        if l['n']: print(f"   _{i}: {l['n']}: {l['ty'][:100]}")
    live = b.reachable_from(0)
    for i, blk in enumerate(b.blocks):
      if blk['cleanup'] or i not in live: continue
      t = blk['t']
      if calls_only:
        if t['k'] == 'call': print(f"  bb{i} L{t['l']} {pl(t['d'])} = {norm(t['f'].get('res') or t['f'].get('fn') or '?')}({', '.join(op(a) for a in t['args'])}) -> bb{t['t']}")
        continue
      print(f" bb{i}:")
      for s in blk['s']:
        if 'p' in s: print(f"     {pl(s['p'])} = {rv(s['rv'])}   // L{s['l']}")
      k = t['k']
      if k == 'call': print(f"     {pl(t['d'])} = CALL {norm(t['f'].get('res') or t['f'].get('fn') or str(t['f']))}({', '.join(op(a) for a in t['args'])}) -> bb{t['t']}   // L{t['l']}")
      elif k == 'switch': print(f"     SWITCH {op(t['d'])} {t['vals']} else bb{t['o']}   // L{t['l']}")
      elif k == 'assert': print(f"     ASSERT {op(t['c'])}=={t['exp']} {t['msg']['k']} -> bb{t['t']}")
      elif k in ('goto', 'drop'): print(f"     {k} -> bb{t['t']}")
      else: print(f"     {k}")
