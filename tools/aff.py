#!/usr/bin/env python3
"""dev: run the affine engine on one body and print the alternatives reaching the terminators of the given blocks
usage: tools/aff.py <normalised body path> [bb ...] [--locals 10,43]"""
import sys, os
sys.path.insert(0, os.path.dirname(os.path.dirname(os.path.abspath(__file__))))
sys.dont_write_bytecode = True
from checks import extract as _ex
_ex.ensure_facts('dev', quiet=True)
from checks.facts import Facts
from checks.affine import Analysis
F = Facts(os.environ.get('FACTS', '/verif/.work/facts/dev'))
b = F.body(sys.argv[1])
if b is None:
  sys.exit('no such body')
an = Analysis(b, adts=F.adts)
print('blocks', len(b.blocks), 'rounds', an.rounds, 'converged', an.converged, 'collapsed', sorted(an.collapsed), 'loop heads', sorted(an.heads))
locs = None
if '--locals' in sys.argv:
  locs = [int(x) for x in sys.argv[sys.argv.index('--locals') + 1].split(',')]
for a in sys.argv[2:]:
  if not a.isdigit():
    continue
  bb = int(a)
  sts = an.at_term(bb)
  print('bb', bb, len(sts), 'alternative(s)')
  for s in sts:
    keys = sorted(k for k in s.m if locs is None or k[0] in locs)
    for k in keys:
      print('    ', '_%d%s' % (k[0], ''.join(str(e) for e in k[1])), '=', s.m[k])
    print('     guards', s.guards)
