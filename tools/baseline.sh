#!/bin/sh
# Run the repository's pinned test suite (guard off — there is no guard) and compare with BASELINE.json stable_pass.
# usage: tools/baseline.sh [repo-dir]
REPO=${1:-/repo}
cd "$REPO" || exit 2
rm -f target/nextest/pb/junit.xml
CARGO_NET_OFFLINE=true cargo nextest run --workspace --no-fail-fast --tool-config-file pb:/w/lib/nextest.toml --profile pb --test-threads 8 --offline >/tmp/baseline_run.log 2>&1
python3 - "$REPO" <<'PY'
import json, sys, xml.etree.ElementTree as ET
repo = sys.argv[1]
b = json.load(open('/root/.vp/BASELINE.json'))
root = ET.parse(repo + '/target/nextest/pb/junit.xml').getroot()
passed, failed = set(), set()
for tc in root.iter('testcase'):
  tid = (tc.get('classname') or '') + '::' + (tc.get('name') or '')
  if tc.find('failure') is not None or tc.find('error') is not None:
    failed.add(tid)
  else:
    passed.add(tid)
stable = set(b['stable_pass'])
missing = sorted(stable - passed)
print(f'passed {len(passed)} failed {len(failed)}; baseline stable_pass {len(stable)}; stable tests not passing now: {len(missing)}')
for m in missing[:40]:
  print('  NOT PASSING:', m)
sys.exit(1 if missing else 0)
PY
