#!/bin/sh
# Confirm a seeded change in its scratch worktree: demo passes without the patch, fails with it.
# usage: tools/seed_verify.sh <worktree> <variant a|b> <dest-id e.g. C05-a> <cargo test args...>
# Writes /verif/seeded/<dest-id>/{patch.diff,demo.diff,notes.md,verify.log}
WT=$1; X=$2; ID=$3; shift 3
D=/verif/seeded/$ID
mkdir -p $D
cp $WT/out/$X/patch.diff $WT/out/$X/demo.diff $D/
cp $WT/out/$X/notes.md $D/notes.md 2>/dev/null
cd $WT || exit 2
git checkout -q -- . 2>/dev/null
export CARGO_NET_OFFLINE=true CARGO_TARGET_DIR=$WT/target
{
echo "== demo without the change: cargo test $* --offline"
git apply out/$X/demo.diff || echo "DEMO DOES NOT APPLY"
cargo test "$@" --offline 2>&1 | grep -E "^test |test result|error(\[|:)|panicked|FAILED|failures:" | head -40
echo "== demo with the change"
git apply out/$X/patch.diff || echo "PATCH DOES NOT APPLY"
cargo test "$@" --offline 2>&1 | grep -E "^test |test result|error(\[|:)|panicked|FAILED|failures:" | head -40
} > $D/verify.log 2>&1
git checkout -q -- .
git status --short | grep -v "^?? out\|^?? target\|^?? TASK.md" >> $D/verify.log
tail -30 $D/verify.log
