#!/usr/bin/env python3
"""dev: run the interval engine on bodies matching a regex and print the sites: tools/ai.py <regex> [--part N] [--all] [--states]"""
import sys, os, re
sys.path.insert(0, os.path.dirname(os.path.dirname(os.path.abspath(__file__))))
sys.dont_write_bytecode = True
from checks import extract as _ex
_ex.ensure_facts('dev', quiet=True)
from checks.facts import Facts
from checks.intervals import Engine
F = Facts(os.environ.get('FACTS', '/verif/.work/facts/dev'))
part = int(sys.argv[sys.argv.index('--part') + 1]) if '--part' in sys.argv else 1
E = Engine(F, partition=part)
for b in F.bodies.values():
  if re.search(sys.argv[1], b.n):
    a = E.analyse(b)
    print('=====', b.n, f'steps={a.steps} converged={a.converged}')
    for s in a.all_sites():
      if not s.ok or '--all' in sys.argv:
        print('  ', 'OK ' if s.ok else 'BAD', s.kind, s.desc, '|', s.why, '@', s.where())
    if '--states' in sys.argv:
      for bb in sorted(a.ins):
        for st in a.ins[bb]:
          print('  bb', bb, {f'_{k[0]}' + ''.join('.' + x for x in k[1]): (v[1:3] if v[0] == 'i' else v) for k, v in sorted(st.m.items()) if v[0] != 'r'})
print('unmodelled:', sorted(E.unmodelled.items(), key=lambda x: -x[1])[:40])
