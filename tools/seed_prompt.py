#!/usr/bin/env python3
"""print the prompt handed to an independent sub-agent that seeds a property-breaking change.
usage: tools/seed_prompt.py Cxx /tmp/seed/Cxx-a [variant-hint]
The agent gets only the property record and its own scratch worktree; nothing from /verif."""
import json
import os
import sys

ROOT = os.path.dirname(os.path.dirname(os.path.abspath(__file__)))
pid, wt = sys.argv[1], sys.argv[2]
hint = sys.argv[3] if len(sys.argv) > 3 else ''
prop = None
for l in open(os.path.join(ROOT, 'properties.jsonl')):
  p = json.loads(l)
  if p['id'] == pid:
    prop = p
rec = {k: prop[k] for k in ('id', 'title', 'statement', 'quantifier', 'why_tests_cant', 'anchors')}
print(f"""You are helping to evaluate a verification effort for the open-source project ordinals/ord (Bitcoin ordinals indexer, explorer and wallet, written in Rust). Your job is to play the role of a developer who makes a *realistic but wrong* change: a change to ord's source that breaks one stated property of the system while the project still compiles and its existing test suite still passes.

## Your workspace
- A private git worktree of the repository is at `{wt}` (detached HEAD at the pinned commit). Work ONLY inside `{wt}`. Do not read or modify `/repo` or `/verif` — they are off-limits (reading /verif would spoil the experiment).
- The sandbox has no network. Always build offline and with a private target directory:
  `cd {wt} && CARGO_NET_OFFLINE=true CARGO_TARGET_DIR={wt}/target cargo ...  --offline`
  A cold build of the test binaries takes ~5 minutes; use `cargo test -p ord --lib <filter> --offline` / `cargo test -p ordinals --offline` to run selected tests, and run the complete suite once at the end with
  `cd {wt} && CARGO_NET_OFFLINE=true CARGO_TARGET_DIR={wt}/target cargo test --workspace --no-fail-fast --offline 2>&1 | tail -80`
  (about 1180 tests pass on the unmodified tree; roughly 99 tests, mostly integration tests needing external binaries, fail on the unmodified tree as well — compare against the unmodified tree, a test only counts as "broken by you" if it passes without your change and fails with it).

## The property to break
```json
{json.dumps(rec, indent=1)}
```

## What to produce
Produce **two independent changes** (different sites or mechanisms; call them `a` and `b`), each of which:
1. is a small, realistic edit to ord's non-test source (the kind of slip a maintainer could make in a refactor, optimisation or feature patch: a dropped or weakened check, a swapped pair of same-typed arguments, an off-by-one, a reordered pair of steps, a missing case, a forgotten update of a sibling site, an unchecked arithmetic step …) — not a deliberate-looking sabotage, no dead code, no `if input == magic`;
2. makes ord violate the property above for at least one concrete input / chain history / schedule / crash point / configuration in the property's stated domain;
3. still compiles, and every test of the existing suite that passes on the unmodified tree still passes with the change (do not edit or delete existing tests);
4. needs something *specific* to manifest — a particular multi-step sequence of operations, an unusual input, a fault or crash at a particular point, a particular interleaving, or two cooperating sites that each look fine alone — so that ordinary use and the existing tests would not expose it at once. {hint}

For each change also write a **demonstration**: a new test (unit test added in a `#[cfg(test)]` module, an integration test, or a tiny program) that FAILS with the change applied and PASSES on the unmodified tree. Verify both directions yourself by actually running it.

## Deliverables (write these files, then answer with a short summary)
Create the directory `{wt}/out/` and put there, for x in {{a, b}}:
- `{wt}/out/x/patch.diff` — `git diff` of the source change ONLY (no demonstration code in it), applicable with `git apply` at the repository root of the pinned commit;
- `{wt}/out/x/demo.diff` — `git diff` that adds ONLY the demonstration test/program (applicable on the pinned commit with or without patch.diff);
- `{wt}/out/x/notes.md` — which clause of the property breaks, the concrete failing input/history/schedule, what it needs in order to manifest, the exact commands you ran (demo with the change: fails; demo without: passes; full suite with the change: same passing set as without), and the relevant output lines.
Leave the worktree itself clean of build output you do not need except `{wt}/target` (it will be deleted by the caller). If, after a serious attempt, you can produce only one valid change, deliver one and say so. Do not commit anything.
""")
