#!/usr/bin/env python3
"""Development helper: apply one textual edit to /repo, run checks, always restore.
usage: tools/mut.py FILE OLD NEW [--count N] -- C13 C12 ...
The edit must match exactly once (or N times with --count, all replaced)."""
import subprocess
import sys

args = sys.argv[1:]
i = args.index('--')
spec, checks = args[:i], args[i + 1:]
count = 1
if '--count' in spec:
  j = spec.index('--count')
  count = int(spec[j + 1])
  spec = spec[:j] + spec[j + 2:]
edits = [spec[k:k + 3] for k in range(0, len(spec), 3)]
if subprocess.run(['git', '-C', '/repo', 'status', '--porcelain', '--untracked-files=no'], capture_output=True, text=True).stdout.strip():
  sys.exit('refusing: /repo has uncommitted changes')
try:
  for f, old, new in edits:
    p = '/repo/' + f
    s = open(p).read()
    if s.count(old) != count:
      sys.exit(f'edit matches {s.count(old)} times in {f}, expected {count}')
    open(p, 'w').write(s.replace(old, new))
  for c in checks:
    r = subprocess.run(['./check', c], cwd='/verif', capture_output=True, text=True)
    lines = [l for l in r.stdout.splitlines() if l.startswith(('violation', 'VIOLATION', 'anchor-lost', 'KNOWN', c))]
    print(f'--- {c}: exit {r.returncode}')
    for l in lines:
      print('   ', l[:400])
    if r.returncode not in (0, 1):
      print(r.stderr[-3000:])
finally:
  subprocess.run(['git', '-C', '/repo', 'checkout', '--', '.'])
