"""E2 helpers — comparison atoms with polarity, conditional (non-dominating) guards."""
from .facts import (CMP_FLIP, CMP_NEG, describe_cond, describe_operand, flat_names, guards_of, _reaches_avoiding)


class CmpGuard:

  def __init__(self, body, bb, atom, pol, live, dead):
    self.body = body
    self.bb = bb
    self.atom = atom  # ('cmp', op, a, b) | ('call', name, args) | other description
    self.pol = pol  # truth value of the condition under which the sink stays reachable (True/False), None if both
    self.live = live
    self.dead = dead
    self.line = body.term(bb).get('l')

  def slice(self):
    if getattr(self, '_slice', None) is None:
      self._slice = self.body.slice_of([self.body.term(self.bb)['d']])
    return self._slice

  def forms(self):
    """equivalent (op, a, b, pol) forms of a comparison atom"""
    if not (isinstance(self.atom, tuple) and self.atom and self.atom[0] == 'cmp') or self.pol is None:
      return []
    _, op, a, b = self.atom
    return [(op, a, b, self.pol), (CMP_FLIP[op], b, a, self.pol), (CMP_NEG[op], a, b, not self.pol), (CMP_FLIP[CMP_NEG[op]], b, a, not self.pol)]

  def __repr__(self):
    return f"<cmpguard bb{self.bb} L{self.line} {self.atom} sink-when={self.pol}>"


def all_guards(body, sink_bb):
  """every switch (dominating or not) that can reach the sink and has an edge from which the sink is
  unreachable without re-evaluating the switch; bool switches get a polarity"""
  out = []
  for g in sorted(body.reachable_from(0)):
    t = body.term(g)
    if t['k'] != 'switch' or g == sink_bb:
      continue
    edges = body.switch_edges(g)
    if len({tgt for _, tgt in edges}) < 2:
      continue
    live, dead = [], []
    for lab, tgt in edges:
      (live if _reaches_avoiding(body, tgt, sink_bb, g) else dead).append(lab)
    if not live or not dead:
      continue
    pol = None
    if t.get('dty') == 'bool':
      lt = any(l == 'otherwise' or l == 1 for l in live)
      lf = any(l == 0 for l in live)
      pol = True if (lt and not lf) else False if (lf and not lt) else None
    out.append(CmpGuard(body, g, describe_cond(body, t['d']), pol, live, dead))
  return out


def names_of(desc):
  n = flat_names(desc)
  s = set(n['vars']) | set(n['fields']) | {c.split('::')[-1] for c in n['calls'] if c} | set(n['constdefs'])
  s |= {('const', c) for c in n['consts'] if not isinstance(c, dict) and c is not None}
  return s


def find_cmp(guards, op, pa, pb, pol):
  """guards whose comparison is equivalent to `a op b` being `pol` on the way to the sink;
  pa / pb: predicates over the name set of each side"""
  out = []
  for g in guards:
    for o, a, b, p in g.forms():
      if o == op and p == pol and pa(names_of(a)) and pb(names_of(b)):
        out.append(g)
        break
  return out


def unavoidable_after_enabler(body, g, sink_bb):
  """a non-dominating guard must be unavoidable once its enabling condition holds:
  from the closest dominating guard's edge that leads to g, the sink is unreachable without passing g.
  A guard that dominates the sink is trivially fine."""
  if body.dominates(g.bb, sink_bb):
    return True
  doms = [d for d in guards_of(body, g.bb)]
  if not doms:
    return False
  e = doms[-1]
  for lab, tgt in body.switch_edges(e.bb):
    if lab in e.live:
      # edge towards g
      from .rules.common import reaches_avoiding
      if reaches_avoiding(body, tgt, sink_bb, {g.bb}):
        return False
  return True


def call_polarity(g, name_regex):
  """if the guard's condition is (a negation of) the boolean result of a call matching name_regex,
  return the truth value of that call's result under which the sink stays reachable; else None"""
  import re
  if g.pol is None:
    return None
  atom, pol = g.atom, g.pol
  while isinstance(atom, tuple) and atom and atom[0] == 'not':
    atom, pol = atom[1], (not pol)

  def head_call(a):
    while isinstance(a, tuple) and a:
      if a[0] == 'call':
        if a[1] and re.search(name_regex, a[1]):
          return True
        # look through pass-through wrappers (Try::branch, deref ...)
        if a[1] and re.search(r'(Try>::branch|::deref|::unwrap|::expect|::clone)$', a[1]) and a[2]:
          a = a[2][0]
          continue
        return False
      if a[0] in ('proj', 'cast'):
        a = a[1] if a[0] == 'proj' else a[2]
        continue
      return False
    return False

  return pol if head_call(atom) else None


def conjuncts(body, op, depth=0):
  """If `op` is a bool materialised from a short-circuit `a && b && ..` (MIR: the temp is assigned `false` on the false
  edge of each earlier term and the last term's value otherwise), return [(atom, switch_bb or None), ...] of the terms;
  otherwise None."""
  from .facts import op_local, describe_cond, describe_operand
  l = op_local(op)
  if l is None or depth > 4:
    return None
  defs = [d for d in body.defs().get(l, []) if d['kind'] in ('assign', 'call') and not d['proj']]
  if len(defs) < 2:
    return None
  falses = [d for d in defs if d['kind'] == 'assign' and d['rv']['k'] == 'use' and body.const_of(d['rv']['o']) is False]
  others = [d for d in defs if d not in falses]
  if not falses or len(others) != 1:
    return None
  preds = body.preds()
  terms = []
  for d in falses:
    # walk back over goto-only predecessors to every switch with an edge leading here
    seen = set()
    found = []
    work = [d['bb']]
    while work:
      x = work.pop()
      for p in preds.get(x, []):
        t = body.term(p)
        if t['k'] == 'switch' and t.get('dty') == 'bool':
          for lab, tgt in body.switch_edges(p):
            if tgt == x and (p, lab) not in seen:
              seen.add((p, lab))
              found.append((p, lab))
        elif t['k'] == 'goto' and p not in seen:
          seen.add(p)
          work.append(p)
    if not found:
      return None
    for p, lab in sorted(found):
      atom = describe_cond(body, body.term(p)['d'])
      if lab == 0:
        terms.append((atom, p))
      else:
        # the temp becomes false when this condition is TRUE: the conjunct is its negation
        if isinstance(atom, tuple) and atom and atom[0] == 'cmp':
          from .facts import CMP_NEG
          terms.append((('cmp', CMP_NEG[atom[1]], atom[2], atom[3]), p))
        else:
          terms.append((('not', atom), p))
  o = others[0]
  if o['kind'] == 'assign':
    rv = o['rv']
    if rv['k'] in ('bin', 'un'):
      from .facts import _normalize_cond, describe_place
      terms.append((_normalize_cond(describe_place(body, {'l': l}) if False else _desc_rv(body, rv)), None))
    elif rv['k'] == 'use':
      sub = conjuncts(body, rv['o'], depth + 1)
      if sub:
        terms += sub
      else:
        terms.append((describe_cond(body, rv['o']), None))
    else:
      return None
  else:
    c = o['call']
    from .facts import _normalize_cond
    terms.append((_normalize_cond(('call', c.name, tuple(describe_operand(body, a, 1) for a in c.args))), None))
  return terms


def _desc_rv(body, rv):
  from .facts import describe_operand
  if rv['k'] == 'bin':
    return ('bin', rv['op'], describe_operand(body, rv['a'], 1), describe_operand(body, rv['b'], 1))
  return ('un', rv['op'], describe_operand(body, rv['o'], 1))


def expand(body, guards):
  """replace guards on a materialised conjunction that must be TRUE for the sink by one CmpGuard per conjunct"""
  from .facts import op_local, single_def
  out = []
  for g in guards:
    d = body.term(g.bb)['d']
    pol = g.pol
    # look through not(..) wrappers
    cur = d
    for _ in range(4):
      l = op_local(cur)
      df = single_def(body, l) if l is not None else None
      if df and df['kind'] == 'call' and (df['call'].name or '').endswith('::not') and len(df['call'].args) == 1:
        cur = df['call'].args[0]
        pol = (not pol) if pol is not None else None
        continue
      if df and df['kind'] == 'assign' and df['rv']['k'] == 'un' and df['rv']['op'] == 'Not':
        cur = df['rv']['o']
        pol = (not pol) if pol is not None else None
        continue
      break
    cj = conjuncts(body, cur) if pol is True else None
    if cj:
      for atom, sw in cj:
        ng = CmpGuard(body, g.bb, atom, True, g.live, g.dead)
        ng.term_bb = sw
        out.append(ng)
    else:
      out.append(g)
  return out
