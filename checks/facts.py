"""Loading of driver facts + CFG / dominator / call-graph / backward-slice helpers.

Everything here works on the JSON emitted by driver/src/main.rs.
"""
import json
import os
import re
from collections import defaultdict, deque

# --------------------------------------------------------------------------- names


def norm(path):
  """Strip generic argument lists (`::<..>` and `Type<..>`), keep `<impl ..>` and
  the leading `<` of qualified paths.  `a::B::<'_>::c` -> `a::B::c`,
  `<redb::Table<'_, K, V> as redb::ReadableTable<K, V>>::get` -> `<redb::Table as redb::ReadableTable>::get`."""
  if path is None:
    return None
  out = []
  i = 0
  n = len(path)
  while i < n:
    c = path[i]
    if c == '<':
      prev = path[i - 1] if i > 0 else ''
      is_generic = prev.isalnum() or prev == '_' or prev == ':'
      if is_generic and not path.startswith('<impl ', i):
        # skip balanced group
        depth = 0
        j = i
        while j < n:
          if path[j] == '<':
            depth += 1
          elif path[j] == '>' and path[j - 1] != '-':
            depth -= 1
            if depth == 0:
              break
          j += 1
        # drop a preceding '::'
        if out[-2:] == [':', ':']:
          out = out[:-2]
        i = j + 1
        continue
    out.append(c)
    i += 1
  return ''.join(out)


# --------------------------------------------------------------------------- operands / places


def op_place(op):
  if op is None:
    return None
  return op.get('c') or op.get('m')


def op_const(op):
  return op.get('k') if op else None


def op_local(op):
  p = op_place(op)
  return p['l'] if p else None


def place_is_local(p):
  return p is not None and not p.get('p')


def place_fields(p):
  """names (or indices) of Field projections along the place"""
  out = []
  for e in p.get('p', []) or []:
    if isinstance(e, dict) and 'f' in e:
      out.append(e.get('n', e['f']))
  return out


class Call:
  __slots__ = ('body', 'bb', 'f', 'args', 'dest', 'target', 'unwind', 'line', 'exp', 'name', 'raw', 'trait_fn')

  def __init__(self, body, bb, t):
    self.body = body
    self.bb = bb
    f = t['f']
    self.f = f
    self.args = t['args']
    self.dest = t.get('d')
    self.target = t.get('t')
    self.unwind = t.get('u')
    self.line = t.get('l')
    self.exp = t.get('exp', False)
    self.raw = f.get('res') or f.get('fn')
    self.name = norm(self.raw) if self.raw else None
    self.trait_fn = norm(f.get('fn')) if f.get('fn') else None

  def is_(self, *names):
    """match against resolved or trait-level name (normalised); names may be regex if they start with 're:'"""
    for nm in names:
      if nm.startswith('re:'):
        pat = nm[3:]
        if (self.name and re.search(pat, self.name)) or (self.trait_fn and re.search(pat, self.trait_fn)):
          return True
      elif self.name == nm or self.trait_fn == nm:
        return True
    return False

  def where(self):
    return f"{self.body.file}:{self.line}"

  def __repr__(self):
    return f"<call {self.name} @{self.body.file}:{self.line} bb{self.bb}>"


class Body:

  def __init__(self, d):
    self.d = d
    self.path = d['path']
    self.n = norm(self.path)
    self.kind = d['kind']
    self.crate = d['crate']
    self.file = d['file']
    self.line = d['line']
    self.end = d.get('end')
    self.argc = d['argc']
    self.locals = d['locals']
    self.blocks = d['blocks']
    self.parent = d.get('parent')
    self.impl_self = d.get('impl_self')
    self.impl_trait = d.get('impl_trait')
    self.is_coroutine = d.get('coroutine', False)
    self._succ = None
    self._calls = None
    self._dom = None
    self._pdom = None
    self._defs = None
    self._reach = {}
    self._constlocals = None
    # coroutine bodies: (variant index, field index) of the state -> source variable name (from debuginfo)
    self.covars = {}
    if self.is_coroutine:
      for x in d.get('dbg', []):
        pr = x['p'].get('p') or []
        vi = [e['vi'] for e in pr if isinstance(e, dict) and 'vi' in e]
        fs = [e['f'] for e in pr if isinstance(e, dict) and 'f' in e]
        if len(vi) == 1 and len(fs) >= 1 and len(pr) <= 3:
          self.covars[(vi[0], fs[-1] if len(fs) == 1 else fs[0])] = x['n']

  # ---------------- basic structure

  def local_name(self, l):
    return self.locals[l]['n']

  def covar_of(self, place):
    """for a coroutine body: (name, remaining projections) if the place is a saved local of the coroutine state"""
    if not self.covars or place is None:
      return None
    pr = place.get('p') or []
    for i, e in enumerate(pr):
      if isinstance(e, dict) and 'vi' in e and i + 1 < len(pr) and isinstance(pr[i + 1], dict) and 'f' in pr[i + 1]:
        nm = self.covars.get((e['vi'], pr[i + 1]['f']))
        if nm is not None:
          return nm, pr[i + 2:]
    return None

  def local_ty(self, l):
    return self.locals[l]['ty']

  def locals_named(self, name):
    return [i for i, x in enumerate(self.locals) if x['n'] == name]

  def upvar_places(self):
    """debuginfo name -> place for captured variables"""
    return {x['n']: x['p'] for x in self.d.get('dbg', [])}

  def term(self, bb):
    return self.blocks[bb]['t']

  def stmts(self, bb):
    return self.blocks[bb]['s']

  @property
  def calls(self):
    if self._calls is None:
      self._calls = []
      for i, b in enumerate(self.blocks):
        t = b['t']
        if t['k'] in ('call', 'tailcall') and not b['cleanup']:
          self._calls.append(Call(self, i, t))
    return self._calls

  def calls_to(self, *names):
    return [c for c in self.calls if c.is_(*names)]

  # ---------------- constants through single-definition locals

  def const_locals(self):
    """locals assigned exactly once, from a constant operand"""
    if self._constlocals is None:
      cnt = defaultdict(int)
      val = {}
      for b in self.blocks:
        for s in b['s']:
          if 'p' in s and place_is_local(s['p']):
            l = s['p']['l']
            cnt[l] += 1
            rv = s['rv']
            if rv['k'] == 'use' and 'k' in rv['o'] and 'v' in rv['o']['k']:
              val[l] = rv['o']['k']['v']
        t = b['t']
        if t['k'] == 'call' and t.get('d') and place_is_local(t['d']):
          cnt[t['d']['l']] += 1
      self._constlocals = {l: v for l, v in val.items() if cnt[l] == 1}
    return self._constlocals

  def const_of(self, op):
    """constant value of an operand, looking through single-def const locals"""
    if op is None:
      return None
    k = op.get('k')
    if k is not None:
      return k.get('v')
    p = op_place(op)
    if p and place_is_local(p):
      return self.const_locals().get(p['l'])
    return None

  # ---------------- CFG

  def succ(self, bb):
    if self._succ is None:
      self._succ = [self._succ_of(i) for i in range(len(self.blocks))]
    return self._succ[bb]

  def _succ_of(self, bb):
    t = self.blocks[bb]['t']
    k = t['k']
    if k == 'goto':
      return [t['t']]
    if k == 'switch':
      cv = self.const_of(t['d'])
      if cv is not None and isinstance(cv, (bool, int)):
        cv = int(cv)
        for v, tgt in t['vals']:
          if v == cv:
            return [tgt]
        return [t['o']]
      out = []
      for v, tgt in t['vals']:
        if tgt not in out:
          out.append(tgt)
      if t['o'] not in out and not self._is_unreachable(t['o']):
        out.append(t['o'])
      return out
    if k in ('call', 'assert', 'drop', 'yield'):
      return [t['t']] if t.get('t') is not None else []
    return []

  def _is_unreachable(self, bb):
    b = self.blocks[bb]
    return b['t']['k'] == 'unreachable' and not b['s']

  def switch_edges(self, bb):
    """list of (label, target) for a switch terminator; label is the int value or 'otherwise'"""
    t = self.blocks[bb]['t']
    if t['k'] != 'switch':
      return []
    out = [(v, tgt) for v, tgt in t['vals']]
    if not self._is_unreachable(t['o']):
      out.append(('otherwise', t['o']))
    return out

  def reachable_from(self, bb):
    """set of blocks reachable from bb (including bb) along normal edges"""
    if bb not in self._reach:
      seen = {bb}
      dq = deque([bb])
      while dq:
        x = dq.popleft()
        for s in self.succ(x):
          if s not in seen:
            seen.add(s)
            dq.append(s)
      self._reach[bb] = seen
    return self._reach[bb]

  def reaches(self, a, b):
    return b in self.reachable_from(a)

  def strictly_reaches(self, a, b):
    """is there a path of length >= 1 from a to b"""
    return any(b in self.reachable_from(s) for s in self.succ(a))

  def preds(self):
    p = defaultdict(list)
    for i in self.reachable_from(0):
      for s in self.succ(i):
        p[s].append(i)
    return p

  def dominators(self):
    """idom-free simple iterative dominator sets over reachable blocks"""
    if self._dom is None:
      reach = sorted(self.reachable_from(0))
      preds = self.preds()
      full = set(reach)
      dom = {b: set(full) for b in reach}
      dom[0] = {0}
      # reverse post-order
      order = self._rpo()
      changed = True
      while changed:
        changed = False
        for b in order:
          if b == 0:
            continue
          ps = [dom[p] for p in preds[b] if p in dom]
          new = set.intersection(*ps) if ps else set()
          new = new | {b}
          if new != dom[b]:
            dom[b] = new
            changed = True
      self._dom = dom
    return self._dom

  def _rpo(self):
    seen = set()
    order = []
    stack = [(0, iter(self.succ(0)))]
    seen.add(0)
    while stack:
      b, it = stack[-1]
      adv = False
      for s in it:
        if s not in seen:
          seen.add(s)
          stack.append((s, iter(self.succ(s))))
          adv = True
          break
      if not adv:
        order.append(b)
        stack.pop()
    order.reverse()
    return order

  def dominates(self, a, b):
    """a dominates b (both block indices); unreachable b is dominated by everything"""
    d = self.dominators()
    if b not in d:
      return True
    return a in d[b]

  def return_blocks(self):
    return [i for i in self.reachable_from(0) if self.blocks[i]['t']['k'] == 'return']

  def post_dominators(self):
    """post-dominator sets w.r.t. normal return (blocks that cannot reach a return are ignored)"""
    if self._pdom is None:
      reach = self.reachable_from(0)
      rets = self.return_blocks()
      can = set()
      preds = self.preds()
      dq = deque(rets)
      can.update(rets)
      while dq:
        x = dq.popleft()
        for p in preds[x]:
          if p not in can:
            can.add(p)
            dq.append(p)
      EXIT = -1
      pd = {b: set(can) | {EXIT} for b in can}
      pd[EXIT] = {EXIT}
      changed = True
      while changed:
        changed = False
        for b in can:
          ss = [s for s in self.succ(b) if s in can]
          sets = [pd[s] for s in ss]
          if self.blocks[b]['t']['k'] == 'return':
            sets.append(pd[EXIT])
          new = set.intersection(*sets) if sets else set()
          new = new | {b}
          if new != pd[b]:
            pd[b] = new
            changed = True
      self._pdom = pd
    return self._pdom

  def post_dominates(self, a, b):
    """a post-dominates b: every path from b to a normal return passes a"""
    pd = self.post_dominators()
    if b not in pd:
      return True
    return a in pd[b]

  # ---------------- definitions

  def defs(self):
    """local -> list of definition records.
    record: dict(kind='assign'|'call'|'callmut', bb, idx, rv / call, proj)"""
    if self._defs is None:
      d = defaultdict(list)
      # map local -> place it is a &mut reference to (single def)
      refmut = {}
      live = self.reachable_from(0)
      for bi, b in enumerate(self.blocks):
        if b['cleanup'] or bi not in live:
          continue
        for si, s in enumerate(b['s']):
          if 'p' in s:
            rv = s['rv']
            d[s['p']['l']].append({'kind': 'assign', 'bb': bi, 'idx': si, 'rv': rv, 'proj': s['p'].get('p'), 'line': s.get('l')})
            if rv['k'] == 'ref' and rv.get('mut') and place_is_local(s['p']):
              refmut[s['p']['l']] = rv['p']
            if rv['k'] == 'rawptr' and place_is_local(s['p']):
              refmut[s['p']['l']] = rv['p']
      self._refmut = refmut
      for c in self.calls:
        if c.bb not in live:
          continue
        if c.dest is not None:
          d[c.dest['l']].append({'kind': 'call', 'bb': c.bb, 'idx': None, 'call': c, 'proj': c.dest.get('p'), 'line': c.line})
        # &mut arguments: the referent may be written by the callee
        for a in c.args:
          l = op_local(a)
          if l is None:
            continue
          tgt = self._mut_referent(l, refmut, d)
          if tgt is not None:
            d[tgt['l']].append({'kind': 'callmut', 'bb': c.bb, 'idx': None, 'call': c, 'proj': tgt.get('p'), 'line': c.line})
      self._defs = d
    return self._defs

  def _mut_referent(self, l, refmut, d, depth=0):
    """if local l is (a reborrow of) `&mut place`, return that place"""
    if depth > 4:
      return None
    if l in refmut:
      p = refmut[l]
      # reborrow `&mut *x` where x is itself a &mut local
      if p.get('p') == ['*'] and p['l'] != l:
        inner = self._mut_referent(p['l'], refmut, d, depth + 1)
        if inner is not None:
          return inner
        ty = self.local_ty(p['l'])
        if ty.startswith('&mut'):
          return {'l': p['l']}
      return p
    return None

  # ---------------- backward slice

  def slice_of(self, start_ops, max_nodes=4000, through_calls=True, stop_calls=None):
    """Flow-insensitive backward slice from a list of operands/places.
    Returns Slice with: locals, calls (Call objects), consts, fields (names), params (local idx),
    adts (aggregate constructors), binops.
    stop_calls: predicate(Call)->bool; when true the call is recorded but its arguments are not followed."""
    sl = Slice(self)
    work = []

    def push_place(p):
      if p is None:
        return
      for f in place_fields(p):
        sl.fields.add(f)
      for e in p.get('p', []) or []:
        if isinstance(e, dict) and 'i' in e:
          work.append(e['i'])
        if isinstance(e, dict) and 'v' in e:
          sl.variants.add(e['v'])
      work.append(p['l'])

    def push_op(o):
      if o is None:
        return
      if 'k' in o:
        k = o['k']
        if 'v' in k:
          v = k['v']
          sl.consts.append(v)
        if 'def' in k:
          sl.constdefs.add(norm(k['def']))
        if 'fn' in k:
          sl.fnrefs.add(norm(k['fn']))
        return
      push_place(op_place(o))

    for o in start_ops:
      if 'l' in o:
        push_place(o)
      else:
        push_op(o)
    defs = self.defs()
    while work and len(sl.locals) < max_nodes:
      l = work.pop()
      if l in sl.locals:
        continue
      sl.locals.add(l)
      if 1 <= l <= self.argc:
        sl.params.add(l)
      for df in defs.get(l, []):
        if df['kind'] == 'assign':
          rv = df['rv']
          k = rv['k']
          if k in ('use', 'repeat', 'cast', 'un'):
            push_op(rv['o'])
            if k == 'un':
              sl.unops.add(rv['op'])
          elif k in ('ref', 'rawptr', 'discr'):
            push_place(rv['p'])
            if k == 'discr':
              sl.discr_reads += 1
          elif k == 'bin':
            sl.binops.add(rv['op'])
            push_op(rv['a'])
            push_op(rv['b'])
          elif k == 'agg':
            if rv['ak'] == 'adt':
              sl.adts.add((norm(rv['adt']), rv['variant']))
            if rv['ak'] in ('closure', 'coroutine'):
              sl.closures.add(rv['def'])
            for o in rv['ops']:
              push_op(o)
        else:
          c = df['call']
          sl.calls.append(c) if c not in sl.calls else None
          if through_calls and not (stop_calls and stop_calls(c)):
            for a in c.args:
              push_op(a)
    return sl


class Slice:

  def __init__(self, body):
    self.body = body
    self.locals = set()
    self.params = set()
    self.calls = []
    self.consts = []
    self.constdefs = set()
    self.fnrefs = set()
    self.fields = set()
    self.variants = set()
    self.adts = set()
    self.binops = set()
    self.unops = set()
    self.closures = set()
    self.discr_reads = 0

  def has_call(self, *names):
    return any(c.is_(*names) for c in self.calls)

  def calls_named(self, *names):
    return [c for c in self.calls if c.is_(*names)]

  def param_names(self):
    return {self.body.local_name(l) for l in self.params}

  def var_names(self):
    return {self.body.local_name(l) for l in self.locals if self.body.local_name(l)}

  def describe(self):
    cs = sorted({c.name.split('::')[-1] if c.name else '?' for c in self.calls})
    return f"calls={cs} vars={sorted(self.var_names())} fields={sorted(map(str, self.fields))} consts={self.consts[:6]}"


# --------------------------------------------------------------------------- whole program


class Facts:

  def __init__(self, directory):
    self.dir = directory
    self.bodies = {}  # raw path -> Body
    self.by_norm = defaultdict(list)
    self.hir = {}
    self.adts = {}
    self.consts = {}
    self.meta = {}
    import gc
    gc_was = gc.isenabled()
    gc.disable()  # loading ~40 MB of small JSON objects is twice as fast without the cycle collector
    try:
      self._load(directory)
    finally:
      if gc_was:
        gc.enable()
    self._hir_loaded = False
    self._callers = None
    self._callees = None

  def _load(self, directory):
    for crate in ('ordinals', 'ord'):
      with open(os.path.join(directory, f'{crate}.mir.jsonl')) as fh:
        for line in fh:
          b = Body(json.loads(line))
          self.bodies[b.path] = b
          self.by_norm[b.n].append(b)
      with open(os.path.join(directory, f'{crate}.adt.jsonl')) as fh:
        for line in fh:
          a = json.loads(line)
          self.adts[norm(a['path'])] = a
      with open(os.path.join(directory, f'{crate}.const.jsonl')) as fh:
        for line in fh:
          a = json.loads(line)
          self.consts[norm(a['path'])] = a
      with open(os.path.join(directory, f'{crate}.meta.jsonl')) as fh:
        self.meta[crate] = json.loads(fh.readline())
    self._hir_loaded = False
    self._callers = None
    self._callees = None

  def load_hir(self):
    if not self._hir_loaded:
      for crate in ('ordinals', 'ord'):
        with open(os.path.join(self.dir, f'{crate}.hir.jsonl')) as fh:
          for line in fh:
            h = json.loads(line)
            self.hir.setdefault(norm(h['path']), []).append(h)
      self._hir_loaded = True
    return self.hir

  def hir_of(self, npath):
    self.load_hir()
    hs = self.hir.get(npath, [])
    return hs[0] if hs else None

  def body(self, npath):
    """unique body by normalised path (None if absent)"""
    bs = self.by_norm.get(npath, [])
    return bs[0] if bs else None

  def bodies_matching(self, regex):
    r = re.compile(regex)
    return [b for b in self.bodies.values() if r.search(b.n)]

  def closures_of(self, npath):
    """closure / coroutine bodies nested (transitively) in the item"""
    pre = npath + '::{'
    return [b for b in self.bodies.values() if b.n.startswith(pre)]

  def family(self, npath):
    """the item body and all nested closure bodies"""
    out = []
    b = self.body(npath)
    if b:
      out.append(b)
    out.extend(self.closures_of(npath))
    return out

  # ---------------- call graph (raw paths)

  def _build_cg(self):
    callees = defaultdict(set)
    callers = defaultdict(set)
    for b in self.bodies.values():
      for c in b.calls:
        if c.raw:
          callees[b.path].add(c.raw)
          callers[c.raw].add(b.path)
        # also the unresolved trait-level name
        fn = c.f.get('fn')
        if fn and fn != c.raw:
          callers[fn].add(b.path)
        # std blanket impls that forward to a workspace impl: Into -> From, TryInto -> TryFrom, str::parse -> FromStr,
        # ToString -> Display
        for tgt in blanket_targets(c.f, self.bodies):
          callees[b.path].add(tgt)
          callers[tgt].add(b.path)
      # closures / coroutines created here, and fn items referenced as values
      for blk in b.blocks:
        if blk['cleanup']:
          continue
        for s in blk['s']:
          if 'rv' not in s:
            continue
          rv = s['rv']
          if rv['k'] == 'agg' and rv['ak'] in ('closure', 'coroutine'):
            callees[b.path].add(rv['def'])
            callers[rv['def']].add(b.path)
          for o in _rv_operands(rv):
            k = o.get('k')
            if k and 'fn' in k:
              callees[b.path].add(k['fn'])
              callers[k['fn']].add(b.path)
        t = blk['t']
        if t['k'] == 'call':
          for o in t['args']:
            k = o.get('k')
            if k and 'fn' in k:
              callees[b.path].add(k['fn'])
              callers[k['fn']].add(b.path)
    self._callees = callees
    self._callers = callers

  def callees(self, path):
    if self._callees is None:
      self._build_cg()
    return self._callees.get(path, set())

  def callers(self, path):
    if self._callers is None:
      self._build_cg()
    return self._callers.get(path, set())

  def reachable_bodies(self, roots, stop=None):
    """workspace bodies reachable in the call graph from raw paths `roots` (inclusive).
    Returns dict path -> predecessor path (for witness paths)."""
    if self._callees is None:
      self._build_cg()
    pred = {}
    dq = deque()
    for r in roots:
      if r in self.bodies and r not in pred:
        pred[r] = None
        dq.append(r)
    while dq:
      x = dq.popleft()
      if stop and stop(x):
        continue
      for y in self._callees.get(x, ()):  # raw callee paths
        if y in self.bodies and y not in pred:
          pred[y] = x
          dq.append(y)
    return pred

  def witness(self, pred, target):
    out = []
    x = target
    while x is not None:
      out.append(norm(x))
      x = pred.get(x)
    return list(reversed(out))

  def call_sites(self, *names, scope=None):
    """all Call objects (in non-cleanup blocks) whose callee matches; scope: iterable of bodies"""
    out = []
    for b in (scope if scope is not None else self.bodies.values()):
      for c in b.calls:
        if c.is_(*names):
          out.append(c)
    return out


def _split_ga(ga):
  inner = (ga or '').strip()
  if inner.startswith('[') and inner.endswith(']'):
    inner = inner[1:-1]
  out, cur, depth = [], '', 0
  for ch in inner:
    if ch in '<([':
      depth += 1
    elif ch in '>)]':
      depth -= 1
    if ch == ',' and depth == 0:
      out.append(cur.strip())
      cur = ''
    else:
      cur += ch
  if cur.strip():
    out.append(cur.strip())
  return out


def blanket_targets(f, bodies):
  """all workspace impls a call into std / minicbor generic code may call back (see blanket_target); additionally a
  minicbor Decode/Encode call on a container type (Vec<T>, Option<T>, ..) reaches the impls of every workspace type inside it"""
  out = []
  t = blanket_target(f, bodies)
  if t is not None:
    out.append(t)
  fn = f.get('fn')
  if fn in ('minicbor::Decode::decode', 'minicbor::Encode::encode', 'minicbor::decode', 'minicbor::to_vec', 'minicbor::encode') and (f.get('rcr') != 'ord' and f.get('rcr') != 'ordinals'):
    ga = _split_ga(f.get('ga'))
    tys = set()
    for g in ga:
      tys |= set(re.findall(r'\b(?:ord|ordinals)::[\w:]+', g))
    for ty in tys:
      for trait, method in (('minicbor::Decode', 'decode'), ('minicbor::Encode', 'encode')):
        if method in fn or fn in ('minicbor::to_vec',):
          p = _trait_impl(bodies, ty, trait, method)
          if p is not None and p not in out:
            out.append(p)
  return out


def blanket_target(f, bodies):
  """raw path of the workspace impl a std blanket impl forwards to, if it exists in the fact base"""
  fn = f.get('fn')
  ga = _split_ga(f.get('ga'))
  cand = None
  if fn == 'std::convert::Into::into' and len(ga) == 2:
    cand = f'<{ga[1]} as std::convert::From<{ga[0]}>>::from'
  elif fn == 'std::convert::TryInto::try_into' and len(ga) == 2:
    cand = f'<{ga[1]} as std::convert::TryFrom<{ga[0]}>>::try_from'
  elif fn == 'core::str::<impl str>::parse' and len(ga) == 1:
    cand = f'<{ga[0]} as std::str::FromStr>::from_str'
  elif fn == 'std::string::ToString::to_string' and len(ga) == 1:
    cand = f'<{ga[0]} as std::fmt::Display>::fmt'
  if cand is not None and cand in bodies:
    return cand
  # minicbor entry points call back into the workspace Decode / Encode impl of their type argument
  if fn in ('minicbor::decode', 'minicbor::decode_with') and ga:
    return _trait_impl(bodies, ga[-1] if fn == 'minicbor::decode' else ga[-1], 'minicbor::Decode', 'decode')
  if fn in ('minicbor::to_vec', 'minicbor::encode', 'minicbor::to_vec_with') and ga:
    return _trait_impl(bodies, ga[0], 'minicbor::Encode', 'encode')
  return None


_IMPL_INDEX = {}


def _trait_impl(bodies, ty, trait, method):
  key = id(bodies)
  idx = _IMPL_INDEX.get(key)
  if idx is None:
    idx = {}
    for p in bodies:
      m = re.match(r'^<(.+?) as ([\w:]+)(<.*>)?>::(\w+)$', p)
      if m:
        idx[(m.group(1), m.group(2), m.group(4))] = p
      m = re.match(r'^.*<impl ([\w:]+)(<.*>)? for (.+?)>::(\w+)$', p)
      if m:
        idx[(m.group(3), m.group(1), m.group(4))] = p
    _IMPL_INDEX[key] = idx
  return idx.get((ty, trait, method))


def _rv_operands(rv):
  k = rv['k']
  if k in ('use', 'repeat', 'cast', 'un'):
    return [rv['o']]
  if k == 'bin':
    return [rv['a'], rv['b']]
  if k == 'agg':
    return rv['ops']
  return []


# --------------------------------------------------------------------------- guards


class Guard:
  """A conditional terminator that dominates a sink and has at least one successor from which
  the sink is unreachable."""

  def __init__(self, body, bb, live, dead):
    self.body = body
    self.bb = bb
    self.live = live  # labels (switch values / 'otherwise') through which the sink stays reachable
    self.dead = dead  # labels through which it is not
    self.term = body.term(bb)
    self._slice = None
    self._atom = None

  @property
  def line(self):
    return self.term.get('l')

  def slice(self):
    if self._slice is None:
      self._slice = self.body.slice_of([self.term['d']])
    return self._slice

  def cond_true_live(self):
    """for a bool discriminant: True if the sink is reached when the condition is true,
    False if reached when false, None if both/unknown"""
    if self.term.get('dty') != 'bool':
      return None
    live_true = any(l == 'otherwise' or l == 1 for l in self.live)
    live_false = any(l == 0 for l in self.live)
    if live_true and not live_false:
      return True
    if live_false and not live_true:
      return False
    return None

  def atom(self):
    """('cmp', op, a_desc, b_desc) / ('call', name) / ('not', atom) / ('discr', ...) description of the
    condition, one step back from the discriminant."""
    if self._atom is None:
      self._atom = describe_cond(self.body, self.term['d'])
    return self._atom

  def __repr__(self):
    return f"<guard bb{self.bb} line {self.line} live={self.live} dead={self.dead}>"


def guards_of(body, sink_bb):
  """all dominating guards of a block"""
  out = []
  dom = body.dominators().get(sink_bb)
  if dom is None:
    return out
  for g in sorted(dom):
    if g == sink_bb:
      continue
    t = body.term(g)
    if t['k'] != 'switch':
      continue
    edges = body.switch_edges(g)
    if len({tgt for _, tgt in edges}) < 2:
      continue
    live, dead = [], []
    for lab, tgt in edges:
      # reachability that does not come back through the guard itself: inside a loop both edges
      # trivially reach the sink of a later iteration, which is a new evaluation of the guard
      if _reaches_avoiding(body, tgt, sink_bb, g):
        live.append(lab)
      else:
        dead.append(lab)
    if dead and live:
      out.append(Guard(body, g, live, dead))
  return out


def _reaches_avoiding(body, a, b, avoid_bb):
  if a == avoid_bb:
    return False
  if not body.reaches(a, b):
    return False
  seen = {a}
  work = [a]
  while work:
    x = work.pop()
    if x == b:
      return True
    for s in body.succ(x):
      if s not in seen and s != avoid_bb:
        seen.add(s)
        work.append(s)
  return False


CMP_FLIP = {'Lt': 'Gt', 'Le': 'Ge', 'Gt': 'Lt', 'Ge': 'Le', 'Eq': 'Eq', 'Ne': 'Ne'}
CMP_NEG = {'Lt': 'Ge', 'Le': 'Gt', 'Gt': 'Le', 'Ge': 'Lt', 'Eq': 'Ne', 'Ne': 'Eq'}
CMP_CALLS = {'lt': 'Lt', 'le': 'Le', 'gt': 'Gt', 'ge': 'Ge', 'eq': 'Eq', 'ne': 'Ne'}


def single_def(body, l):
  ds = [d for d in body.defs().get(l, []) if d['kind'] != 'callmut']
  if len(ds) == 1 and not ds[0]['proj']:
    return ds[0]
  return None


def describe_operand(body, op, depth=0, hops=0):
  """a short symbolic description of where an operand comes from (one or a few steps back)"""
  if op is None:
    return ('?',)
  if 'k' in op:
    k = op['k']
    if 'def' in k:
      return ('constdef', norm(k['def']), k.get('v'))
    if 'v' in k:
      return ('const', k['v'])
    if 'fn' in k:
      return ('fn', norm(k['fn']))
    return ('const', None)
  p = op_place(op)
  return describe_place(body, p, depth, hops)


def describe_place(body, p, depth=0, hops=0):
  cv = body.covar_of(p)
  if cv is not None:
    rest = tuple(str(e.get('n', e['f'])) for e in cv[1] if isinstance(e, dict) and 'f' in e)
    return ('var', cv[0]) + (('.'.join(rest),) if rest else ())
  l = p['l']
  projs = [e for e in (p.get('p') or [])]
  def _pe(e):
    if isinstance(e, dict) and 'f' in e:
      return str(e.get('n', e['f']))
    if isinstance(e, str):
      return e
    if 'v' in e:
      return 'v:' + e['v']
    if 'i' in e:
      cv = body.const_locals().get(e['i'])
      if isinstance(cv, int) and not isinstance(cv, bool):
        return '[%d]' % cv
    if 'ci' in e and not e.get('fe'):
      return '[%d]' % e['ci']
    return '[]'

  fields = tuple(_pe(e) for e in projs)
  fields = tuple(f for f in fields if f != '*')
  name = body.local_name(l)
  if name is not None:
    # parameters and multiply-assigned variables are leaves; single-definition `let` bindings are looked
    # through so that renaming a local does not change the description
    d0 = single_def(body, l) if not (1 <= l <= body.argc) else None
    if d0 is None or depth > 8:
      return ('var', name) + (('.'.join(fields),) if fields else ())
  if depth > 8:
    return ('tmp', l)
  d = single_def(body, l)
  if d is None:
    return ('tmp', l) + (('.'.join(fields),) if fields else ())
  if d['kind'] == 'call':
    c = d['call']
    base = ('call', c.name, tuple(describe_operand(body, a, depth + 1) for a in c.args))
    return base + (('.'.join(fields),) if fields else ())
  rv = d['rv']
  k = rv['k']
  if k in ('use', 'cast'):
    # copies through compiler temporaries are not part of the expression: they do not count towards the depth limit
    # (otherwise the rendering would depend on how many overflow-check temporaries the build configuration inserts)
    inner = describe_operand(body, rv['o'], depth, hops + 1) if hops < 60 else ('tmp', l)
    if k == 'cast' and rv.get('ck') not in ('PointerCoercion', 'Subtype', 'Transmute', 'PtrToPtr'):
      inner = ('cast', rv.get('ty'), inner)
  elif k in ('ref', 'rawptr'):
    inner = describe_place(body, rv['p'], depth, hops + 1) if hops < 60 else ('tmp', l)
  elif k == 'bin':
    inner = ('bin', rv['op'].replace('WithOverflow', ''), describe_operand(body, rv['a'], depth + 1), describe_operand(body, rv['b'], depth + 1))
  elif k == 'un':
    inner = ('un', rv['op'], describe_operand(body, rv['o'], depth + 1))
  elif k == 'discr':
    inner = ('discr', describe_place(body, rv['p'], depth + 1))
  elif k == 'agg':
    inner = ('agg', rv.get('adt') and norm(rv['adt']) or rv['ak'], rv.get('variant'), tuple(describe_operand(body, o, depth + 1) for o in rv['ops']))
  else:
    inner = ('tmp', l)
  if fields:
    # tuple field of a WithOverflow result: .0 is the value
    if inner and inner[0] == 'bin' and fields == ('0',):
      return inner
    return ('proj', inner, '.'.join(fields))
  return inner


def describe_cond(body, op, depth=0):
  d = describe_operand(body, op, depth)
  return _normalize_cond(d)


def _normalize_cond(d):
  if not isinstance(d, tuple) or not d:
    return d
  if d[0] == 'bin' and d[1] in CMP_FLIP:
    return ('cmp', d[1], d[2], d[3])
  if d[0] == 'un' and d[1] == 'Not':
    inner = _normalize_cond(d[2])
    if inner and inner[0] == 'cmp':
      return ('cmp', CMP_NEG[inner[1]], inner[2], inner[3])
    return ('not', inner)
  if d[0] == 'call' and d[1] and (d[1] == 'anyhow::__private::not' or d[1].endswith('as std::ops::Not>::not') or d[1] == 'std::ops::Not::not') and len(d[2]) == 1:
    # `ensure!(cond, ..)` lowers to `if anyhow::__private::not(cond) { return Err(..) }`
    inner = _normalize_cond(d[2][0])
    if inner and inner[0] == 'cmp':
      return ('cmp', CMP_NEG[inner[1]], inner[2], inner[3])
    return ('not', inner)
  if d[0] == 'call' and d[1]:
    last = d[1].split('::')[-1]
    if last in CMP_CALLS and ('PartialOrd' in d[1] or 'PartialEq' in d[1] or 'cmp::' in d[1]) and len(d[2]) == 2:
      return ('cmp', CMP_CALLS[last], _strip_ref(d[2][0]), _strip_ref(d[2][1]))
  return d


def _strip_ref(x):
  return x


def flat_names(desc, out=None):
  """all variable / field / call / const names mentioned in a description tuple"""
  if out is None:
    out = {'vars': set(), 'calls': set(), 'consts': [], 'constdefs': set(), 'fields': set()}
  if isinstance(desc, tuple) and desc:
    tag = desc[0]
    if tag == 'var':
      out['vars'].add(desc[1])
      if len(desc) > 2:
        out['fields'].update(desc[2].split('.'))
    elif tag == 'const':
      out['consts'].append(desc[1])
    elif tag == 'constdef':
      out['constdefs'].add(desc[1])
      out['consts'].append(desc[2])
    elif tag == 'call':
      out['calls'].add(desc[1])
      for a in desc[2]:
        flat_names(a, out)
      if len(desc) > 3:
        out['fields'].update(str(desc[3]).split('.'))
    elif tag == 'proj':
      flat_names(desc[1], out)
      out['fields'].update(str(desc[2]).split('.'))
    else:
      for x in desc[1:]:
        if isinstance(x, tuple):
          flat_names(x, out)
  return out


# --------------------------------------------------------------------------- precise origin tracing (E7)

PASSTHROUGH_DEFAULT = [
    r'<std::result::Result as std::ops::Try>::branch$', r'<std::option::Option as std::ops::Try>::branch$',
    r'std::result::Result::(unwrap|expect|unwrap_or_default|unwrap_or|unwrap_or_else|ok|as_ref|as_mut|map_err|context|with_context)$',
    r'std::option::Option::(unwrap|expect|unwrap_or_default|unwrap_or|unwrap_or_else|as_ref|as_mut|as_deref|as_deref_mut|ok_or|ok_or_else|take|cloned|copied)$',
    r'std::ops::Deref(Mut)?::deref(_mut)?$', r' as std::ops::Deref(Mut)?>::deref(_mut)?$',
    r'std::convert::AsRef::as_ref$', r'std::convert::AsMut::as_mut$', r'std::borrow::Borrow(Mut)?::borrow(_mut)?$',
    r' as std::borrow::Borrow(Mut)?>::borrow(_mut)?$', r' as std::convert::As(Ref|Mut)>::as_(ref|mut)$',
    r'std::clone::Clone::clone$', r' as std::clone::Clone>::clone$',
    r'anyhow::Context::(context|with_context)$', r' as anyhow::Context>::(context|with_context)$',
    r'snafu::ResultExt::(context|with_context)$', r' as snafu::ResultExt>::(context|with_context)$',
    r'std::convert::Into::into$', r' as std::convert::Into>::into$',
]


class Origin:
  __slots__ = ('kind', 'call', 'local', 'name', 'fields', 'const', 'agg', 'body')

  def __init__(self, kind, body, call=None, local=None, name=None, fields=(), const=None, agg=None):
    self.kind = kind
    self.body = body
    self.call = call
    self.local = local
    self.name = name
    self.fields = tuple(fields)
    self.const = const
    self.agg = agg

  def __repr__(self):
    if self.kind == 'call':
      return f"call:{self.call.name}@{self.call.line}" + (('.' + '.'.join(map(str, self.fields))) if self.fields else '')
    if self.kind in ('param', 'upvar', 'var'):
      return f"{self.kind}:{self.name}" + (('.' + '.'.join(map(str, self.fields))) if self.fields else '')
    if self.kind == 'const':
      return f"const:{self.const}"
    if self.kind == 'agg':
      return f"agg:{self.agg.get('adt') or self.agg.get('ak')}"
    return self.kind

  def key(self):
    return repr(self)


def _proj_fields(projs):
  out = []
  for e in projs or []:
    if isinstance(e, dict) and 'f' in e:
      out.append(str(e.get('n', e['f'])))
    elif isinstance(e, dict) and 'v' in e:
      out.append('v:' + e['v'])
  return out


def origins(body, op, passthrough=None, depth=0, _seen=None, fields=(), named_terminal=False):
  """Precise backward trace of an operand (or place dict) to its terminal origins.
  Walks through copies/moves/refs/casts, aggregate field selection and pass-through calls.
  Terminal origins: call results, parameters (with field path), closure upvars, constants, aggregates."""
  import re as _re
  pts = passthrough if passthrough is not None else PASSTHROUGH_DEFAULT
  if _seen is None:
    _seen = set()
  if 'l' in op:
    place = op
  elif 'k' in op:
    return [Origin('const', body, const=op['k'])]
  else:
    place = op_place(op)
    if place is None:
      return [Origin('unknown', body)]
  cv = body.covar_of(place)
  if cv is not None:
    rest = tuple(str(e.get('n', e['f'])) for e in cv[1] if isinstance(e, dict) and 'f' in e)
    return [Origin('var', body, local=None, name=cv[0], fields=rest + tuple(fields))]
  l = place['l']
  pf = tuple(f for f in _proj_fields(place.get('p')) if not f.startswith('v:')) + tuple(fields)
  key = (l, pf)
  if key in _seen or depth > 40:
    return []
  _seen.add(key)
  # closure environment
  if body.kind in ('Closure', 'SyntheticCoroutineBody') and l == 1 and pf and pf[0].startswith('upvar:'):
    return [Origin('upvar', body, local=l, name=pf[0][6:], fields=pf[1:])]
  if 1 <= l <= body.argc:
    ds = [d for d in body.defs().get(l, []) if d['kind'] == 'assign' and not d['proj']]
    if not ds:
      return [Origin('param', body, local=l, name=body.local_name(l), fields=pf)]
  if named_terminal and body.local_name(l) is not None and depth > 0:
    return [Origin('var', body, local=l, name=body.local_name(l), fields=pf)]
  ds = [d for d in body.defs().get(l, []) if d['kind'] != 'callmut']
  whole = [d for d in ds if not d['proj']]
  partial = [d for d in ds if d['proj']]
  out = []
  # assignments to a sub-place that matches our field path
  for d in partial:
    dpf = tuple(f for f in _proj_fields(d['proj']) if not f.startswith('v:'))
    if pf[:len(dpf)] == dpf and d['kind'] == 'assign':
      out.extend(_origin_of_def(body, d, pf[len(dpf):], pts, depth, _seen, named_terminal))
  if not whole and not out:
    nm = body.local_name(l)
    return [Origin('var' if nm else 'unknown', body, local=l, name=nm, fields=pf)]
  for d in whole:
    out.extend(_origin_of_def(body, d, pf, pts, depth, _seen, named_terminal))
  return out


def _origin_of_def(body, d, pf, pts, depth, seen, nt=False):
  import re as _re
  if d['kind'] == 'call':
    c = d['call']
    nm = c.name or ''
    tn = c.trait_fn or ''
    if c.args and any(_re.search(p, nm) or _re.search(p, tn) for p in pts):
      return origins(body, c.args[0], pts, depth + 1, seen, (), nt)
    return [Origin('call', body, call=c, fields=pf)]
  rv = d['rv']
  k = rv['k']
  if k in ('use', 'cast'):
    o = rv['o']
    if 'k' in o:
      return [Origin('const', body, const=o['k'])]
    return origins(body, o, pts, depth + 1, seen, pf, nt)
  if k in ('ref', 'rawptr'):
    return origins(body, rv['p'], pts, depth + 1, seen, pf, nt)
  if k == 'agg':
    names = rv.get('fields')
    if pf:
      idx = None
      if names and pf[0] in names:
        idx = names.index(pf[0])
      elif pf[0].isdigit() and int(pf[0]) < len(rv['ops']):
        idx = int(pf[0])
      if idx is not None and idx < len(rv['ops']):
        return origins(body, rv['ops'][idx], pts, depth + 1, seen, pf[1:], nt)
    return [Origin('agg', body, agg=rv, fields=pf)]
  if k == 'bin':
    return [Origin('bin', body, agg=rv, fields=pf)]
  if k == 'discr':
    return [Origin('discr', body, agg=rv, fields=pf)]
  return [Origin('unknown', body, fields=pf)]
