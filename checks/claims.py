"""Per-property claim table (source for MANIFEST.json; see DESIGN.md §5/§6)."""

NOT_APPLICABLE = {
    'C01': 'FIFO sat assignment is a numerical fold over unbounded histories; the only shape clauses are the exact shape of one loop body (frozen fragment) — no sound static rule in reach',
    'C02': 'global partition invariant of the UTXO table after every prefix of every chain; lookups scan the table and agreement is value equality — no clause visible in code shape',
    'C03': 'inscription location is offset arithmetic that must equal an independent computation (the sat index); value agreement over histories, not decidable from code shape',
    'C06': 'curse/reinscription classification depends on per-sat history stored by earlier transactions; the curse ladder is itself the specification (a rule would be a frozen fragment)',
    'C09': 'rune allocation semantics are the value behaviour of one closure and one loop; any rule would restate the loop and agreement with the spec prose is not a shape fact',
    'C15': 'agreement of two value computations (node-fetched vs locally tracked values) across configurations; information-flow from the option flags taints everything through total_value() — no exact rule',
    'C30': 'round-trip equality of values through four printers and parsers (one through f64); no shape clause beyond what C29/C31 already decide',
    'C33': 'monotonicity and inverse relation of two interpolation formulas over all heights/names; relational numeric reasoning beyond the interval domain',
}

# id -> (technique, level text, level note, design ref)
CLAIMED = {
    'C23': ('MIR dominance (must-pass-through) + who-may-call over resolved callees + RPC method-name constant allowlist',
            'static rule check over the type-checked program: every node-funding call site is dominated by a checked lock_non_cardinal_outputs call; '
            'no other body can ask the node to add inputs; the lock set derives from inscriptions and runic outputs. Holds for every path of every command, which no test enumerates.',
            'trusted: Bitcoin Core honours locks; rustc callee resolution; decides the locking clause completely, not node behaviour', '§5 C23'),
    'C12': ('call-graph reachability (no read/write transaction under index_block) + ownership of per-block updater objects + cache-consumption dataflow',
            'static rule check: the per-block indexing path touches index state only through the batch transaction and keeps no per-block object across blocks — '
            'a necessary condition of commit-interval independence that holds for every schedule at once; equality of dumps is not decided',
            'trusted: redb transaction isolation; reviewed exception detect_reorg->block_hash; value equality of dumps not decided', '§5 C12'),
    'C13': ('MIR dominance / must-pass-through over the commit protocol + who-may-call on begin_write + error-discipline on commit/savepoint results',
            'static rule check of the commit protocol shape: one write transaction per batch, header written last and checked in the same transaction as the block data, '
            'durability Immediate on every reachable construction path, savepoint delete/create separated by commits, rollback = restore-then-commit; covers every crash point because it constrains every path',
            'trusted: redb atomic commit/savepoint semantics; decides protocol shape, not redb crash behaviour', '§5 C13'),
    'C14': ('MIR dominance (detect before write), edge-reachability (mismatch edge never reaches Ok), enum-arm exhaustiveness over constructed reorg::Error variants',
            'static rule check: detection dominates all index writes of a block, a hash mismatch cannot return Ok, both error kinds have explicit handlers, the unrecoverable flag is stored before returning and surfaced in status, the loop retries after rollback',
            'trusted: savepoint spacing covers the recoverable depth (numeric, not decided); redb restore', '§5 C14'),
    'C04': ('table-write ownership (who-may-call with table identity) + path rule (special ∧ stored ⇒ through merged) + lockstep (envelope ↔ flotsam) + must-consume of leftover flotsam',
            'static rule check: special pseudo-outputs are merged never overwritten, merge keeps both operands, every envelope yields exactly one flotsam, every flotsam is re-attached or carried; holds on every path of the indexing code',
            'decides the structural necessary conditions, not the per-height count/location audit', '§5 C04'),
    'C10': ('guard inventory with normalised comparison atoms and polarity (height<start, height>=end, mints>=cap), callee identity (max/min, saturating_add), dominance of the counter update by the Ok-edge of mintable',
            'static rule check of the exact comparison set under which a mint succeeds and of the ordering check→increment→write-back; an off-by-one (<= for <) or swapped min/max changes an atom and is reported',
            'chain-history interaction not decided', '§5 C10'),
    'C11': ('guard inventory with polarity over RuneUpdater::etched / tx_commits_to_rune, variant-constancy of the cenotaph arm, lockstep table writes and read-before-increment ordering in create_rune_entry',
            'static rule check: a named etching yields a rune only under the four validity guards, commitment requires p2tr and height-diff+1 >= COMMIT_CONFIRMATIONS, entry creation writes all lookup tables together with number read before the single increment',
            'uniqueness over histories and the unlock schedule not decided', '§5 C11'),
    'C17': ('lockstep effects between OUTPOINT_TO_UTXO_ENTRY and SCRIPT_PUBKEY_TO_OUTPOINT writes (edge-based path search modulo the index_addresses guard) + key/value provenance',
            'static rule check: every UTXO-table insert/remove is paired with the address-index insert/remove for the script parsed from that same entry and the same outpoint, on every path',
            'exactness over histories not decided', '§5 C17'),
    'C05': ('lockstep of the three lookup-table inserts + pure-copy provenance of keys/values/entry fields + single-increment and read-before-write ordering of counters + Statistic read/write-back agreement + comparison atom for the jubilee',
            'static rule check: the New arm writes entry/id/number tables together from the same triple; each counter has one += 1 with the handed-out value read first; counters are read from and written back to the same Statistic; number sign is decided by the cursed flag = is_some && !(height >= jubilee)',
            'density over histories not decided', '§5 C05'),
    'C07': ('taint-style rule: source Inscription::parents(), sanitizer Vec::retain(seen.insert && potential_parents.contains) dominating every sink call, sinks owned by update_inscription_location; lockstep of children/parents views',
            'static rule check: envelope-declared parents cannot reach the children table or entry.parents without the membership-and-dedup filter, the filter set is exactly the transaction\'s floating inscription ids, both views and the latest-child tables are written in lockstep',
            'sequence-number ordering over histories not decided', '§5 C07'),
    'C08': ('must-consume path rule over the unallocated/allocated/burned maps + type discipline (no primitive u128 arithmetic; Lot operators call checked_*) + guard polarity on is_op_return/is_empty',
            'static rule check: every success path of index_runes moves each carried balance into allocated, burned or the balance table; no path drops a map; amounts are combined only through checked Lot arithmetic; OP_RETURN outputs never receive a balance entry',
            'the conservation equation itself is not decided', '§5 C08'),
    'C37': ('pairing (lockstep modulo the event_sender guard, forwards or backwards) between each state change and its Event emission + same-loop-element provenance of event fields + error discipline on blocking_send',
            'static rule check: each of the six event kinds is emitted on every path that performs the corresponding state change, with fields copied from the same values, and send errors abort indexing',
            'replay equivalence is a value statement and is not decided', '§5 C37'),
}
