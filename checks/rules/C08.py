"""C08 — rune supply is conserved: balances are never silently dropped between the maps that carry them, and amounts
are only combined through the checked Lot type (DESIGN §5 C08)."""
from ..core import where
from ..facts import norm, origins, guards_of
from ..guards import all_guards, call_polarity
from ..effects import always_with, error_blocks
from ..tables_id import TableId
from .common import success_return_blocks, result_is_checked, short, reaches_avoiding

IR = 'ord::index::updater::rune_updater::RuneUpdater::index_runes'
UNALLOC = 'ord::index::updater::rune_updater::RuneUpdater::unallocated'
UPDATE = 'ord::index::updater::rune_updater::RuneUpdater::update'
MAP_TY = 'std::collections::HashMap<ordinals::RuneId, ord::index::lot::Lot'
ADD_ASSIGN = ['<ord::index::lot::Lot as std::ops::AddAssign>::add_assign', 're:<ord::index::lot::Lot as std::ops::AddAssign.*>::add_assign$']

# reviewed exceptions to the u128 type discipline: (function, op, reason)
U128_EXCEPTIONS = {
    ('ord::index::updater::rune_updater::RuneUpdater::mint', 'Add'): 'rune_entry.mints += 1 is guarded by mints < cap <= u128::MAX in RuneEntry::mintable (R10.1)',
}

ASSUMPTIONS = ["the conservation equation itself (sum of balances + burned = premine + mints*amount) is a value statement and is not decided"]


def _into_iters(body, ty_sub):
  return [c for c in body.calls if c.is_('re:IntoIterator.*::into_iter$') and ty_sub in (c.f.get('ga') or '')]


def _loop_next(body, it):
  """the Iterator::next call fed by this into_iter"""
  outs = []
  for c in body.calls:
    if c.is_('re:Iterator>::next$', 're:Iterator::next$') and c.args:
      if any(o.kind == 'call' and o.call is it for o in origins(body, c.args[0])):
        outs.append(c)
  return outs


def _some_edge(body, nx):
  """target block of the Some edge of the switch on the next() result"""
  t = body.term(nx.target)
  if t['k'] != 'switch':
    return None
  for lab, tgt in body.switch_edges(nx.target):
    if lab == 1:
      return tgt
  return None


def run(ctx):
  F = ctx.facts
  T = TableId(F)
  ctx.rule('R8.1', 'in RuneUpdater::index_runes every success path from self.unallocated(tx) consumes the unallocated map by value (into_iter) and each loop adds the element\'s balance to allocated[..] or burned; '
           'allocated is consumed by a loop in which each non-empty element is either written to OUTPOINT_TO_RUNE_BALANCES or added to burned; burned is consumed into self.burned; update() folds self.burned into entry.burned')
  ctx.rule('R8.2', 'no primitive Add/Sub/Mul on u128 in rune_updater.rs and lot.rs bodies: amounts are combined only through Lot operators (checked) or checked_* calls')
  ctx.rule('R8.3', 'OUTPOINT_TO_RUNE_BALANCES.insert is guarded by ¬is_op_return() of the same output and ¬balances.is_empty()')
  ctx.rule('R8.4', 'RuneUpdater::unallocated adds every decoded (id, balance) of every removed input entry to the returned map')

  b = ctx.body('R8.1', IR)
  if b is not None:
    un = b.calls_to(UNALLOC)
    ctx.anchor('R8.1', 'self.unallocated(tx) call', len(un) == 1, b.n)
    srb = success_return_blocks(b)
    its = _into_iters(b, MAP_TY)
    # classify into_iter sites by the variable they consume
    by_var = {}
    for it in its:
      names = b.slice_of([it.args[0]], through_calls=False).var_names()
      byval = 'm' in it.args[0] and not (it.f.get('ga') or '').lstrip('[').startswith('&')
      for v in ('unallocated', 'burned', 'balances'):
        if v in names:
          by_var.setdefault(v, []).append((it, byval))
    ctx.floor('R8.1', 'into_iter over the unallocated map', len(by_var.get('unallocated', [])), 3)
    if len(un) == 1 and srb:
      cons = {it.bb for it, byval in by_var.get('unallocated', []) if byval}
      for rb in srb:
        ctx.ob('R8.1', b.n, 'every success path consumes `unallocated` by value', not reaches_avoiding(b, un[0].target, rb, cons | error_blocks(b)),
               'a success return is reachable with unallocated balances neither allocated nor burned (silently dropped)', where(b, un[0].line))
    # each consuming loop adds the element to allocated/burned
    for it, byval in by_var.get('unallocated', []):
      nxs = _loop_next(b, it)
      ok = False
      for nx in nxs:
        se = _some_edge(b, nx)
        adds = [a for a in b.calls_to(*ADD_ASSIGN) if any(o.kind == 'call' and o.call is nx for o in origins(b, a.args[1]))]
        for a in adds:
          tgt_names = b.slice_of([a.args[0]]).var_names()
          into = 'allocated' in tgt_names or 'burned' in tgt_names
          def allowed(g, nx=nx):
            # `if balance > 0`
            return g.term.get('dty') == 'bool' and nx in g.slice().calls and g.slice().has_call('re:PartialOrd.*::gt$')
          if se is not None and into and always_with(b, se, a.bb, allowed_guard=allowed, escape_at=[nx.bb]):
            ok = True
      ctx.ob('R8.1', b.n, f'unallocated loop adds each balance to allocated/burned (loop #{its.index(it)})', ok, 'a loop over unallocated balances drops elements', where(b, it.line))
    # allocated: Vec<HashMap> consumed by value
    ait = [c for c in b.calls if c.is_('re:IntoIterator.*::into_iter$') and 'std::vec::Vec<' + MAP_TY in (c.f.get('ga') or '') and 'allocated' in b.slice_of([c.args[0]], through_calls=False).var_names()]
    ctx.anchor('R8.1', 'allocated.into_iter()', len(ait) == 1, b.n)
    ins = [c for c, k, t in T.writes([b]) if 'OUTPOINT_TO_RUNE_BALANCES' in t and k == 'insert']
    ctx.anchor('R8.1', 'OUTPOINT_TO_RUNE_BALANCES.insert in index_runes', len(ins) == 1, b.n)
    if len(ait) == 1 and len(ins) == 1 and srb:
      for rb in srb:
        ctx.ob('R8.1', b.n, 'every success return is dominated by the allocated write loop', b.dominates(ait[0].bb, rb), 'balances allocated to outputs are never written', where(b, ait[0].line))
      # per element: insert, or burned += (op_return), or skip when empty
      nxs = [c for c in b.calls if c.is_('re:Enumerate.*::next$') and any(o.kind == 'call' and o.call is ait[0] for o in _deep_origins(b, c.args[0]))]
      ctx.anchor('R8.1', 'next() of the allocated loop', len(nxs) == 1, b.n)
      if len(nxs) == 1:
        nx = nxs[0]
        se = _some_edge(b, nx)
        burn_loops = [it for it, byval in by_var.get('balances', []) if not byval]
        def allowed(g, nx=nx):
          sl = g.slice()
          return call_ok(sl, 're:HashMap.*::is_empty$') or call_ok(sl, 're:is_op_return$')
        ok = se is not None and always_with(b, se, ins[0].bb, allowed_guard=allowed, escape_at=[nx.bb])
        ctx.ob('R8.1', b.n, 'each allocated element reaches the balance insert unless it is empty or an OP_RETURN output', ok, 'an allocated element can be skipped', where(b, ins[0].line))
        # op_return arm: burned += each balance
        okb = False
        for it in burn_loops:
          for n2 in _loop_next(b, it):
            adds = [a for a in b.calls_to(*ADD_ASSIGN) if any(o.kind == 'call' and o.call is n2 for o in origins(b, a.args[1])) and 'burned' in b.slice_of([a.args[0]]).var_names()]
            s2 = _some_edge(b, n2)
            if adds and s2 is not None and any(always_with(b, s2, a.bb, escape_at=[n2.bb]) for a in adds):
              # the loop is on the is_op_return true edge
              gs = [g for g in guards_of(b, it.bb) if call_ok(g.slice(), 're:is_op_return$')]
              if gs:
                okb = True
        ctx.ob('R8.1', b.n, 'OP_RETURN outputs: every allocated balance is added to burned', okb, 'balances sent to an OP_RETURN output vanish instead of being burned', where(b, ins[0].line))
        # the written buffer encodes every (id, balance): encode_rune_balance in a by-value loop over balances dominating the insert
        enc = b.calls_to('ord::index::Index::encode_rune_balance')
        ctx.ob('R8.1', b.n, 'written buffer <- encode_rune_balance of each balance', len(enc) == 1 and any(c.is_('re:Iterator>::next$') for c in b.slice_of(enc[0].args[:2]).calls) and
               'buffer' in b.slice_of([ins[0].args[2]]).var_names() and 'buffer' in b.slice_of([enc[0].args[2]], through_calls=False).var_names(), '', where(b, ins[0].line))
    # burned -> self.burned
    bl = [(it, bv) for it, bv in by_var.get('burned', []) if bv]
    ctx.anchor('R8.1', 'for (id, amount) in burned', len(bl) == 1, b.n)
    for it, bv in bl:
      for rb in srb:
        ctx.ob('R8.1', b.n, 'success return dominated by the burned loop', b.dominates(it.bb, rb), 'burned amounts are dropped', where(b, it.line))
      okk = False
      for nx in _loop_next(b, it):
        adds = [a for a in b.calls_to(*ADD_ASSIGN) if any(o.kind == 'call' and o.call is nx for o in origins(b, a.args[1])) and any(o.kind == 'param' and 'burned' in o.fields for o in _deep_origins(b, a.args[0]))]
        se = _some_edge(b, nx)
        if adds and se is not None and any(always_with(b, se, a.bb, escape_at=[nx.bb]) for a in adds):
          okk = True
      ctx.ob('R8.1', b.n, 'self.burned[id] += amount for every burned element', okk, '', where(b, it.line))
  ub = ctx.body('R8.1', UPDATE)
  if ub is not None:
    its = [c for c in ub.calls if c.is_('re:IntoIterator.*::into_iter$') and MAP_TY in (c.f.get('ga') or '')]
    ins = [c for c, k, t in T.writes([ub]) if 'RUNE_ID_TO_RUNE_ENTRY' in t]
    ctx.anchor('R8.1', 'self.burned loop and entry insert in update()', len(its) == 1 and len(ins) == 1, ub.n)
    if len(its) == 1 and len(ins) == 1:
      it, i = its[0], ins[0]
      ctx.ob('R8.1', ub.n, 'loop consumes self.burned', any(o.kind == 'param' and 'burned' in o.fields for o in origins(ub, it.args[0])), '', where(ub, it.line))
      for rb in success_return_blocks(ub):
        ctx.ob('R8.1', ub.n, 'success return dominated by the loop', ub.dominates(it.bb, rb), '', where(ub, it.line))
      vs = ub.slice_of([i.args[2]])
      ca = [c for c in vs.calls if c.is_('re:u128>::checked_add$')]
      nxs = _loop_next(ub, it)
      ctx.ob('R8.1', ub.n, 'entry.burned = entry.burned.checked_add(element)', bool(ca) and bool(nxs) and nxs[0] in ub.slice_of(ca[0].args[1:]).calls and 'burned' in ub.slice_of([ca[0].args[0]]).fields, vs.describe(), where(ub, i.line))
      se = _some_edge(ub, nxs[0]) if nxs else None
      ctx.ob('R8.1', ub.n, 'every element is written back', se is not None and always_with(ub, se, i.bb, escape_at=[nxs[0].bb]), '', where(ub, i.line))

  # ---------------- R8.2
  n = 0
  for body in F.bodies.values():
    if body.file not in ('src/index/updater/rune_updater.rs', 'src/index/lot.rs'):
      continue
    ctx.analysed(body)
    live = body.reachable_from(0)
    for bi, blk in enumerate(body.blocks):
      if blk['cleanup'] or bi not in live:
        continue
      for s in blk['s']:
        rv = s.get('rv')
        if rv and rv['k'] == 'bin' and rv.get('ty') == 'u128':
          op = rv['op'].replace('WithOverflow', '').replace('Unchecked', '')
          if op in ('Add', 'Sub', 'Mul'):
            n += 1
            owner = body.n.split('::{')[0]
            exc = U128_EXCEPTIONS.get((owner, op))
            ctx.ob('R8.2', body.n, f'primitive u128 {op}', exc is not None, 'rune amounts combined with an unchecked primitive operator', where(body, s.get('l')))
  ctx.extra['u128_primitive_sites'] = n
  ctx.floor('R8.2', 'reviewed u128 primitive sites', n, 1)
  # Lot operators call checked_*
  for opn, chk in (('Add', 'checked_add'), ('Sub', 'checked_sub')):
    lb = F.body(f'<ord::index::lot::Lot as std::ops::{opn}>::{opn.lower()}')
    ctx.anchor('R8.2', f'impl {opn} for Lot', lb is not None)
    if lb is not None:
      ctx.ob('R8.2', lb.n, f'Lot::{opn.lower()} = {chk}(..).expect(..)', bool(lb.calls_to(f'ord::index::lot::Lot::{chk}')) and bool(lb.calls_to('re:Option::expect$')), 'Lot arithmetic no longer checked', where(lb, lb.line))
    cb = F.body(f'ord::index::lot::Lot::{chk}')
    ctx.anchor('R8.2', f'Lot::{chk}', cb is not None)
    if cb is not None:
      ctx.ob('R8.2', cb.n, f'Lot::{chk} uses u128::{chk}', bool(cb.calls_to(f're:u128>::{chk}$')), '', where(cb, cb.line))

  # ---------------- R8.3
  if b is not None and len(ins) == 1 if b is not None else False:
    c = [c for c, k, t in T.writes([b]) if 'OUTPOINT_TO_RUNE_BALANCES' in t and k == 'insert'][0]
    gs = all_guards(b, c.bb)
    opr = [g for g in gs if call_polarity(g, r'is_op_return$') is False and b.dominates(g.bb, c.bb)]
    emp = [g for g in gs if call_polarity(g, r'HashMap.*::is_empty$') is False and b.dominates(g.bb, c.bb)]
    ctx.ob('R8.3', b.n, 'balance insert requires ¬is_op_return()', len(opr) == 1, 'OP_RETURN outputs can hold runes', where(b, c.line))
    ctx.ob('R8.3', b.n, 'balance insert requires ¬balances.is_empty()', len(emp) == 1, 'empty balance lists can be written', where(b, c.line))
    for g in opr:
      sl = g.slice()
      ks = b.slice_of([c.args[1]])
      common = {x for x in sl.calls if x.is_('re:Enumerate.*::next$')} & {x for x in ks.calls if x.is_('re:Enumerate.*::next$')}
      ctx.ob('R8.3', b.n, 'is_op_return() tested on tx.output[vout] of the written outpoint', bool(common) and 'script_pubkey' in sl.fields, 'the OP_RETURN test is about a different output', where(b, g.line))
    ko = b.slice_of([c.args[1]])
    ctx.ob('R8.3', b.n, 'balance key = OutPoint{txid, vout of the loop element}', 'txid' in ko.var_names() and ('bitcoin::OutPoint', 'OutPoint') in ko.adts, ko.describe(), where(b, c.line))
    ctx.ob('R8.3', b.n, 'balance insert result tested', result_is_checked(b, c), '', where(b, c.line))

  # ---------------- R8.4
  u = ctx.body('R8.4', UNALLOC)
  if u is not None:
    rm = [c for c, k, t in T.writes([u]) if 'OUTPOINT_TO_RUNE_BALANCES' in t and k == 'remove']
    dec = u.calls_to('ord::index::Index::decode_rune_balance')
    adds = u.calls_to(*ADD_ASSIGN)
    ctx.anchor('R8.4', 'remove / decode_rune_balance / += in unallocated', len(rm) == 1 and len(dec) == 1 and len(adds) == 1, u.n)
    if len(rm) == 1 and len(dec) == 1 and len(adds) == 1:
      r, d, a = rm[0], dec[0], adds[0]
      ctx.ob('R8.4', u.n, 'removal keyed by input.previous_output', 'previous_output' in u.slice_of([r.args[1]]).fields, '', where(u, r.line))
      ctx.ob('R8.4', u.n, 'decoded buffer <- the removed entry', r in u.slice_of([d.args[0]]).calls, '', where(u, d.line))
      ctx.ob('R8.4', u.n, 'every decoded balance is added (lockstep decode → +=)', always_with(u, d.bb, a.bb, escape_at=[d.bb]) and d in u.slice_of([a.args[1]]).calls, 'a decoded input balance is dropped', where(u, a.line))
      ctx.ob('R8.4', u.n, 'the map added to is the returned one', _returned(u, a.args[0]), '', where(u, a.line))
      # loop advances by the decoded length and runs to the end of the buffer
      ws = [g for g in all_guards(u, d.bb) if g.pol is True and isinstance(g.atom, tuple) and g.atom[0] == 'cmp']
      ctx.ob('R8.4', u.n, 'decode loop runs while i < buffer.len()', any(g.atom[1] == 'Lt' and 'len' in str(g.atom[3]) for g in ws), f'{[g.atom for g in ws]}', where(u, d.line))
      ctx.ob('R8.4', u.n, 'remove result tested', result_is_checked(u, r), '', where(u, r.line))


def call_ok(sl, rx):
  return sl.has_call(rx)


def _deep_origins(body, op, depth=0):
  out = []
  for o in origins(body, op):
    out.append(o)
    if o.kind == 'call' and o.call.args and depth < 4:
      out.extend(_deep_origins(body, o.call.args[0], depth + 1))
  return out


def _returned(body, op):
  sl0 = body.slice_of([{'l': 0}], through_calls=False)
  slr = body.slice_of([op], through_calls=True)
  named = {l for l in slr.locals if body.local_name(l)}
  return bool(named & sl0.locals)


# sensitivity pack (thorough tier): each seeded edit must be reported by the named rule instance
MUTANTS = [{'name': 'seeded-C08-a', 'patch': 'C08-a/patch.diff', 'expect': ('R8.1', 'index_runes', 'added to burned')}]


# behaviour-preserving pack (thorough tier)
NEUTRAL = [
  {'name': 'cenotaph burn loop: element renamed', 'file': 'src/index/updater/rune_updater.rs', 'old': '      for (id, balance) in unallocated {\n        *burned.entry(id).or_default() += balance;\n      }\n    } else {', 'new': '      for (id, left) in unallocated {\n        *burned.entry(id).or_default() += left;\n      }\n    } else {'},
]
