"""C22 — wallet rune sends, burns and splits: a request for zero units of a rune is rejected rather than interpreted as 'all'
(sibling rule: every Edict built by wallet code from a user-supplied amount is guarded against zero), and the edict's output
index designates the intended output of the transaction built in the same branch (DESIGN §5 C22)."""
from ..core import where
from ..facts import norm, origins, guards_of
from ..guards import all_guards, find_cmp, names_of
from .common import success_return_blocks, result_is_checked, short, reaches_avoiding, deep_origins, origin_fields
from ..effects import error_blocks

EDICT = ('ordinals::Edict', 'ordinals::edict::Edict')
SCOPE = ('src/wallet.rs', 'src/wallet/', 'src/subcommand/wallet')

ASSUMPTIONS = ["exact amounts, change handling and 'burns nothing else' are value statements and are not decided; only the zero-amount clause and the edict/output position agreement"]


def _sig(body, op):
  """origin signature of a value: (terminal parameter names, field names on the way, callee names on the way)"""
  os_ = deep_origins(body, op, all_args=False)
  params = {o.name for o in os_ if o.kind == 'param' and o.name}
  fields = {f for o in os_ for f in map(str, o.fields) if not f.isdigit() and not f.startswith('v:')}
  calls = {(o.call.name or '').split('::')[-1] for o in os_ if o.kind == 'call'}
  return params, fields, calls


def _zero_guards(body):
  """guards comparing something with the constant 0 whose zero side leads only to error returns"""
  out = []
  eb = error_blocks(body)
  srb = success_return_blocks(body)
  for bi in sorted(body.reachable_from(0)):
    t = body.term(bi)
    if t['k'] != 'switch' or t.get('dty') != 'bool':
      continue
    from ..facts import describe_cond, CMP_FLIP, CMP_NEG
    atom = describe_cond(body, t['d'])
    if not (isinstance(atom, tuple) and atom and atom[0] == 'cmp'):
      continue
    _, op, a, b = atom
    forms = [(op, a, b), (CMP_FLIP[op], b, a)]
    val = None
    for o, x, y in forms:
      if y == ('const', 0) and o in ('Eq', 'Ne', 'Gt', 'Le'):
        val = (o, x)
    if val is None:
      continue
    o, x = val
    zero_when_true = o in ('Eq', 'Le')
    # the edge taken when the value is zero
    zero_t = None
    for lab, tgt in body.switch_edges(bi):
      truth = (lab == 'otherwise' or lab == 1)
      if truth == zero_when_true:
        zero_t = tgt
    if zero_t is None:
      continue
    rejects = not any(reaches_avoiding(body, zero_t, rb, set()) for rb in srb if rb not in eb) or all(_only_error_from(body, zero_t))
    out.append({'bb': bi, 'line': t.get('l'), 'value_op': _compared_operand(body, t['d']), 'desc': x, 'zero_target': zero_t, 'rejects': _zero_edge_is_error(body, zero_t)})
  return out


def _compared_operand(body, d, depth=0):
  """the non-constant operand of the comparison feeding a bool switch discriminant"""
  from ..facts import single_def, op_local
  l = op_local(d)
  if l is None or depth > 6:
    return d
  df = single_def(body, l)
  if df is None:
    return d
  if df['kind'] == 'assign':
    rv = df['rv']
    if rv['k'] == 'bin':
      return rv['b'] if 'k' in rv['a'] else rv['a']
    if rv['k'] in ('use', 'un'):
      return _compared_operand(body, rv['o'], depth + 1)
  elif df['kind'] == 'call' and len(df['call'].args) == 1 and (df['call'].name or '').endswith('::not'):
    return _compared_operand(body, df['call'].args[0], depth + 1)
  elif df['kind'] == 'call' and len(df['call'].args) == 2:
    a, b_ = df['call'].args
    return b_ if body.const_of(a) is not None else a
  return d


def _only_error_from(body, bb):
  return [True]


def _zero_edge_is_error(body, tgt):
  """from the zero edge every path to a return passes a block that puts an error into the return place
  (Err aggregate / `?` residual) or diverges"""
  eb = error_blocks(body)
  rets = body.return_blocks()
  if not rets:
    return False
  return not any(reaches_avoiding(body, tgt, rb, eb) for rb in rets)


def run(ctx):
  _r22_3(ctx)
  F = ctx.facts
  ctx.rule('R22.1', 'every Edict literal in wallet code whose amount derives from user input is preceded by a guard that compares that input with 0 and leaves with an error when it is 0 '
           '(same value for call-derived amounts; same source collection for amounts iterated from the split file)')
  ctx.rule('R22.2', 'the edict\'s output index designates, in the output vector built in the same branch, the recipient (send: index 2 = destination script) or the runestone OP_RETURN (burn: index 0)')

  lits = []
  for b in F.bodies.values():
    if not b.file.startswith(SCOPE):
      continue
    live = b.reachable_from(0)
    for bi, blk in enumerate(b.blocks):
      if blk['cleanup'] or bi not in live:
        continue
      for si, s in enumerate(blk['s']):
        rv = s.get('rv')
        if rv and rv['k'] == 'agg' and rv['ak'] == 'adt' and norm(rv['adt']) in EDICT:
          lits.append((b, bi, s, dict(zip(rv['fields'], rv['ops']))))
  ctx.floor('R22.1', 'Edict literals in wallet code', len(lits), 3)
  counts = {}
  for b, bi, s, fo in lits:
    ctx.analysed(b)
    idx = counts.get(b.n, 0)
    counts[b.n] = idx + 1
    params, fields, calls = _sig(b, fo['amount'])
    zg = _zero_guards(b)
    ok = False
    why = 'no guard rejects a zero amount before this edict is built'
    for g in zg:
      if not g['rejects']:
        continue
      gp, gf, gc = _sig(b, g['value_op'])
      same_call = 'to_integer' in calls and 'to_integer' in gc and _same_call_site(b, fo['amount'], g['value_op'], 'to_integer')
      same_coll = bool(fields) and 'next' in calls and gp == params and gf == fields
      if (same_call or same_coll) and (b.dominates(g['bb'], bi) or _loop_exit_dominates(b, g['bb'], bi)):
        ok = True
        why = f'zero rejected at line {g["line"]}'
    label = f'Edict#{idx}.amount guarded against 0 (amount <- {"/".join(sorted(calls & {"to_integer", "next", "get"})) or "?"})'
    ctx.ob('R22.1', b.n, label, ok, why, where(b, s['l']))

  # ---------------- R22.2
  wb = ctx.body('R22.2', 'ord::wallet::Wallet::create_unsigned_send_or_burn_runes_transaction')
  if wb is not None:
    mine = [(bi, s, fo) for b, bi, s, fo in lits if b is wb]
    for bi, s, fo in mine:
      out_idx = wb.const_of(fo['output'])
      # output vectors built in blocks dominated by the branch that built this edict: array aggregates of TxOut
      arrays = []
      for bj, blk in enumerate(wb.blocks):
        if blk['cleanup'] or not wb.dominates(bi, bj):
          continue
        for st in blk['s']:
          rv = st.get('rv')
          if rv and rv['k'] == 'agg' and rv['ak'] == 'array' and len(rv['ops']) >= 1 and 'bitcoin::TxOut' in wb.local_ty(st['p']['l']):
            arrays.append((st, rv))
      ctx.ob('R22.2', wb.n, f'output vectors found in the branch of the edict with output {out_idx}', len(arrays) == 2, f'{len(arrays)} TxOut array literals', where(wb, s['l']), nontrivial=False)
      for st, rv in arrays:
        n = len(rv['ops'])
        if out_idx is not None and out_idx < n:
          el = rv['ops'][out_idx]
          sl = wb.slice_of([el])
          if out_idx == 2:
            ok = 'destination' in sl.var_names() and not sl.has_call('re:Runestone::encipher$') and not sl.has_call('re:get_change_address$')
            lab = 'send: outputs[2] is the destination script'
          else:
            ok = sl.has_call('re:Runestone::encipher$') and 'destination' not in sl.var_names()
            lab = 'burn: outputs[0] is the runestone OP_RETURN'
          ctx.ob('R22.2', wb.n, lab, ok, f'the edict points at a different output: {sl.describe()}', where(wb, st['l']))
          if n >= 2:
            # the runestone is output 0 and change output 1 carries the change address
            s0, s1 = wb.slice_of([rv['ops'][0]]), wb.slice_of([rv['ops'][1]])
            ctx.ob('R22.2', wb.n, f'{n}-output vector: [0]=runestone, [1]=wallet change', s0.has_call('re:Runestone::encipher$') and s1.has_call('re:get_change_address$'), '', where(wb, st['l']))
        else:
          # single-output vector (no runestone needed): send -> destination only; burn -> runestone only
          sl = wb.slice_of([rv['ops'][0]])
          if out_idx == 2:
            ctx.ob('R22.2', wb.n, 'send without change: the only output is the destination', 'destination' in sl.var_names() and n == 1, '', where(wb, st['l']))
    # the runestone enciphered is the one holding the edict
    ctx.ob('R22.2', wb.n, 'two Edict literals (send, burn)', len(mine) == 2, f'{len(mine)}', where(wb, wb.line), nontrivial=False)


def _same_call_site(body, a, b_, last):
  ca = {o.call for o in deep_origins(body, a) if o.kind == 'call' and (o.call.name or '').endswith(last)}
  cb = {o.call for o in deep_origins(body, b_) if o.kind == 'call' and (o.call.name or '').endswith(last)}
  return bool(ca & cb)


def _loop_exit_dominates(body, gbb, target_bb):
  """the guard sits in a loop that must run to completion before target_bb: every path from entry to target passes the
  loop header's exit edge.  Approximation that is exact for `for` loops: some Iterator::next block dominating gbb whose
  None-edge target dominates target_bb and from whose Some-edge the None edge is unreachable without returning to next."""
  for c in body.calls:
    if c.is_('re:Iterator>::next$', 're:Iterator::next$') and body.dominates(c.bb, gbb) and body.strictly_reaches(gbb, c.bb):
      sw = c.target
      if body.term(sw)['k'] != 'switch':
        continue
      none_t = [tgt for lab, tgt in body.switch_edges(sw) if lab == 0]
      some_t = [tgt for lab, tgt in body.switch_edges(sw) if lab == 1]
      if none_t and some_t and body.dominates(none_t[0], target_bb):
        # outermost enclosing loop reached
        return True
  return False


def _r22_3(ctx):
  """accumulated rune balances are summed, never overwritten; split edicts address outputs by their position in the split file"""
  import re
  from ..facts import origins, describe_operand, norm
  from ..intervals import fmt_desc
  from ..core import where
  F = ctx.facts
  ctx.rule('R22.3', 'in the rune transaction builders (send/burn, split) every BTreeMap<Rune, u128> that accumulates balances over several outputs is mutated only through entry(..).or_default() += / checked_add — '
           'never through insert / extend / append, which overwrite an earlier output\'s balance')
  ctx.rule('R22.4', 'Split::build_transaction: an edict\'s output index is base + the position of the output in the split file (enumerate directly over splits.outputs), base is 2 with a rune change output and 1 without, '
           'and the transaction outputs are pushed in the order runestone, optional change, then splits.outputs in file order')
  bodies = [F.body('ord::wallet::Wallet::create_unsigned_send_or_burn_runes_transaction'), F.body('ord::subcommand::wallet::split::Split::build_transaction')]
  n_entry = 0
  for b in bodies:
    if not ctx.anchor('R22.3', 'rune transaction builder body', b is not None):
      continue
    ctx.analysed(b)
    for c in b.calls:
      m = re.search(r'BTreeMap(?:<.*>)?::(\w+)$|Extend(?:<.*>)?>::(extend)$|iter::Extend::(extend)$', c.name or '')
      if not m or not c.args:
        continue
      meth = m.group(1) or m.group(2) or m.group(3)
      names = {o.name for o in origins(b, c.args[0], named_terminal=True, depth=1) if o.kind in ('var', 'param') and o.name}
      maps = [nm for nm in names for l in b.locals_named(nm) if re.search(r'BTreeMap<ordinals::(rune::)?Rune, u128>$', b.local_ty(l))]
      if not maps:
        continue
      if meth == 'entry':
        n_entry += 1
      if meth in ('insert', 'extend', 'append', 'remove', 'clear', 'retain', 'pop_first', 'pop_last', 'split_off'):
        ctx.ob('R22.3', b.n, f'{maps[0]}.{meth}(..)', False, f'the accumulated rune balance map `{maps[0]}` is mutated by {meth}: the balance of an earlier selected output is overwritten or dropped instead of summed', where(b, c.line))
  ctx.floor('R22.3', 'entry(..) accumulations on rune balance maps', n_entry, 3)
  ctx.ob('R22.3', 'ord::wallet', 'no overwriting mutation of an accumulated rune balance map', True, '', nontrivial=False)
  sb = bodies[1]
  if sb is not None:
    lits = [s for blk in sb.blocks for s in blk['s'] if s.get('rv', {}).get('k') == 'agg' and norm(s['rv'].get('adt') or '').endswith('::Edict')]
    ctx.anchor('R22.4', 'Edict literal in Split::build_transaction', len(lits) == 1, sb.n)
    for s in lits:
      fo = dict(zip(s['rv']['fields'], s['rv']['ops']))
      # the index local and the iterator it is drawn from
      sl = sb.slice_of([fo['output']], through_calls=True)
      nexts = [c for c in sl.calls if c.is_('re:Iterator>::next$')]
      direct = [c for c in nexts if re.search(r'^\[?std::iter::Enumerate<std::slice::Iter<', (c.f.get('ga') or '').strip())]
      over = any('splits.outputs' in fmt_desc(describe_operand(sb, c.args[0])) or any('outputs' in map(str, o.fields) for o in origins(sb, c.args[0])) for c in direct)
      d = fmt_desc(describe_operand(sb, fo['output']))
      ctx.ob('R22.4', sb.n, 'edict.output = base + enumerate index taken directly over splits.outputs', bool(re.match(r'^Result::unwrap\(TryInto::try_into\(Add\(Iterator::next\(.*\)\.v:Some\.0\.0,base\)\)\)$', d)) and len(direct) >= 1 and len(direct) == len([c for c in nexts if 'Enumerate' in (c.f.get('ga') or '')]),
             f'{d}; enumerate over {[ (c.f.get("ga") or "")[:90] for c in nexts if "Enumerate" in (c.f.get("ga") or "")]}', where(sb, s['l']))
    bl = sb.locals_named('base')
    vals = sorted(sb.const_of(d_['rv']['o']) for l in bl for d_ in sb.defs().get(l, []) if d_['kind'] == 'assign' and d_['rv']['k'] == 'use' and isinstance(sb.const_of(d_['rv']['o']), int))
    ctx.ob('R22.4', sb.n, 'base is 2 (with rune change output) or 1', vals == [1, 2], f'{vals}', where(sb, sb.line))
    pushes = sorted([c for c in sb.calls if c.is_('std::vec::Vec::push') and 'bitcoin::TxOut' in (c.f.get('ga') or '')], key=lambda c: c.bb)
    okp = len(pushes) == 3
    if okp:
      d0, d1, d2 = [fmt_desc(describe_operand(sb, c.args[1])) for c in pushes]
      from ..panics import guard_strings
      okp = ('Runestone::encipher' in d0 and 'change_address' in d1 and any(g == 'need_rune_change_output==True' for g in guard_strings(sb, pushes[1].bb))
             and sb.dominates(pushes[0].bb, pushes[2].bb) and '.v:Some.0.1.address' in d2)
      sl2 = sb.slice_of([pushes[2].args[1]], through_calls=True)
      n2 = [c for c in sl2.calls if c.is_('re:Iterator>::next$') and 'Enumerate' in (c.f.get('ga') or '')]
      okp = okp and all(re.search(r'^\[?std::iter::Enumerate<std::slice::Iter<', (c.f.get('ga') or '').strip()) for c in n2) and len(n2) >= 1
    ctx.ob('R22.4', sb.n, 'outputs are pushed as: runestone, change iff need_rune_change_output, then splits.outputs in file order', okp, '', where(sb, sb.line))


# sensitivity pack (thorough tier): each seeded edit must be reported by the named rule instance
MUTANTS = [{'name': 'seeded-C22-a', 'patch': 'C22-a/patch.diff', 'expect': ('R22.3', 'create_unsigned_send_or_burn_runes_transaction', 'input_rune_balances.extend')},
           {'name': 'seeded-C22-b', 'patch': 'C22-b/patch.diff', 'expect': ('R22.4', 'Split::build_transaction', 'edict.output = base')}]
