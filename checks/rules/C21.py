"""C21 — batch inscribing: only the clause "the commit transaction spends no other inscribed or runic output" is decided
(DESIGN §5 C21): the commit transaction comes from the ordinal-aware builder with correctly wired sets (R20.*), the automatic
satpoint choice excludes inscribed / locked / runic / empty outputs, and explicit satpoints on inscribed UTXOs are rejected."""
from ..core import where
from ..facts import norm, origins, guards_of
from ..guards import all_guards, call_polarity, find_cmp, names_of, conjuncts
from .common import success_return_blocks, result_is_checked, short, reaches_avoiding, deep_origins, origin_fields

PLAN = 'ord::wallet::batch::plan::Plan'
CBT = PLAN + '::create_batch_transactions'
INSCRIBE = PLAN + '::inscribe'
NEW = 'ord::wallet::transaction_builder::TransactionBuilder::new'

ASSUMPTIONS = ["agreement between the planner's reported ids/locations and what the indexer assigns is cross-component value agreement and is not decided"]


def run(ctx):
  F = ctx.facts
  ctx.rule('R21.1', 'the commit transaction of a batch originates only from TransactionBuilder::new(..).build_transaction() (its input discipline is R20.1–R20.3)')
  ctx.rule('R21.2', 'the automatic satpoint choice in create_batch_transactions takes a utxo only if value > 0 ∧ ¬inscribed_utxos.contains ∧ ¬locked_utxos.contains ∧ ¬runic_utxos.contains')
  ctx.rule('R21.3', 'both Plan::inscribe call sites pass wallet.locked_utxos() then wallet.get_runic_outputs() in that order, and inscribe forwards them to the same-named parameters of create_batch_transactions')
  ctx.rule('R21.4', 'an explicit satpoint on an already inscribed sat is rejected unless reinscribe; a satpoint in a utxo holding another inscription is always rejected; both before the builder is invoked')

  cb = ctx.body('R21.1', CBT)
  if cb is None:
    return
  news = cb.calls_to(NEW)
  bts = cb.calls_to('ord::wallet::transaction_builder::TransactionBuilder::build_transaction')
  ctx.anchor('R21.1', 'TransactionBuilder::new / build_transaction in create_batch_transactions', len(news) == 1 and len(bts) == 1, cb.n)
  if len(news) == 1 and len(bts) == 1:
    n, bt = news[0], bts[0]
    ctx.ob('R21.1', cb.n, 'build_transaction receiver <- TransactionBuilder::new(..)', any(o.kind == 'call' and o.call is n for o in origins(cb, bt.args[0])), '', where(cb, bt.line))
    ctx.ob('R21.1', cb.n, 'build_transaction result tested', result_is_checked(cb, bt), '', where(cb, bt.line))
    # the commit_tx field of the returned Transactions derives from it
    aggs = [s for blk in cb.blocks for s in blk['s'] if s.get('rv', {}).get('k') == 'agg' and norm(s['rv'].get('adt') or '').endswith('::Transactions')]
    ctx.anchor('R21.1', 'Transactions literal', len(aggs) == 1, cb.n)
    for s in aggs:
      fo = dict(zip(s['rv']['fields'], s['rv']['ops']))
      co = deep_origins(cb, fo['commit_tx'])
      ctx.ob('R21.1', cb.n, 'Transactions.commit_tx <- the builder result', any(o.kind == 'call' and o.call is bt for o in co), f'{co[:4]}', where(cb, s['l']))
    # satpoint argument of new() is the chosen / explicit satpoint that passed the checks below
    so = deep_origins(cb, n.args[0], named_terminal=True)
    ctx.ob('R21.1', cb.n, 'builder outgoing satpoint <- the checked `satpoint`', any(o.name == 'satpoint' for o in so), f'{so}', where(cb, n.line))

  # ---------------- R21.2 : the find() predicate closure
  finds = [c for c in cb.calls if c.is_('re:Iterator::find$') and 'btree_map::Iter' in (c.f.get('ga') or '')]
  ctx.anchor('R21.2', 'utxos.iter().find(..) in create_batch_transactions', len(finds) == 1, cb.n)
  for c in finds:
    clos = None
    for o in origins(cb, c.args[1]):
      if o.kind == 'agg' and o.agg.get('ak') == 'closure':
        clos = (F.bodies.get(o.agg['def']), dict(zip(o.agg['fields'], o.agg['ops'])))
    ctx.anchor('R21.2', 'find predicate closure', clos is not None and clos[0] is not None, cb.n)
    if clos and clos[0] is not None:
      pb, caps = clos
      ctx.analysed(pb)
      terms = conjuncts(pb, {'c': {'l': 0}}) or []
      descs = []
      for atom, sw in terms:
        descs.append(atom)
      def has_term(pred):
        return any(pred(a) for a in descs)
      def is_not_contains(a, up):
        # ('not', ('call', '...contains', (recv, arg))) or cmp forms
        x = a
        neg = False
        while isinstance(x, tuple) and x and x[0] in ('not',):
          neg = not neg
          x = x[1]
        if isinstance(x, tuple) and x and x[0] == 'un' and x[1] == 'Not':
          neg = not neg
          x = x[2]
        return neg and isinstance(x, tuple) and x and x[0] == 'call' and x[1] and x[1].endswith('::contains') and up in str(x[2][0])
      gt0 = has_term(lambda a: isinstance(a, tuple) and a[0] == 'cmp' and a[1] == 'Gt' and 'to_sat' in str(a[2]) and a[3] == ('const', 0))
      ctx.ob('R21.2', pb.n, 'predicate term: txout.value.to_sat() > 0', gt0, f'{descs}', where(pb, pb.line))
      for up in ('inscribed_utxos', 'locked_utxos', 'runic_utxos'):
        ctx.ob('R21.2', pb.n, f'predicate term: !{up}.contains(outpoint)', has_term(lambda a, up=up: is_not_contains(a, 'upvar:' + up) or is_not_contains(a, up)), f'{descs}', where(pb, pb.line))
      ctx.ob('R21.2', pb.n, 'predicate is a pure conjunction of exactly four terms', len(descs) == 4, f'{len(descs)} terms', where(pb, pb.line))
      # captured variables are the function's parameters / the set derived from wallet_inscriptions
      for up, src in (('locked_utxos', 'locked_utxos'), ('runic_utxos', 'runic_utxos')):
        if up in caps:
          co = deep_origins(cb, caps[up], named_terminal=True)
          ctx.ob('R21.2', cb.n, f'captured {up} is the {src} parameter', any(o.name == src and o.kind in ('param', 'var') for o in co), f'{co}', where(cb, c.line))
      if 'inscribed_utxos' in caps:
        co = deep_origins(cb, caps['inscribed_utxos'])
        ctx.ob('R21.2', cb.n, 'captured inscribed_utxos <- wallet_inscriptions.keys().map(outpoint)', any(o.kind == 'param' and o.name == 'wallet_inscriptions' for o in co), f'{co[:5]}', where(cb, c.line))

  # ---------------- R21.3
  ib = ctx.body('R21.3', INSCRIBE)
  if ib is not None:
    cs = ib.calls_to(CBT)
    ctx.anchor('R21.3', 'create_batch_transactions call in inscribe', len(cs) == 1, ib.n)
    pidx = {cb.local_name(i): i for i in range(1, cb.argc + 1)}
    for c in cs:
      for pn in ('locked_utxos', 'runic_utxos', 'utxos'):
        os_ = deep_origins(ib, c.args[pidx[pn] - 1], named_terminal=True)
        ctx.ob('R21.3', ib.n, f'create_batch_transactions({pn} <- inscribe parameter {pn})', {o.name for o in os_ if o.kind in ('param', 'var')} == {pn}, f'{os_}', where(ib, c.line))
      os_ = deep_origins(ib, c.args[pidx['wallet_inscriptions'] - 1])
      ctx.ob('R21.3', ib.n, 'create_batch_transactions(wallet_inscriptions <- wallet.inscriptions())', any(o.kind == 'call' and o.call.is_('ord::wallet::Wallet::inscriptions') for o in os_), '', where(ib, c.line))
    ipidx = {ib.local_name(i): i for i in range(1, ib.argc + 1)}
    sites = F.call_sites(INSCRIBE)
    ctx.floor('R21.3', 'Plan::inscribe call sites', len(sites), 2)
    for c in sites:
      b = c.body
      ctx.analysed(b)
      lo = deep_origins(b, c.args[ipidx['locked_utxos'] - 1], named_terminal=False)
      ro = deep_origins(b, c.args[ipidx['runic_utxos'] - 1], named_terminal=False)
      lnames = {(o.call.name or '') for o in lo if o.kind == 'call'} | {o.name for o in deep_origins(b, c.args[ipidx['locked_utxos'] - 1], named_terminal=True) if o.name}
      rnames = {(o.call.name or '') for o in ro if o.kind == 'call'}
      okl = ('ord::wallet::Wallet::locked_utxos' in lnames or 'locked_utxos' in lnames) and 'ord::wallet::Wallet::get_runic_outputs' not in lnames
      okr = 'ord::wallet::Wallet::get_runic_outputs' in rnames and 'ord::wallet::Wallet::locked_utxos' not in rnames
      ctx.ob('R21.3', b.n, 'inscribe(locked_utxos <- wallet.locked_utxos())', okl, f'{sorted(short(x) for x in lnames if x)}', where(b, c.line))
      ctx.ob('R21.3', b.n, 'inscribe(runic_utxos <- wallet.get_runic_outputs())', okr, f'{sorted(short(x) for x in rnames if x)}', where(b, c.line))

  # ---------------- R21.4
  if len(news) == 1:
    n = news[0]
    gs = all_guards(cb, n.bb)
    # loop over wallet_inscriptions completes before the builder
    lp = [c for c in cb.calls if c.is_('re:btree_map::Iter.*Iterator>::next$') and cb.dominates(c.bb, n.bb) and any(o.kind == 'param' and o.name == 'wallet_inscriptions' for o in deep_origins(cb, c.args[0]))]
    ctx.anchor('R21.4', 'loop over wallet_inscriptions before the builder', len(lp) == 1, cb.n)
    for l in lp:
      none_t = [tgt for lab, tgt in cb.switch_edges(l.target) if lab == 0]
      some_t = [tgt for lab, tgt in cb.switch_edges(l.target) if lab == 1]
      ctx.ob('R21.4', cb.n, 'the builder runs only after every wallet inscription was compared with the satpoint', bool(none_t) and cb.dominates(none_t[0], n.bb) and bool(some_t) and not reaches_avoiding(cb, some_t[0], none_t[0], {l.bb}), '', where(cb, l.line))
      inner = [g for g in gs if cb.strictly_reaches(l.bb, g.bb) and cb.reaches(g.bb, l.bb)]
      eq_sat = [g for g in inner if any(o == 'Eq' for o, a, b_, p in g.forms()) and 'outpoint' not in _cmp_names(g) and 'satpoint' in str(g.atom)]
      # same satpoint: continue only under self.reinscribe
      re_g = [g for g in inner if 'reinscribe' in g.slice().fields and g.pol is not None]
      ctx.ob('R21.4', cb.n, 'same satpoint ⇒ error unless self.reinscribe', len(re_g) == 1 and re_g[0].pol is True, f'{[(g.atom, g.pol) for g in inner]}', where(cb, l.line))
      op_g = [g for g in inner if any(o == 'Eq' and p is False and 'outpoint' in names_of(a) and 'outpoint' in names_of(b_) for o, a, b_, p in g.forms())]
      ctx.ob('R21.4', cb.n, 'same outpoint, different sat ⇒ always an error', len(op_g) == 1, f'{[(g.atom, g.pol) for g in inner]}', where(cb, l.line))


def _cmp_names(g):
  return names_of(g.atom)


# sensitivity pack (thorough tier)
MUTANTS = [{'name': 'runic outputs allowed as commit input', 'file': 'src/wallet/batch/plan.rs', 'old': '            && !runic_utxos.contains(outpoint)\n', 'new': '', 'expect': ('R21.2', '', 'runic_utxos')},
           {'name': 'locked test inverted', 'file': 'src/wallet/batch/plan.rs', 'old': '            && !locked_utxos.contains(outpoint)', 'new': '            && locked_utxos.contains(outpoint)', 'expect': ('R21.2', '', 'locked_utxos')},
           {'name': 'same-outpoint check skipped when reinscribing', 'file': 'src/wallet/batch/plan.rs', 'old': '      if inscribed_satpoint.outpoint == satpoint.outpoint {', 'new': '      if !self.reinscribe && inscribed_satpoint.outpoint == satpoint.outpoint {', 'expect': ('R21.4', 'create_batch_transactions', 'same outpoint')}]


# behaviour-preserving pack (thorough tier)
NEUTRAL = [{'name': 'predicate terms reordered', 'file': 'src/wallet/batch/plan.rs', 'old': '            && !inscribed_utxos.contains(outpoint)\n            && !locked_utxos.contains(outpoint)\n', 'new': '            && !locked_utxos.contains(outpoint)\n            && !inscribed_utxos.contains(outpoint)\n'}]
