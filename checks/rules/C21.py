"""C21 — batch inscribing: only the clause "the commit transaction spends no other inscribed or runic output" is decided
(DESIGN §5 C21): the commit transaction comes from the ordinal-aware builder with correctly wired sets (R20.*), the automatic
satpoint choice excludes inscribed / locked / runic / empty outputs, and explicit satpoints on inscribed UTXOs are rejected."""
from ..core import where
from ..facts import norm, origins, guards_of
from ..guards import all_guards, call_polarity, find_cmp, names_of, conjuncts
from .common import success_return_blocks, result_is_checked, short, reaches_avoiding, deep_origins, origin_fields

PLAN = 'ord::wallet::batch::plan::Plan'
CBT = PLAN + '::create_batch_transactions'
INSCRIBE = PLAN + '::inscribe'
NEW = 'ord::wallet::transaction_builder::TransactionBuilder::new'

ASSUMPTIONS = ["agreement between the planner's reported ids/locations and what the indexer assigns is cross-component value agreement and is not decided"]


def run(ctx):
  F = ctx.facts
  ctx.rule('R21.1', 'the commit transaction of a batch originates only from TransactionBuilder::new(..).build_transaction() (its input discipline is R20.1–R20.3)')
  ctx.rule('R21.2', 'the automatic satpoint choice in create_batch_transactions takes a utxo only if value > 0 ∧ ¬inscribed_utxos.contains ∧ ¬locked_utxos.contains ∧ ¬runic_utxos.contains')
  ctx.rule('R21.3', 'both Plan::inscribe call sites pass wallet.locked_utxos() then wallet.get_runic_outputs() in that order, and inscribe forwards them to the same-named parameters of create_batch_transactions')
  ctx.rule('R21.4', 'an explicit satpoint on an already inscribed sat is rejected unless reinscribe; a satpoint in a utxo holding another inscription is always rejected; both before the builder is invoked')

  cb = ctx.body('R21.1', CBT)
  if cb is None:
    return
  news = cb.calls_to(NEW)
  bts = cb.calls_to('ord::wallet::transaction_builder::TransactionBuilder::build_transaction')
  ctx.anchor('R21.1', 'TransactionBuilder::new / build_transaction in create_batch_transactions', len(news) == 1 and len(bts) == 1, cb.n)
  if len(news) == 1 and len(bts) == 1:
    n, bt = news[0], bts[0]
    ctx.ob('R21.1', cb.n, 'build_transaction receiver <- TransactionBuilder::new(..)', any(o.kind == 'call' and o.call is n for o in origins(cb, bt.args[0])), '', where(cb, bt.line))
    ctx.ob('R21.1', cb.n, 'build_transaction result tested', result_is_checked(cb, bt), '', where(cb, bt.line))
    # the commit_tx field of the returned Transactions derives from it
    aggs = [s for blk in cb.blocks for s in blk['s'] if s.get('rv', {}).get('k') == 'agg' and norm(s['rv'].get('adt') or '').endswith('::Transactions')]
    ctx.anchor('R21.1', 'Transactions literal', len(aggs) == 1, cb.n)
    for s in aggs:
      fo = dict(zip(s['rv']['fields'], s['rv']['ops']))
      co = deep_origins(cb, fo['commit_tx'])
      ctx.ob('R21.1', cb.n, 'Transactions.commit_tx <- the builder result', any(o.kind == 'call' and o.call is bt for o in co), f'{co[:4]}', where(cb, s['l']))
    # satpoint argument of new() is the chosen / explicit satpoint that passed the checks below
    so = deep_origins(cb, n.args[0], named_terminal=True)
    ctx.ob('R21.1', cb.n, 'builder outgoing satpoint <- the checked `satpoint`', any(o.name == 'satpoint' for o in so), f'{so}', where(cb, n.line))

  # ---------------- R21.2 : the find() predicate closure
  finds = [c for c in cb.calls if c.is_('re:Iterator::find$') and 'btree_map::Iter' in (c.f.get('ga') or '')]
  ctx.anchor('R21.2', 'utxos.iter().find(..) in create_batch_transactions', len(finds) == 1, cb.n)
  for c in finds:
    clos = None
    for o in origins(cb, c.args[1]):
      if o.kind == 'agg' and o.agg.get('ak') == 'closure':
        clos = (F.bodies.get(o.agg['def']), dict(zip(o.agg['fields'], o.agg['ops'])))
    ctx.anchor('R21.2', 'find predicate closure', clos is not None and clos[0] is not None, cb.n)
    if clos and clos[0] is not None:
      pb, caps = clos
      ctx.analysed(pb)
      terms = conjuncts(pb, {'c': {'l': 0}}) or []
      descs = []
      for atom, sw in terms:
        descs.append(atom)
      def has_term(pred):
        return any(pred(a) for a in descs)
      def is_not_contains(a, up):
        # ('not', ('call', '...contains', (recv, arg))) or cmp forms
        x = a
        neg = False
        while isinstance(x, tuple) and x and x[0] in ('not',):
          neg = not neg
          x = x[1]
        if isinstance(x, tuple) and x and x[0] == 'un' and x[1] == 'Not':
          neg = not neg
          x = x[2]
        return neg and isinstance(x, tuple) and x and x[0] == 'call' and x[1] and x[1].endswith('::contains') and up in str(x[2][0])
      gt0 = has_term(lambda a: isinstance(a, tuple) and a[0] == 'cmp' and a[1] == 'Gt' and 'to_sat' in str(a[2]) and a[3] == ('const', 0))
      ctx.ob('R21.2', pb.n, 'predicate term: txout.value.to_sat() > 0', gt0, f'{descs}', where(pb, pb.line))
      for up in ('inscribed_utxos', 'locked_utxos', 'runic_utxos'):
        ctx.ob('R21.2', pb.n, f'predicate term: !{up}.contains(outpoint)', has_term(lambda a, up=up: is_not_contains(a, 'upvar:' + up) or is_not_contains(a, up)), f'{descs}', where(pb, pb.line))
      ctx.ob('R21.2', pb.n, 'predicate is a pure conjunction of exactly four terms', len(descs) == 4, f'{len(descs)} terms', where(pb, pb.line))
      # captured variables are the function's parameters / the set derived from wallet_inscriptions
      for up, src in (('locked_utxos', 'locked_utxos'), ('runic_utxos', 'runic_utxos')):
        if up in caps:
          co = deep_origins(cb, caps[up], named_terminal=True)
          ctx.ob('R21.2', cb.n, f'captured {up} is the {src} parameter', any(o.name == src and o.kind in ('param', 'var') for o in co), f'{co}', where(cb, c.line))
      if 'inscribed_utxos' in caps:
        co = deep_origins(cb, caps['inscribed_utxos'])
        ctx.ob('R21.2', cb.n, 'captured inscribed_utxos <- wallet_inscriptions.keys().map(outpoint)', any(o.kind == 'param' and o.name == 'wallet_inscriptions' for o in co), f'{co[:5]}', where(cb, c.line))

  # ---------------- R21.3
  ib = ctx.body('R21.3', INSCRIBE)
  if ib is not None:
    cs = ib.calls_to(CBT)
    ctx.anchor('R21.3', 'create_batch_transactions call in inscribe', len(cs) == 1, ib.n)
    pidx = {cb.local_name(i): i for i in range(1, cb.argc + 1)}
    for c in cs:
      for pn in ('locked_utxos', 'runic_utxos', 'utxos'):
        os_ = deep_origins(ib, c.args[pidx[pn] - 1], named_terminal=True)
        ctx.ob('R21.3', ib.n, f'create_batch_transactions({pn} <- inscribe parameter {pn})', {o.name for o in os_ if o.kind in ('param', 'var')} == {pn}, f'{os_}', where(ib, c.line))
      os_ = deep_origins(ib, c.args[pidx['wallet_inscriptions'] - 1])
      ctx.ob('R21.3', ib.n, 'create_batch_transactions(wallet_inscriptions <- wallet.inscriptions())', any(o.kind == 'call' and o.call.is_('ord::wallet::Wallet::inscriptions') for o in os_), '', where(ib, c.line))
    ipidx = {ib.local_name(i): i for i in range(1, ib.argc + 1)}
    sites = F.call_sites(INSCRIBE)
    ctx.floor('R21.3', 'Plan::inscribe call sites', len(sites), 2)
    for c in sites:
      b = c.body
      ctx.analysed(b)
      lo = deep_origins(b, c.args[ipidx['locked_utxos'] - 1], named_terminal=False)
      ro = deep_origins(b, c.args[ipidx['runic_utxos'] - 1], named_terminal=False)
      lnames = {(o.call.name or '') for o in lo if o.kind == 'call'} | {o.name for o in deep_origins(b, c.args[ipidx['locked_utxos'] - 1], named_terminal=True) if o.name}
      rnames = {(o.call.name or '') for o in ro if o.kind == 'call'}
      okl = ('ord::wallet::Wallet::locked_utxos' in lnames or 'locked_utxos' in lnames) and 'ord::wallet::Wallet::get_runic_outputs' not in lnames
      okr = 'ord::wallet::Wallet::get_runic_outputs' in rnames and 'ord::wallet::Wallet::locked_utxos' not in rnames
      ctx.ob('R21.3', b.n, 'inscribe(locked_utxos <- wallet.locked_utxos())', okl, f'{sorted(short(x) for x in lnames if x)}', where(b, c.line))
      ctx.ob('R21.3', b.n, 'inscribe(runic_utxos <- wallet.get_runic_outputs())', okr, f'{sorted(short(x) for x in rnames if x)}', where(b, c.line))

  # ---------------- R21.4
  if len(news) == 1:
    n = news[0]
    gs = all_guards(cb, n.bb)
    # loop over wallet_inscriptions completes before the builder
    lp = [c for c in cb.calls if c.is_('re:btree_map::Iter.*Iterator>::next$') and cb.dominates(c.bb, n.bb) and any(o.kind == 'param' and o.name == 'wallet_inscriptions' for o in deep_origins(cb, c.args[0]))]
    ctx.anchor('R21.4', 'loop over wallet_inscriptions before the builder', len(lp) == 1, cb.n)
    for l in lp:
      none_t = [tgt for lab, tgt in cb.switch_edges(l.target) if lab == 0]
      some_t = [tgt for lab, tgt in cb.switch_edges(l.target) if lab == 1]
      ctx.ob('R21.4', cb.n, 'the builder runs only after every wallet inscription was compared with the satpoint', bool(none_t) and cb.dominates(none_t[0], n.bb) and bool(some_t) and not reaches_avoiding(cb, some_t[0], none_t[0], {l.bb}), '', where(cb, l.line))
      inner = [g for g in gs if cb.strictly_reaches(l.bb, g.bb) and cb.reaches(g.bb, l.bb)]
      eq_sat = [g for g in inner if any(o == 'Eq' for o, a, b_, p in g.forms()) and 'outpoint' not in _cmp_names(g) and 'satpoint' in str(g.atom)]
      # same satpoint: continue only under self.reinscribe
      re_g = [g for g in inner if 'reinscribe' in g.slice().fields and g.pol is not None]
      # the arm taken when the wallet inscription sits on exactly the chosen satpoint: true edge of <SatPoint as PartialEq>::eq
      same_arm = []
      for c in cb.calls:
        if c.is_('re:SatPoint as (core|std)::cmp::PartialEq>::eq$') and cb.strictly_reaches(l.bb, c.bb) and cb.reaches(c.bb, l.bb) and c.target is not None:
          for lab, tgt in cb.switch_edges(c.target):
            if lab == 'otherwise' or (lab != 0 and lab != 'otherwise'):
              same_arm.append(tgt)
      re_same = [g for g in re_g if any(cb.dominates(t, g.bb) for t in same_arm)]
      # every test of self.reinscribe inside the loop, whether or not it decides reaching the builder (a `!self.reinscribe && ..` in
      # front of the outpoint comparison only skips an error and is not a guard of the builder)
      from ..facts import describe_cond
      from ..intervals import fmt_desc as _fd
      re_tests = [x for x in cb.reachable_from(l.bb) if cb.blocks[x]['t']['k'] == 'switch' and cb.reaches(x, l.bb) and cb.strictly_reaches(l.bb, x)
                  and 'reinscribe' in _fd(describe_cond(cb, cb.blocks[x]['t']['d']))]
      re_stray = [x for x in re_tests if not any(cb.dominates(t, x) for t in same_arm)]
      ctx.ob('R21.4', cb.n, 'same satpoint ⇒ error unless self.reinscribe', len(re_same) == 1 and re_same[0].pol is True, f'{[(g.atom, g.pol) for g in inner]}', where(cb, l.line))
      op_g = [g for g in inner if any(o == 'Eq' and p is False and 'outpoint' in names_of(a) and 'outpoint' in names_of(b_) for o, a, b_, p in g.forms())]
      ctx.ob('R21.4', cb.n, 'same outpoint, different sat ⇒ always an error (self.reinscribe is consulted only for the same satpoint)', len(op_g) == 1 and len(re_g) == len(re_same) and not re_stray,
             f'{[(g.atom, g.pol) for g in inner]}', where(cb, l.line))
  _r21_5(ctx, F, cb)
  _r21_6(ctx, F)


# reviewed reference table for R21.6 (one line of reason each): where create_batch_transactions puts inscription i of a batch.
# The reveal outputs are: one output per parent (returned to the wallet), then the inscription outputs.
LAYOUT = {
  'SameSat': ('parents', 'zero', 'all inscriptions on the first sat of the single output after the parents'),
  'SharedOutput': ('parents', 'postage-prefix', 'one output after the parents; inscription i sits after the postages of the inscriptions before it'),
  'SeparateOutputs': ('parents+i', 'zero', 'one output per inscription after the parents'),
  'SatPoints': ('parents+i', 'zero', 'one output per inscription (its own satpoint) after the parents'),
}


def _r21_5(ctx, F, cb):
  from ..affine import Analysis, Aff, pkey, DISCR, agg_sites, state_after_stmt
  ctx.rule('R21.5', 'create_batch_transactions: the runestone pointer of an etching with a premine is the output index reported as the premine location (RuneInfo.location.vout), '
           'that index is the premine output pushed last before the runestone is built, and both exist exactly when premine > 0')
  an = Analysis(cb, adts=F.adts)
  rs = agg_sites(cb, r'ordinals::runestone::Runestone$')
  if not ctx.anchor('R21.5', 'Runestone literal of the etching', len(rs) == 1, cb.n):
    return
  bb, i, stm = rs[0]
  fs = stm['rv'].get('fields') or []
  dk = pkey(stm['p'])
  pk = (dk[0], dk[1] + (('f', fs.index('pointer')),))
  # the reported vout: third component of the tuple stored in `rune`, mapped into RuneInfo by the closure
  tup = [(b2, i2, s2) for b2 in cb.reachable_from(0) for i2, s2 in enumerate(cb.blocks[b2]['s']) if s2.get('rv', {}).get('k') == 'agg' and s2['rv'].get('ak') == 'tuple' and len(s2['rv'].get('ops', [])) == 3
         and cb.dominates(bb, b2)]
  vl = None
  for b2, i2, s2 in tup:
    o = s2['rv']['ops'][2]
    for x in origins(cb, o, named_terminal=True):
      if x.kind == 'var' and x.local is not None and (cb.local_ty(x.local) or '').startswith('std::option::Option<u32>'):
        vl = x.local
  if not ctx.anchor('R21.5', 'reported (destination, rune, vout) tuple', vl is not None, cb.n):
    return
  cl = [c for c in F.closures_of(cb.n) if any(s2.get('rv', {}).get('k') == 'agg' and norm(s2['rv'].get('adt') or '').endswith('RuneInfo') for blk in c.blocks for s2 in blk['s'])]
  ok_cl = False
  for c in cl:
    for blk in c.blocks:
      for s2 in blk['s']:
        rv = s2.get('rv', {})
        if rv.get('k') == 'agg' and norm(rv.get('adt') or '').endswith('RuneInfo'):
          f2 = rv.get('fields') or []
          lo = deep_origins(c, rv['ops'][f2.index('location')], all_args=True)
          ok_cl = any(o.kind == 'param' and tuple(o.fields)[-1:] == ('2',) for o in lo)
  ctx.ob('R21.5', cb.n, 'RuneInfo.location is built from the third tuple component', ok_cl, '', where(cb, stm['l']))
  sts = state_after_stmt(an, bb, i)
  ctx.sites(len(sts))
  lens = None

  def chk(s):
    vd = s.m.get((vl, DISCR))
    pd = s.m.get((pk[0], pk[1] + DISCR))
    from ..affine import _NEG
    SOME, NONE = Aff.sym(('variant', 'Some')), Aff.sym(('variant', 'None'))
    cond = pd.single()[1] if pd is not None and pd.single() and pd.single()[0] == 'then_some' else None
    present = pd == SOME or (cond is not None and cond in s.guards)
    absent = pd == NONE or (cond is not None and (_NEG[cond[0]], cond[1], cond[2]) in s.guards)
    if vd == SOME:
      if not present:
        return f'a location is reported but the pointer ({pd}) is not known to be present under {s.guards}'
      pv, vv = s.val((pk[0], pk[1] + (('v', 'Some'), ('f', 0)))), s.val((vl, (('v', 'Some'), ('f', 0))))
      return True if pv == vv else f'pointer = {pv}, reported vout = {vv}'
    if vd == NONE:
      return True if absent else f'no location is reported but the pointer ({pd}) may be present under {s.guards}'
    return f'reported vout unknown ({vd})'
  bad = [r for r in map(chk, sts) if r is not True]
  ctx.ob('R21.5', cb.n, 'runestone pointer == reported premine vout, present under the same condition', bool(sts) and not bad, '; '.join(bad[:2]), where(cb, stm['l']))
  # that index is the last output at that point: reveal_outputs.len() - 1
  pushes = [c for c in cb.calls if c.is_('std::vec::Vec::push') and cb.reaches(c.bb, bb) and 'reveal_outputs' in {o.name for o in origins(cb, c.args[0], named_terminal=True)}]
  rl = [l for l in range(len(cb.locals)) if cb.local_name(l) == 'reveal_outputs']
  okl = bool(rl)
  msg = ''
  for s in sts:
    if s.m.get((vl, DISCR)) == Aff.sym(('variant', 'Some')) and rl:
      cur = s.val((rl[0], ('#len',)))
      vv = s.val((vl, (('v', 'Some'), ('f', 0))))
      if cur - Aff.const(1) != vv:
        okl = False
        msg = f'len = {cur}, vout = {vv}'
  ctx.ob('R21.5', cb.n, 'the reported vout is the output pushed last before the runestone is built (the premine output)', okl and bool(pushes), msg, where(cb, stm['l']))


def _r21_6(ctx, F):
  from ..affine import Analysis, Aff, pkey, agg_sites, state_after_stmt
  ctx.rule('R21.6', 'Plan::output reports, per mode, the place create_batch_transactions puts inscription i (reviewed LAYOUT table): vout = parents (+ i), offset = 0 or the sum of the postages before i; '
           'the id is (reveal, i) and the location is in the reveal transaction')
  b = ctx.body('R21.6', PLAN + '::output')
  if b is None:
    return
  an = Analysis(b, adts=F.adts)
  infos = agg_sites(b, r'InscriptionInfo$')
  if not ctx.anchor('R21.6', 'InscriptionInfo literal', len(infos) == 1, b.n):
    return
  bb, i, stm = infos[0]
  fs = stm['rv'].get('fields') or []
  dk = pkey(stm['p'])
  sts = state_after_stmt(an, bb, i)
  ctx.sites(len(sts))
  reveal = [l for l in range(1, b.argc + 1) if b.local_name(l) == 'reveal']
  insc = [l for l in range(1, b.argc + 1) if b.local_name(l) == 'inscriptions']
  if not ctx.anchor('R21.6', 'parameters reveal / inscriptions', len(reveal) == 1 and len(insc) == 1, b.n):
    return
  R = Aff.sym(('init', (reveal[0], ())))
  sub = lambda *path: (dk[0], dk[1] + tuple(('f', x) for x in path))
  fi = {n: fs.index(n) for n in ('id', 'location') if n in fs}
  seen = {}
  for s in sts:
    mode = [g[2].single()[1] for g in s.guards if g[0] == 'Eq' and g[2].single() and g[2].single()[0] == 'variant' and 'mode' in an.field_names(g[1])]
    if len(set(mode)) != 1:
      seen.setdefault('?', []).append(s)
    else:
      seen.setdefault(mode[0], []).append(s)
  ctx.ob('R21.6', b.n, 'every path to the report has matched self.mode', '?' not in seen and set(seen) == set(LAYOUT), f'{sorted(seen)}', where(b, stm['l']))
  # id = (reveal, i); location.outpoint.txid = reveal
  # InscriptionId {txid, index}; SatPoint {outpoint {txid, vout}, offset}
  idx_sym = None
  for m, ss in seen.items():
    if m not in LAYOUT:
      continue
    want_v, want_o, why = LAYOUT[m]
    for s in ss:
      txid_id, index_id = s.val(sub(fi['id'], 0)), s.val(sub(fi['id'], 1))
      txid_loc, vout, off = s.val(sub(fi['location'], 0, 0)), s.val(sub(fi['location'], 0, 1)), s.val(sub(fi['location'], 1))
      isym = index_id.single()
      pl = [x for x in vout.syms() if isinstance(x, tuple) and x[0] in ('init', 'f') and 'parent_info' in an.field_names(Aff.sym(x))]
      okv = False
      if len(pl) == 1:
        PL = Aff.sym(pl[0])
        okv = vout == (PL if want_v == 'parents' else PL + index_id) and pl[0][-1][-1:] == ('#len',) if pl[0][0] == 'f' else vout == (PL if want_v == 'parents' else PL + index_id)
      ctx.ob('R21.6', b.n, f'{m}: vout = {want_v}', okv and isym is not None, f'vout = {vout}, index = {index_id} ({why})', where(b, stm['l']))
      if want_o == 'zero':
        oko = off == Aff.const(0)
        d = f'offset = {off}'
      else:
        osy = off.single()
        oko = False
        d = f'offset = {off}'
        if isinstance(osy, tuple) and osy[0] == 'call':
          t = b.blocks[osy[1]]['t']
          if norm(t['f'].get('res') or t['f'].get('fn') or '').endswith('Iterator::sum'):
            oo = deep_origins(b, t['args'][0], all_args=True)
            for o in list(oo):
              if o.kind == 'agg' and norm(o.agg.get('adt') or '').endswith('ops::Range'):
                for op in o.agg.get('ops', []):
                  oo += deep_origins(b, op, all_args=True)
            names = {(o.kind, o.name, tuple(o.fields)[:1]) for o in oo}
            uses_post = any(o.kind == 'param' and o.name == 'self' and 'postages' in o.fields for o in oo)
            uses_idx = any(o.kind == 'call' and isym is not None and isym[0] == 'f' and ('call', o.call.bb) == isym[1] for o in oo) or any(o.kind == 'call' and o.call.is_('re:Range.*Iterator>::next$') for o in oo)
            # the summed values: walk the receiver chain down to its root
            op_, chain = t['args'][0], []
            for _ in range(12):
              cs = [o for o in origins(b, op_, passthrough=()) if o.kind == 'call']
              if len(cs) != 1:
                break
              chain.append(cs[0].call)
              if not cs[0].call.args:
                break
              op_ = cs[0].call.args[0]
            root = origins(b, op_)
            uses_post = any(o.kind == 'param' and o.name == 'self' and 'postages' in o.fields for o in root)
            uses_insc = any(o.kind == 'param' and o.name == 'inscriptions' for o in root)
            side = []
            for c2 in chain:
              for a2 in c2.args[1:]:
                side += deep_origins(b, a2, all_args=True)
                for o in list(side):
                  if o.kind == 'agg' and norm(o.agg.get('adt') or '').endswith('ops::Range'):
                    for op2 in o.agg.get('ops', []):
                      side += deep_origins(b, op2, all_args=True)
            uses_idx = any(o.kind == 'call' and isym is not None and isym[0] == 'f' and ('call', o.call.bb) == isym[1] for o in side)
            to_sat = any(c.is_('bitcoin::Amount::to_sat') for cb_ in F.closures_of(b.n) for c in cb_.calls)
            oko = uses_post and uses_idx and not uses_insc and to_sat
            d = f'sum over {sorted(n for n in names if n[1])[:5]}'
      ctx.ob('R21.6', b.n, f'{m}: offset = {want_o}', oko, d, where(b, stm['l']))
      ctx.ob('R21.6', b.n, f'{m}: id = (reveal, i) and the location is in the reveal transaction', txid_id == R and txid_loc == R and isym is not None and isym[0] == 'f', f'id.txid = {txid_id}, location txid = {txid_loc}, index = {index_id}', where(b, stm['l']))
      break


def _cmp_names(g):
  return names_of(g.atom)


# sensitivity pack (thorough tier)
MUTANTS = [{'name': 'seeded-C21-a', 'patch': 'C21-a/patch.diff', 'expect': ('R21.6', 'Plan::output', 'SharedOutput: offset')},
           {'name': 'seeded-C21-b', 'patch': 'C21-b/patch.diff', 'expect': ('R21.5', 'create_batch_transactions', 'runestone pointer')},
           {'name': 'runic outputs allowed as commit input', 'file': 'src/wallet/batch/plan.rs', 'old': '            && !runic_utxos.contains(outpoint)\n', 'new': '', 'expect': ('R21.2', '', 'runic_utxos')},
           {'name': 'locked test inverted', 'file': 'src/wallet/batch/plan.rs', 'old': '            && !locked_utxos.contains(outpoint)', 'new': '            && locked_utxos.contains(outpoint)', 'expect': ('R21.2', '', 'locked_utxos')},
           {'name': 'same-outpoint check skipped when reinscribing', 'file': 'src/wallet/batch/plan.rs', 'old': '      if inscribed_satpoint.outpoint == satpoint.outpoint {', 'new': '      if !self.reinscribe && inscribed_satpoint.outpoint == satpoint.outpoint {', 'expect': ('R21.4', 'create_batch_transactions', 'same outpoint')}]


# behaviour-preserving pack (thorough tier)
NEUTRAL = [{'name': 'pointer taken from the reported vout', 'file': 'src/wallet/batch/plan.rs', 'old': 'pointer: (premine > 0).then_some((reveal_outputs.len() - 1).try_into().unwrap()),', 'new': 'pointer: vout,'},
           {'name': 'postage prefix written with take(i)', 'file': 'src/wallet/batch/plan.rs', 'old': 'Mode::SharedOutput => self.postages[0..i]\n          .iter()', 'new': 'Mode::SharedOutput => self\n          .postages\n          .iter()\n          .take(i)'},
           {'name': 'predicate terms reordered', 'file': 'src/wallet/batch/plan.rs', 'old': '            && !inscribed_utxos.contains(outpoint)\n            && !locked_utxos.contains(outpoint)\n', 'new': '            && !locked_utxos.contains(outpoint)\n            && !inscribed_utxos.contains(outpoint)\n'}]
