"""C13 — a crash at any point leaves a consistent, resumable index: the commit protocol's shape (DESIGN §5 C13)."""
from ..core import where
from ..facts import norm, origins, guards_of
from ..tables_id import TableId
from .common import reaches_avoiding, guards_depending_on, result_is_checked, success_return_blocks, table_writers, short

INDEX_BLOCK = 'ord::index::updater::Updater::index_block'
UPDATE_INDEX = 'ord::index::updater::Updater::update_index'
COMMIT = 'ord::index::updater::Updater::commit'
IDX_BEGIN_WRITE = 'ord::index::Index::begin_write'
DB_BEGIN_WRITE = 'redb::Database::begin_write'
UPDATE_SAVEPOINTS = 'ord::index::reorg::Reorg::update_savepoints'
HANDLE_REORG = 'ord::index::reorg::Reorg::handle_reorg'
WTX_COMMIT = 'redb::WriteTransaction::commit'

# who may open a write transaction on the index database (reviewed; one reason each)
DB_BEGIN_WRITE_OWNERS = {
    'ord::index::Index::begin_write': 'the wrapper that sets durability',
    'ord::index::Index::open_with_event_sender': 'schema creation / schema check when the database is opened',
    'ord::index::Index::insert_offer': 'explorer offer submission: single-table transaction, not on the indexing path',
    'ord::index::Index::info': 'reads allocator stats of an empty write transaction, writes nothing',
    'ord::wallet::Wallet::open_database': 'the wallet\'s own redb file, not the index',
    'ord::wallet::Wallet::save_etching': 'the wallet\'s own redb file, not the index',
    'ord::wallet::Wallet::clear_etching': 'the wallet\'s own redb file, not the index',
    'ord::wallet::Wallet::create_database': 'the wallet\'s own redb file, not the index',
}
IDX_BEGIN_WRITE_OWNERS = {
    'ord::index::Index::update': 'opens the batch transaction handed to update_index',
    UPDATE_INDEX: 'opens the next batch transaction after a commit',
    COMMIT: 'second (empty) commit working around page reuse',
    HANDLE_REORG: 'rollback transaction',
    UPDATE_SAVEPOINTS: 'savepoint deletion / creation transactions',
}
MUST_CHECK = ['redb::WriteTransaction::commit', 'redb::WriteTransaction::persistent_savepoint',
              'redb::WriteTransaction::delete_persistent_savepoint', 'redb::WriteTransaction::restore_savepoint',
              'redb::WriteTransaction::set_durability']

ASSUMPTIONS = [
    "redb's write transactions are atomic and durable at commit with Durability::Immediate; savepoint restore is atomic (trusted, not analysed)",
    "use of a transaction after commit is already a compile error (commit(self) consumes it)",
]


def run(ctx):
  F = ctx.facts
  T = TableId(F)
  ctx.rule('R13.1', 'no body reachable from Updater::index_block opens a write transaction (all writes of a batch go through the single wtx handed to update_index)')
  ctx.rule('R13.2', 'every success return of index_block is dominated by HEIGHT_TO_BLOCK_HEADER.insert(self.height, ..) whose result is checked; no table write '
           'is reachable after it; self.height += 1 is dominated by it')
  ctx.rule('R13.3', 'who-may-call: Database::begin_write ⊆ reviewed owners; Index::begin_write ⊆ {update, update_index, commit, handle_reorg, update_savepoints}; '
           'Index::begin_write sets self.durability; the durability field is initialised from Durability::Immediate on every reachable path')
  ctx.rule('R13.4', 'the result of every WriteTransaction::{commit, persistent_savepoint, delete_persistent_savepoint, restore_savepoint, set_durability} call is tested, never dropped')
  ctx.rule('R13.5', 'update_savepoints: deletion commits before the second begin_write; persistent_savepoint and the LastSavepointHeight insert lie between that begin_write and its commit; '
           'handle_reorg: restore_savepoint then commit on the same transaction')
  ctx.rule('R13.6', 'in Updater::commit, update_savepoints is called only after the checked wtx.commit(); every table write of commit precedes wtx.commit()')

  writers, direct_writers = table_writers(F, T)

  # ---------------- R13.1
  ib = ctx.body('R13.1', INDEX_BLOCK)
  if ib is not None:
    reach = F.reachable_bodies([ib.path])
    ctx.extra['bodies_reachable_from_index_block'] = len(reach)
    ctx.floor('R13.1', 'bodies reachable from index_block', len(reach), 150)
    n = 0
    for p in reach:
      b = F.bodies[p]
      for c in b.calls:
        if c.is_(IDX_BEGIN_WRITE, DB_BEGIN_WRITE):
          n += 1
          ctx.ob('R13.1', b.n, f'{short(c.name)} reachable from index_block', False,
                 'a second write transaction is opened inside a block: ' + ' -> '.join(F.witness(reach, p)), where(b, c.line))
    ctx.ob('R13.1', ib.n, 'no begin_write reachable', n == 0, '', where(ib, ib.line))

  # ---------------- R13.2
  if ib is not None:
    hdr = [(c, k, t) for c, k, t in T.writes([ib]) if 'HEIGHT_TO_BLOCK_HEADER' in t and k == 'insert']
    ctx.anchor('R13.2', 'HEIGHT_TO_BLOCK_HEADER insert in index_block', len(hdr) == 1, ib.n)
    if len(hdr) == 1:
      hc = hdr[0][0]
      # key is self.height
      ko = origins(ib, hc.args[1])
      ok_key = any(o.kind == 'param' and o.name == 'self' and o.fields[:1] == ('height',) for o in ko)
      ctx.ob('R13.2', ib.n, 'header insert key<-self.height', ok_key, f'key origins: {ko}', where(ib, hc.line))
      ctx.ob('R13.2', ib.n, 'header insert result checked', bool(guards_depending_on(ib, _succ_after(ib, hc), hc)) or result_is_checked(ib, hc),
             'result of the header insert is dropped', where(ib, hc.line))
      srb = success_return_blocks(ib)
      ctx.anchor('R13.2', 'success return of index_block', len(srb) >= 1, ib.n)
      for rb in srb:
        ctx.ob('R13.2', ib.n, f'success return dominated by header insert', ib.dominates(hc.bb, rb) and hc.bb != rb,
               'a success return of index_block is reachable without writing the block header', where(ib, ib.term(rb).get('l') or hc.line))
      # nothing that writes tables after the header insert
      after = ib.reachable_from(hc.target) if hc.target is not None else set()
      late = []
      for c in ib.calls:
        if c.bb in after and c is not hc:
          if c.raw in writers or c.name in T_WRITE_NAMES():
            late.append(c)
      ctx.ob('R13.2', ib.n, 'header insert is the last table write of the block', not late,
             'table write after the header insert: ' + ', '.join(f'{short(c.name)}@{c.line}' for c in late), where(ib, hc.line))
      # self.height += 1 dominated by insert
      incs = _field_incs(ib, 'height')
      ctx.anchor('R13.2', 'self.height += 1 in index_block', len(incs) == 1, ib.n)
      for bb, line in incs:
        ctx.ob('R13.2', ib.n, 'self.height += 1 after header insert', ib.dominates(hc.bb, bb) and bb in after,
               'height is advanced before the header of the block is written', where(ib, line))

  # ---------------- R13.3
  sites = F.call_sites(DB_BEGIN_WRITE)
  ctx.sites(len(sites))
  ctx.floor('R13.3', 'Database::begin_write call sites', len(sites), 5)
  for c in sites:
    owner = _owner(c.body.n)
    ctx.ob('R13.3', c.body.n, 'Database::begin_write caller', owner in DB_BEGIN_WRITE_OWNERS,
           f'{owner} opens a raw write transaction but is not a reviewed owner', where(c.body, c.line), nontrivial=False)
  sites = F.call_sites(IDX_BEGIN_WRITE)
  ctx.sites(len(sites))
  ctx.floor('R13.3', 'Index::begin_write call sites', len(sites), 6)
  for c in sites:
    owner = _owner(c.body.n)
    ctx.ob('R13.3', c.body.n, 'Index::begin_write caller', owner in IDX_BEGIN_WRITE_OWNERS,
           f'{owner} opens an index write transaction but is not a reviewed owner', where(c.body, c.line), nontrivial=False)
  bw = ctx.body('R13.3', IDX_BEGIN_WRITE)
  if bw is not None:
    sd = bw.calls_to('redb::WriteTransaction::set_durability')
    ctx.anchor('R13.3', 'set_durability in Index::begin_write', len(sd) == 1, bw.n)
    for c in sd:
      os_ = origins(bw, c.args[1])
      ok = any(o.kind == 'param' and o.name == 'self' and o.fields[:1] == ('durability',) for o in os_)
      ctx.ob('R13.3', bw.n, 'set_durability(self.durability)', ok, f'durability argument origins: {os_}', where(bw, c.line))
      # the returned transaction is the one whose durability was set, and set_durability dominates the success return
      for rb in success_return_blocks(bw):
        ctx.ob('R13.3', bw.n, 'success return dominated by set_durability', bw.dominates(c.bb, rb), '', where(bw, c.line))
  # durability field initialisation
  n_init = 0
  for b in F.bodies.values():
    live = b.reachable_from(0)
    for bi, blk in enumerate(b.blocks):
      if blk['cleanup'] or bi not in live:
        continue
      for s in blk['s']:
        rv = s.get('rv')
        if rv and rv['k'] == 'agg' and rv['ak'] == 'adt' and norm(rv['adt']) == 'ord::index::Index' and 'durability' in rv['fields']:
          n_init += 1
          ctx.analysed(b)
          op = rv['ops'][rv['fields'].index('durability')]
          os_ = origins(b, op)
          vals = set()
          for o in os_:
            if o.kind == 'agg' and o.agg.get('adt') and norm(o.agg['adt']) == 'redb::Durability':
              vals.add(o.agg['variant'])
            else:
              vals.add(repr(o))
          ctx.ob('R13.3', b.n, 'Index.durability<-Durability::Immediate', vals == {'Immediate'},
                 f'durability initialised from {sorted(vals)}', where(b, s.get('l')))
  ctx.anchor('R13.3', 'Index struct literal with durability field', n_init >= 1)
  # no other assignment to the durability field
  for b in F.bodies.values():
    for bi, blk in enumerate(b.blocks):
      for s in blk['s']:
        p = s.get('p')
        if p and any(isinstance(e, dict) and e.get('n') == 'durability' for e in (p.get('p') or [])):
          base_ty = b.local_ty(p['l'])
          if 'ord::index::Index' in base_ty:
            ctx.ob('R13.3', b.n, 'assignment to Index.durability', False, 'durability is re-assigned outside construction', where(b, s.get('l')))

  # ---------------- R13.4
  n = 0
  for b in F.bodies.values():
    if not (b.file.startswith('src/index') or b.file == 'src/index.rs'):
      continue
    for c in b.calls:
      if c.name in MUST_CHECK:
        n += 1
        ctx.analysed(b)
        ok = result_is_checked(b, c)
        ctx.ob('R13.4', b.n, f'{short(c.name)} result tested', ok, 'result dropped: a failed commit/savepoint operation would go unnoticed', where(b, c.line))
  ctx.sites(n)
  ctx.floor('R13.4', 'commit/savepoint call sites under src/index*', n, 12)

  # ---------------- R13.5
  us = ctx.body('R13.5', UPDATE_SAVEPOINTS)
  if us is not None:
    bws = us.calls_to(IDX_BEGIN_WRITE)
    cms = us.calls_to(WTX_COMMIT)
    dels = us.calls_to('redb::WriteTransaction::delete_persistent_savepoint')
    saves = us.calls_to('redb::WriteTransaction::persistent_savepoint')
    ctx.anchor('R13.5', 'two begin_write and two commit calls in update_savepoints', len(bws) == 2 and len(cms) == 2, us.n)
    ctx.anchor('R13.5', 'delete_persistent_savepoint / persistent_savepoint in update_savepoints', len(dels) == 1 and len(saves) == 1, us.n)
    if len(bws) == 2 and len(cms) == 2 and len(dels) == 1 and len(saves) == 1:
      bw1, bw2 = (bws[0], bws[1]) if us.dominates(bws[0].bb, bws[1].bb) else (bws[1], bws[0])
      c1, c2 = (cms[0], cms[1]) if us.dominates(cms[0].bb, cms[1].bb) else (cms[1], cms[0])
      d, sv = dels[0], saves[0]
      ctx.ob('R13.5', us.n, 'order: begin_write#1 < delete < commit#1 < begin_write#2 < persistent_savepoint < commit#2',
             us.dominates(bw1.bb, d.bb) and us.dominates(bw1.bb, c1.bb) and us.dominates(c1.bb, bw2.bb) and us.dominates(bw2.bb, sv.bb) and us.dominates(sv.bb, c2.bb)
             and not us.strictly_reaches(c1.bb, d.bb) and not us.strictly_reaches(c2.bb, sv.bb),
             'savepoint deletion/creation are not separated by a commit as the protocol requires', where(us, sv.line))
      # same-transaction: receivers
      ctx.ob('R13.5', us.n, 'delete_persistent_savepoint on transaction #1', _same_tx(us, d.args[0], bw1), '', where(us, d.line))
      ctx.ob('R13.5', us.n, 'commit#1 commits transaction #1', _same_tx(us, c1.args[0], bw1), '', where(us, c1.line))
      ctx.ob('R13.5', us.n, 'persistent_savepoint on transaction #2', _same_tx(us, sv.args[0], bw2), '', where(us, sv.line))
      ctx.ob('R13.5', us.n, 'commit#2 commits transaction #2', _same_tx(us, c2.args[0], bw2), '', where(us, c2.line))
      # LastSavepointHeight insert between bw2 and c2 on tx2
      ins = [(c, k, t) for c, k, t in T.writes([us]) if 'STATISTIC_TO_COUNT' in t]
      ctx.anchor('R13.5', 'LastSavepointHeight insert in update_savepoints', len(ins) == 1, us.n)
      for c, k, t in ins:
        key_desc = us.slice_of([c.args[1]])
        is_lsh = ('ord::index::Statistic', 'LastSavepointHeight') in key_desc.adts
        ctx.ob('R13.5', us.n, 'LastSavepointHeight written in the savepoint transaction',
               is_lsh and us.dominates(sv.bb, c.bb) and us.dominates(c.bb, c2.bb) and _table_tx(us, c, bw2),
               'the savepoint height statistic is not written together with the savepoint', where(us, c.line))
      # every path from a begin_write to a success return passes the commit of that transaction
      for rb in success_return_blocks(us):
        for bwx, cx in ((bw1, c1), (bw2, c2)):
          ctx.ob('R13.5', us.n, f'no success return between begin_write and its commit', not reaches_avoiding(us, bwx.bb, rb, {cx.bb}),
                 'a success return is reachable after opening a transaction without committing it', where(us, bwx.line))
  hr = ctx.body('R13.5', HANDLE_REORG)
  if hr is not None:
    bws = hr.calls_to(IDX_BEGIN_WRITE)
    rs = hr.calls_to('redb::WriteTransaction::restore_savepoint')
    cms = hr.calls_to(WTX_COMMIT)
    ctx.anchor('R13.5', 'begin_write/restore_savepoint/commit in handle_reorg', len(bws) == 1 and len(rs) == 1 and len(cms) == 1, hr.n)
    if len(bws) == 1 and len(rs) == 1 and len(cms) == 1:
      ctx.ob('R13.5', hr.n, 'order: begin_write < restore_savepoint < commit (same transaction)',
             hr.dominates(bws[0].bb, rs[0].bb) and hr.dominates(rs[0].bb, cms[0].bb) and _same_tx(hr, rs[0].args[0], bws[0]) and _same_tx(hr, cms[0].args[0], bws[0]),
             'rollback is not restore-then-commit on one transaction', where(hr, rs[0].line))
      for rb in success_return_blocks(hr):
        ctx.ob('R13.5', hr.n, 'success return dominated by commit', hr.dominates(cms[0].bb, rb), 'handle_reorg can return Ok without committing the rollback', where(hr, cms[0].line))
      # oldest savepoint: argument of restore originates from get_persistent_savepoint(min of list)
      sl = hr.slice_of([rs[0].args[1]])
      ctx.ob('R13.5', hr.n, 'restored savepoint <- get_persistent_savepoint(list_persistent_savepoints().min())',
             sl.has_call('redb::WriteTransaction::get_persistent_savepoint') and sl.has_call('redb::WriteTransaction::list_persistent_savepoints') and sl.has_call('std::iter::Iterator::min'),
             f'restored savepoint derives from: {sl.describe()}', where(hr, rs[0].line))

  # ---------------- R13.6
  cm = ctx.body('R13.6', COMMIT)
  if cm is not None:
    wc = [c for c in cm.calls_to(WTX_COMMIT)]
    usp = cm.calls_to(UPDATE_SAVEPOINTS)
    ctx.anchor('R13.6', 'wtx.commit() and update_savepoints in Updater::commit', len(wc) == 2 and len(usp) == 1, cm.n)
    if len(wc) == 2 and len(usp) == 1:
      # the data commit is the one whose receiver is the wtx parameter
      data = [c for c in wc if any(o.kind == 'param' and o.name == 'wtx' for o in origins(cm, c.args[0]))]
      ctx.anchor('R13.6', 'commit of the wtx parameter', len(data) == 1, cm.n)
      if len(data) == 1:
        dc = data[0]
        gs = guards_depending_on(cm, usp[0].bb, dc)
        ctx.ob('R13.6', cm.n, 'update_savepoints only after checked wtx.commit()', cm.dominates(dc.bb, usp[0].bb) and bool(gs),
               'savepoints are updated before the batch is durably committed', where(cm, usp[0].line))
        late = [c for c, k, t in T.writes([cm]) if cm.strictly_reaches(dc.bb, c.bb)]
        inc_late = [c for c in cm.calls_to('ord::index::Index::increment_statistic') if cm.strictly_reaches(dc.bb, c.bb)]
        ctx.ob('R13.6', cm.n, 'all table writes of commit precede wtx.commit()', not late and not inc_late,
               'table write after wtx.commit(): ' + ', '.join(f'{short(c.name)}@{c.line}' for c in late + inc_late), where(cm, dc.line))
        for rb in success_return_blocks(cm):
          ctx.ob('R13.6', cm.n, 'success return dominated by wtx.commit()', cm.dominates(dc.bb, rb), 'commit() can return Ok without committing', where(cm, dc.line))
  # update_index: every success return is preceded by commit when uncommitted > 0 — the commit call consumes wtx (type system);
  ui = ctx.body('R13.6', UPDATE_INDEX)
  if ui is not None:
    cs = ui.calls_to(COMMIT)
    ctx.floor('R13.6', 'Updater::commit call sites in update_index', len(cs), 2)
    for c in cs:
      ctx.ob('R13.6', ui.n, 'Updater::commit result tested', result_is_checked(ui, c), 'commit error ignored', where(ui, c.line))
    # after each commit inside the loop, a fresh transaction is opened and the resume height is re-read and compared with self.height
    loop_commits = [c for c in cs if ui.strictly_reaches(c.bb, c.bb)]
    ctx.anchor('R13.6', 'commit inside the block loop of update_index', len(loop_commits) == 1, ui.n)
    for c in loop_commits:
      bw = [b_ for b_ in ui.calls_to(IDX_BEGIN_WRITE) if ui.dominates(c.bb, b_.bb)]
      ctx.ob('R13.6', ui.n, 'begin_write follows the in-loop commit', len(bw) == 1, '', where(ui, c.line))
      if len(bw) == 1:
        # guard comparing stored height with self.height dominates the next index_block via the back edge: find a switch
        # after bw whose condition mentions field height of self and a HEIGHT_TO_BLOCK_HEADER read
        found = False
        for bi in ui.reachable_from(bw[0].bb):
          t = ui.term(bi)
          if t['k'] == 'switch' and ui.dominates(bw[0].bb, bi):
            sl = ui.slice_of([t['d']])
            if 'height' in sl.fields and sl.has_call('re:redb::.*::open_table$') and ('Ne' in sl.binops or 'Eq' in sl.binops):
              ops = [o for cc in sl.calls if cc.is_('re:redb::.*::open_table$') for o in [cc.args[1].get('k', {}).get('def')]]
              if any(o and o.endswith('HEIGHT_TO_BLOCK_HEADER') for o in ops):
                found = True
        ctx.ob('R13.6', ui.n, 'resume height re-read from HEIGHT_TO_BLOCK_HEADER of the new transaction and compared with self.height', found,
               'after a commit the next batch does not verify that the stored height equals self.height', where(ui, bw[0].line))


def T_WRITE_NAMES():
  from ..tables_id import WRITE_METHODS
  return set(WRITE_METHODS)


def _succ_after(body, call):
  return call.target if call.target is not None else call.bb


def _owner(npath):
  """strip closure suffixes: a::b::{closure#0} -> a::b"""
  i = npath.find('::{')
  return npath[:i] if i >= 0 else npath


def _field_incs(body, field):
  """blocks where (*self).field is assigned from an Add involving itself"""
  out = []
  for bi, blk in enumerate(body.blocks):
    if blk['cleanup']:
      continue
    for s in blk['s']:
      p = s.get('p')
      if p and p['l'] == 1 and any(isinstance(e, dict) and e.get('n') == field for e in (p.get('p') or [])):
        sl = body.slice_of([_rv_as_op(s['rv'])]) if _rv_as_op(s['rv']) else None
        rv = s['rv']
        is_add = False
        if rv['k'] == 'bin' and rv['op'].startswith('Add'):
          is_add = True
        elif sl is not None and any(o.startswith('Add') for o in sl.binops):
          is_add = True
        if is_add:
          out.append((bi, s.get('l')))
  return out


def _rv_as_op(rv):
  if rv['k'] in ('use', 'cast'):
    return rv['o']
  return None


def _same_tx(body, recv_op, begin_call):
  """receiver operand originates from the result of this begin_write call"""
  return any(o.kind == 'call' and o.call is begin_call for o in origins(body, recv_op))


def _table_tx(body, write_call, begin_call):
  """the table written was opened on the transaction returned by begin_call"""
  for o in origins(body, write_call.args[0]):
    if o.kind == 'call' and o.call.is_('re:redb::.*::open_(multimap_)?table$'):
      if _same_tx(body, o.call.args[0], begin_call):
        return True
  return False


# sensitivity pack (thorough tier): each seeded edit must be reported by the named rule instance
MUTANTS = [{'name': 'seeded-C13-a', 'patch': 'C13-a/patch.diff', 'expect': ('R13.5', 'update_savepoints', 'LastSavepointHeight')},
           {'name': 'seeded-C13-b', 'patch': 'C13-b/patch.diff', 'expect': ('R13.6', 'Updater::commit', 'precede wtx.commit')}]


# behaviour-preserving pack (thorough tier)
NEUTRAL = [
  {'name': 'commit: two independent statistic flushes reordered', 'file': 'src/index/updater.rs', 'old': '    Index::increment_statistic(&wtx, Statistic::OutputsTraversed, self.outputs_traversed)?;\n    self.outputs_traversed = 0;\n    Index::increment_statistic(&wtx, Statistic::SatRanges, self.sat_ranges_since_flush)?;\n    self.sat_ranges_since_flush = 0;\n', 'new': '    Index::increment_statistic(&wtx, Statistic::SatRanges, self.sat_ranges_since_flush)?;\n    self.sat_ranges_since_flush = 0;\n    Index::increment_statistic(&wtx, Statistic::OutputsTraversed, self.outputs_traversed)?;\n    self.outputs_traversed = 0;\n'},
  {'name': 'savepoint count test commuted', 'file': 'src/index/reorg.rs', 'old': '      if savepoints.len() >= index.settings.max_savepoints() {', 'new': '      if index.settings.max_savepoints() <= savepoints.len() {'},
]
