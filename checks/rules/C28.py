"""C28 — inscription properties round-trip; decoding is bounded (DESIGN §5 C28).

Decides: R28.1 every append to the decompression output is dominated by the size guard, whose bound is
min(len × MAX_PROPERTIES_COMPRESSION_RATIO, MAX_COMPRESSED_PROPERTIES_SIZE), and no unbounded read (read_to_end / read_to_string)
is reachable from Inscription::properties; R28.2 an unknown property encoding yields None; R28.3 totality of the decoder
(Properties::from_cbor and the minicbor Decode impls); R28.4 the encoder enforces the same two constants.
Not decided: CBOR round-trip equality."""
import re
from ..core import where
from ..facts import describe_operand
from ..intervals import fmt_desc
from ..panics import run_inventory, guard_strings, closure
from ..tables.sites_C27 import TABLE

INS = 'ord::inscriptions::inscription::Inscription::'
ASSUMPTIONS = ["minicbor's Decoder and brotli::Decompressor are total on arbitrary input (they return Err on malformed data) and honour the io::Read contract (n <= buf.len())"]
ENTRIES = ['re:^ord::inscriptions::inscription::Inscription::(properties|properties_cbor)$', 're:^ord::properties::Properties::from_cbor$']


def run(ctx):
  F = ctx.facts
  ctx.rule('R28.1', 'Inscription::properties_cbor: every append to the decompressed buffer is dominated by the guard ¬(value.len() + n > max) with max = min(len × MAX_PROPERTIES_COMPRESSION_RATIO, MAX_COMPRESSED_PROPERTIES_SIZE); '
           'no read_to_end / read_to_string is reachable from Inscription::properties')
  ctx.rule('R28.2', 'Inscription::properties_cbor returns None for a property encoding other than BROTLI')
  ctx.rule('R28.3', 'site inventory over Inscription::{properties, properties_cbor}, Properties::from_cbor and the minicbor Decode impls of Properties / Item / Attributes / Traits / Trait / InscriptionId')
  ctx.rule('R28.4', 'compress_properties rejects inputs above MAX_COMPRESSED_PROPERTIES_SIZE and compression ratios above MAX_PROPERTIES_COMPRESSION_RATIO — the very constants the decoder bounds with')
  pc = ctx.body('R28.1', INS + 'properties_cbor')
  if pc is not None:
    ctx.analysed(pc)
    apps = [c for c in pc.calls if c.is_('re:vec::Vec::(extend_from_slice|push|extend|append|resize|extend_from_within|insert)$')]
    ctx.floor('R28.1', 'appends to the decompression buffer', len(apps), 1)
    want = 'Gt(Add(Vec::len(Vec::new()),Try::branch(Result::ok(Read::read(tmp,tmp))).v:Continue.0),Ord::min(num::saturating_mul(slice::len(Try::branch(tmp).v:Continue.0),MAX_PROPERTIES_COMPRESSION_RATIO),MAX_COMPRESSED_PROPERTIES_SIZE))==False'
    for c in apps:
      gs = guard_strings(pc, c.bb, forms=True)
      sz = [g for g in gs if g.startswith('Gt(Add(Vec::len(') and g.endswith('==False')]
      okb = len(sz) == 1 and 'Ord::min(num::saturating_mul(slice::len(' in sz[0] and 'MAX_PROPERTIES_COMPRESSION_RATIO),MAX_COMPRESSED_PROPERTIES_SIZE))' in sz[0]
      ctx.ob('R28.1', pc.n, f'{(c.name or "").split("::")[-1]} on the output is dominated by the size guard with the documented bound', okb, f'guards {gs}', where(pc, c.line))
      # the appended slice is the part of the buffer just read, and the guard speaks about the same n
      d = fmt_desc(describe_operand(pc, c.args[1]))
      ctx.ob('R28.1', pc.n, 'the appended data is buffer[..n] for the n that was checked', 'RangeTo{Try::branch(Result::ok(' in d and d.startswith('Index::index(vec::from_elem('), d, where(pc, c.line))
    # the loop ends only on n == 0 or an error
    reads = [c for c in pc.calls if c.is_('re:Read::read$|::read$') and 'Decompressor' in (c.f.get('ga') or '') + (c.name or '')]
    ctx.ob('R28.1', pc.n, 'exactly one read call feeds the loop', len(reads) == 1, f'{len(reads)}', where(pc, pc.line))
  pr = ctx.body('R28.1', INS + 'properties')
  if pr is not None:
    pred, roots = closure(F, [INS + 'properties'])
    bad = []
    for p in pred:
      for c in F.bodies[p].calls:
        if c.is_('re:Read(>)?::(read_to_end|read_to_string|read_exact)$') or (c.name or '').endswith(('::read_to_end', '::read_to_string')):
          bad.append((F.bodies[p].n, c.line))
    ctx.ob('R28.1', pr.n, 'no unbounded read reachable from Inscription::properties', not bad, f'{bad}', where(pr, pr.line))
    ctx.floor('R28.1', 'bodies reachable from Inscription::properties', len(pred), 8)
  # ---- R28.2
  if pc is not None:
    nones = [bi for bi, blk in enumerate(pc.blocks) for s in blk['s'] if s.get('rv', {}).get('k') == 'agg' and s['rv'].get('variant') == 'None' and s.get('p', {}).get('l') == 0 and bi in pc.reachable_from(0)]
    unk = [bi for bi in nones if any(re.match(r'^Ne\(self\.property_encoding\.v:Some\.0,str::as_bytes\(BROTLI\)\)==True$', g) for g in guard_strings(pc, bi))]
    ctx.ob('R28.2', pc.n, 'an encoding other than BROTLI returns None', len(unk) == 1, f'{[guard_strings(pc, b) for b in nones]}', where(pc, pc.line))
    dec = [c for c in pc.calls if 'Decompressor' in (c.name or '') and (c.name or '').endswith('::new')]
    for c in dec:
      gs = guard_strings(pc, c.bb)
      ctx.ob('R28.2', pc.n, 'decompression happens only for the BROTLI encoding', any(g.endswith('str::as_bytes(BROTLI))==False') for g in gs), f'{gs}', where(pc, c.line))
    ctx.floor('R28.2', 'Decompressor::new sites', len(dec), 1)
  # ---- R28.3
  run_inventory(ctx, 'R28.3', ENTRIES, TABLE, partition=(16 if ctx.tier == 'thorough' else 1), floor_fns=14, floor_sites=5, label='properties decoding')
  # ---- R28.4
  cp = ctx.body('R28.4', INS + 'compress_properties')
  if cp is not None:
    ctx.analysed(cp)
    oks = [bi for bi, blk in enumerate(cp.blocks) for s in blk['s'] if s.get('rv', {}).get('k') == 'agg' and s['rv'].get('variant') == 'Ok' and s.get('p', {}).get('l') == 0 and bi in cp.reachable_from(0)]
    ctx.anchor('R28.4', 'Ok return of compress_properties', len(oks) >= 1, cp.n)
    for bi in oks:
      gs = guard_strings(cp, bi, forms=True)
      a = any(re.match(r'^(Le\(Vec::len\(cbor\),MAX_COMPRESSED_PROPERTIES_SIZE\)==True|Gt\(Vec::len\(cbor\),MAX_COMPRESSED_PROPERTIES_SIZE\)==False)$', g) for g in gs)
      ctx.ob('R28.4', cp.n, 'Ok requires len <= MAX_COMPRESSED_PROPERTIES_SIZE', a, f'{gs}', where(cp, cp.line))
    ratio = [g for bi in range(len(cp.blocks)) if bi in cp.reachable_from(0) for g in guard_strings(cp, bi, forms=True) if 'MAX_PROPERTIES_COMPRESSION_RATIO' in g]
    ctx.ob('R28.4', cp.n, 'a compressed result is accepted only under len / compressed.len() <= MAX_PROPERTIES_COMPRESSION_RATIO', any(re.match(r'^(Le\(Div\(Vec::len\(cbor\),Vec::len\(.*\)\),MAX_PROPERTIES_COMPRESSION_RATIO\)==True|Gt\(Div\(Vec::len\(cbor\),Vec::len\(.*\)\),MAX_PROPERTIES_COMPRESSION_RATIO\)==False)$', g) for g in ratio) and any(g.startswith('Gt(Div(') and g.endswith('==True') or g.startswith('Le(Div(') and g.endswith('==False') for g in ratio), f'{sorted(set(ratio))}', where(cp, cp.line))
  cs = {k: (F.consts.get('ord::inscriptions::inscription::' + k) or {}).get('v') for k in ('MAX_COMPRESSED_PROPERTIES_SIZE', 'MAX_PROPERTIES_COMPRESSION_RATIO')}
  ctx.ob('R28.4', 'ord::inscriptions::inscription', 'documented limits: 4 000 000 bytes decompressed, ratio 30:1', cs == {'MAX_COMPRESSED_PROPERTIES_SIZE': 4_000_000, 'MAX_PROPERTIES_COMPRESSION_RATIO': 30}, f'{cs}', nontrivial=False)


# sensitivity pack (thorough tier): each seeded edit must be reported by the named rule instance
MUTANTS = [
  {'name': 'seeded-C28-a', 'patch': 'C28-a/patch.diff', 'expect': ('R28.3', 'Traits as minicbor::Decode>::decode', 'alloc:with_capacity')},
  {'name': 'seeded-C28-b', 'patch': 'C28-b/patch.diff', 'expect': ('R28.1', 'properties_cbor', 'size guard')},
{'name': 'size-guard-dropped', 'file': 'src/inscriptions/inscription.rs', 'old': '        if value.len() + n > max {\n          return None;\n        }\n', 'new': '', 'expect': ('R28.1', 'properties_cbor', 'dominated by the size guard')}]


# behaviour-preserving edits (thorough tier): the rules must stay silent on every one of them
NEUTRAL = [{'name': 'properties_cbor: size test written the other way round', 'file': 'src/inscriptions/inscription.rs', 'old': '        if value.len() + n > max {\n          return None;\n        }', 'new': '        let grown = value.len() + n;\n        if max < grown {\n          return None;\n        }'}]
