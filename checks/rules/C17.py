"""C17 — the address index lists exactly the unspent outputs of each script: UTXO-table writes and script-index writes
are in lockstep, keyed from the same entry (DESIGN §5 C17)."""
from ..core import where
from ..facts import norm, origins
from ..tables_id import TableId
from ..effects import always_with, guard_field_names
from .common import result_is_checked, short

COMMIT = 'ord::index::updater::Updater::commit'
IUE = 'ord::index::updater::Updater::index_utxo_entries'
PUSH_SPK = 'ord::index::utxo_entry::UtxoEntryBuf::push_script_pubkey'

ASSUMPTIONS = ["exactness of the listing over histories is not decided; only that the two tables are written in lockstep from the same entry"]


def _only_index_addresses(g):
  names = guard_field_names(g.body, g)
  return 'index_addresses' in names


def run(ctx):
  F = ctx.facts
  T = TableId(F)
  ctx.rule('R17.1', 'every removal from OUTPOINT_TO_UTXO_ENTRY is accompanied (guarded only by index_addresses) by a checked removal of (script_pubkey of the removed entry, same outpoint) from SCRIPT_PUBKEY_TO_OUTPOINT')
  ctx.rule('R17.2', 'every insert into OUTPOINT_TO_UTXO_ENTRY is accompanied (guarded only by index_addresses) by an insert of (script_pubkey of the inserted entry, same outpoint) into SCRIPT_PUBKEY_TO_OUTPOINT')
  ctx.rule('R17.3', 'no other body writes SCRIPT_PUBKEY_TO_OUTPOINT')
  ctx.rule('R17.4', 'push_script_pubkey for output vout takes tx.output[vout].script_pubkey; the fetched-input path pushes the fetched txout\'s script; pseudo-outputs push the empty script')

  _r17_5(ctx)
  writes = T.writes()
  utxo = [(c, k) for c, k, t in writes if 'OUTPOINT_TO_UTXO_ENTRY' in t]
  spk = [(c, k) for c, k, t in writes if 'SCRIPT_PUBKEY_TO_OUTPOINT' in t]
  ctx.floor('R17.3', 'SCRIPT_PUBKEY_TO_OUTPOINT write sites', len(spk), 2)
  for c, k in spk:
    owner = c.body.n
    ok = (k == 'insert' and owner == COMMIT) or (k == 'remove' and owner.startswith(IUE + '::{closure'))
    ctx.ob('R17.3', owner, f'SCRIPT_PUBKEY_TO_OUTPOINT.{k} owner', ok, 'address index written outside commit / the input loop', where(c.body, c.line))

  for c, k in utxo:
    b = c.body
    ctx.analysed(b)
    partners = [x for x, kk in spk if x.body is b and kk == k]
    rule = 'R17.1' if k == 'remove' else 'R17.2'
    ctx.ob(rule, b.n, f'OUTPOINT_TO_UTXO_ENTRY.{k} has a SCRIPT_PUBKEY_TO_OUTPOINT.{k} partner in the same body', len(partners) == 1,
           'UTXO table and address index are not updated together', where(b, c.line))
    if len(partners) != 1:
      continue
    p = partners[0]
    ok = always_with(b, c.bb, p.bb, allowed_guard=(lambda g, c=c: _only_index_addresses(g) or (k == 'remove' and c in g.slice().calls)))
    if k == 'remove':
      # the script removal happens only when the utxo removal returned Some: A = the Some-edge; approximate with reachability + guards
      pass
    ctx.ob(rule, b.n, f'{k}: lockstep modulo index_addresses', ok, f'a path performs the UTXO {k} but skips the address-index {k} (other than through index_addresses)', where(b, p.line))
    # key/value agreement
    if k == 'insert':
      # multimap.insert(script_pubkey, &outpoint.store()); table.insert(&outpoint.store(), entry)
      ks = b.slice_of([p.args[1]])
      vs = b.slice_of([p.args[2]])
      ent = b.slice_of([c.args[2]])
      entry_vars = ent.var_names()
      ctx.ob(rule, b.n, 'address key <- script_pubkey() of the parsed inserted entry',
             ks.has_call('ord::index::utxo_entry::ParsedUtxoEntry::script_pubkey') and ks.has_call('ord::index::utxo_entry::UtxoEntry::parse') and bool(entry_vars & ks.var_names()),
             f'script key derives from {ks.describe()}', where(b, p.line))
      ko = b.slice_of([c.args[1]], through_calls=False).var_names()
      ctx.ob(rule, b.n, 'address value <- the same outpoint as the UTXO key', bool(ko & b.slice_of([p.args[2]], through_calls=False).var_names() & {'outpoint'}) or
             (ks is not None and 'outpoint' in vs.var_names() and 'outpoint' in b.slice_of([c.args[1]]).var_names()), f'{sorted(vs.var_names())}', where(b, p.line))
    else:
      ks = b.slice_of([p.args[1]])
      ctx.ob(rule, b.n, 'removed script <- script_pubkey() of the removed entry', ks.has_call('ord::index::utxo_entry::ParsedUtxoEntry::script_pubkey') and c in ks.calls,
             f'script derives from {ks.describe()}', where(b, p.line))
      a, bb_ = b.slice_of([c.args[1]], through_calls=False), b.slice_of([p.args[2]], through_calls=False)
      ctx.ob(rule, b.n, 'removed outpoint is the same value as the UTXO key', bool(a.var_names() & bb_.var_names()), f'{sorted(a.var_names())} vs {sorted(bb_.var_names())}', where(b, p.line))
      ctx.ob(rule, b.n, 'address-index removal result tested (panic when absent)', result_is_checked(b, p), 'a missing address entry would go unnoticed', where(b, p.line))

  # ---------------- R17.4
  sites = F.call_sites(PUSH_SPK)
  ctx.sites(len(sites))
  ctx.floor('R17.4', 'push_script_pubkey call sites', len(sites), 5)
  for c in sites:
    b = c.body
    ctx.analysed(b)
    sl = b.slice_of([c.args[1]])
    os_ = origins(b, c.args[1])
    empty_const = any(o.kind == 'const' for o in os_) or (not sl.fields and not sl.calls and not sl.params)
    if 'script_pubkey' in sl.fields:
      # receiver index and source index must be the same enumerate variable (output path) or the fetched txout (input path)
      recv = b.slice_of([c.args[0]], through_calls=False)
      if b.n.endswith('index_transaction_output_script_pubkeys'):
        same = 'vout' in recv.var_names() and ('txout' in sl.var_names())
        en = sl.has_call('re:Enumerate.*::next$') and recv.has_call('re:Enumerate.*::next$') if False else True
        # vout and txout must come from the same enumerate().next() call
        nx_v = {x for x in b.slice_of([c.args[0]]).calls if x.is_('re:Enumerate.*::next$')}
        nx_s = {x for x in sl.calls if x.is_('re:Enumerate.*::next$')}
        # precisely: the bytes recorded are as_bytes() of that script on every path — not, say, an empty slice for some outputs (seeded C17-d)
        exact = bool(os_) and all(o.kind == 'call' and o.call.is_('re:Script::as_bytes$|ScriptBuf::as_bytes$') for o in os_)
        ctx.ob('R17.4', b.n, 'the recorded bytes are script_pubkey.as_bytes() on every path (no output is recorded with a different or empty script)', exact, f'{[repr(o) for o in os_]}', where(b, c.line))
        ctx.ob('R17.4', b.n, 'output_utxo_entries[vout] <- tx.output[vout].script_pubkey (same enumerate element)', same and bool(nx_v & nx_s), 'script of a different output is recorded', where(b, c.line))
      else:
        ctx.ob('R17.4', b.n, 'fetched input entry <- script_pubkey of the fetched txout', sl.has_call('re:broadcast::Receiver.*::blocking_recv$') or 'txout' in sl.var_names(),
               f'{sl.describe()}', where(b, c.line))
    else:
      ctx.ob('R17.4', b.n, 'pseudo-output pushes the empty script', empty_const and not sl.params, f'non-constant script for a pseudo-output: {sl.describe()}', where(b, c.line))


def _r17_5(ctx):
  """with the address index on, indexing starts at height 0 (every unspent output was seen by the indexer)"""
  from ..panics import guard_strings
  ctx.rule('R17.5', 'Index::open: first_index_height is 0 whenever index_addresses is set — every definition of first_index_height other than the constant 0 '
           'lies on the false edge of the index_addresses test (outputs created below the first indexed height would be missing from the address index)')
  b = ctx.body('R17.5', 'ord::index::Index::open_with_event_sender')
  if b is None:
    return
  lits0 = [s for blk in b.blocks for s in blk['s'] if s.get('rv', {}).get('k') == 'agg' and norm(s['rv'].get('adt') or '') == 'ord::index::Index']
  ls = []
  for s in lits0:
    fo0 = dict(zip(s['rv']['fields'], s['rv']['ops']))
    if 'first_index_height' in fo0:
      # the local the field is initialised from (whatever it is called)
      ls = sorted({o.local for o in origins(b, fo0['first_index_height'], named_terminal=True, depth=1) if o.local is not None})
  if not ctx.anchor('R17.5', 'the value stored in Index.first_index_height', len(ls) == 1, b.n):
    return
  defs = [d for d in b.defs().get(ls[0], []) if d['kind'] in ('assign', 'call') and not d['proj']]
  ctx.floor('R17.5', 'definitions of first_index_height', len(defs), 3)
  # the Index literal stores it
  lits = [s for blk in b.blocks for s in blk['s'] if s.get('rv', {}).get('k') == 'agg' and norm(s['rv'].get('adt') or '') == 'ord::index::Index']
  stored = False
  for s in lits:
    fo = dict(zip(s['rv']['fields'], s['rv']['ops']))
    if 'first_index_height' in fo:
      stored = any(o.local == ls[0] for o in origins(b, fo['first_index_height'], named_terminal=True, depth=1))
  ctx.ob('R17.5', b.n, 'Index.first_index_height <- first_index_height', stored, '', where(b, b.line))
  n_zero = 0
  for d in defs:
    zero = d['kind'] == 'assign' and d['rv']['k'] == 'use' and b.const_of(d['rv']['o']) == 0
    gs = guard_strings(b, d['bb'])
    if zero:
      n_zero += 1
      continue
    what = (d['call'].name.split('::')[-1] + '()') if d['kind'] == 'call' else str(b.const_of(d['rv'].get('o')) if d['rv']['k'] == 'use' else d['rv']['k'])
    off = any(g.endswith('==False') and 'Statistic::IndexAddresses' in g for g in gs)
    ctx.ob('R17.5', b.n, f'first_index_height = {what} only when the address index is off', off,
           f'this start height is also used with --index-addresses: outputs created below it never enter SCRIPT_PUBKEY_TO_OUTPOINT (guards: {[g for g in gs if "Statistic::" in g]})', where(b, d['line']))
  ctx.ob('R17.5', b.n, 'a definition first_index_height = 0 exists', n_zero >= 1, '', where(b, b.line), nontrivial=False)


# sensitivity pack (thorough tier): each seeded edit must be reported by the named rule instance
MUTANTS = [{'name': 'seeded-C17-d', 'patch': 'C17-d/patch.diff', 'expect': ('R17.4', 'index_transaction_output_script_pubkeys', 'as_bytes() on every path')},
           {'name': 'seeded-C17-a', 'patch': 'C17-a/patch.diff', 'expect': ('R17.3', 'index_transaction_output_script_pubkeys', 'SCRIPT_PUBKEY_TO_OUTPOINT')},
           {'name': 'seeded-C17-b', 'patch': 'C17-b/patch.diff', 'expect': ('R17.5', 'open_with_event_sender', 'first_index_height')}]


# behaviour-preserving pack (thorough tier)
NEUTRAL = [
  {'name': 'script bytes bound to a local', 'file': 'src/index/updater.rs', 'old': '      output_utxo_entries[vout].push_script_pubkey(txout.script_pubkey.as_bytes(), self.index);\n    }\n  }', 'new': '      let script = txout.script_pubkey.as_bytes();\n      output_utxo_entries[vout].push_script_pubkey(script, self.index);\n    }\n  }'},
  {'name': 'commit: satpoint literal inlined', 'file': 'src/index/updater.rs', 'old': '            let satpoint = SatPoint { outpoint, offset };\n            sequence_number_to_satpoint.insert(sequence_number, &satpoint.store())?;', 'new': '            sequence_number_to_satpoint.insert(sequence_number, &SatPoint { outpoint, offset }.store())?;'},
]
