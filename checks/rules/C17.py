"""C17 — the address index lists exactly the unspent outputs of each script: UTXO-table writes and script-index writes
are in lockstep, keyed from the same entry (DESIGN §5 C17)."""
from ..core import where
from ..facts import norm, origins
from ..tables_id import TableId
from ..effects import always_with, guard_field_names
from .common import result_is_checked, short

COMMIT = 'ord::index::updater::Updater::commit'
IUE = 'ord::index::updater::Updater::index_utxo_entries'
PUSH_SPK = 'ord::index::utxo_entry::UtxoEntryBuf::push_script_pubkey'

ASSUMPTIONS = ["exactness of the listing over histories is not decided; only that the two tables are written in lockstep from the same entry"]


def _only_index_addresses(g):
  names = guard_field_names(g.body, g)
  return 'index_addresses' in names


def run(ctx):
  F = ctx.facts
  T = TableId(F)
  ctx.rule('R17.1', 'every removal from OUTPOINT_TO_UTXO_ENTRY is accompanied (guarded only by index_addresses) by a checked removal of (script_pubkey of the removed entry, same outpoint) from SCRIPT_PUBKEY_TO_OUTPOINT')
  ctx.rule('R17.2', 'every insert into OUTPOINT_TO_UTXO_ENTRY is accompanied (guarded only by index_addresses) by an insert of (script_pubkey of the inserted entry, same outpoint) into SCRIPT_PUBKEY_TO_OUTPOINT')
  ctx.rule('R17.3', 'no other body writes SCRIPT_PUBKEY_TO_OUTPOINT')
  ctx.rule('R17.4', 'push_script_pubkey for output vout takes tx.output[vout].script_pubkey; the fetched-input path pushes the fetched txout\'s script; pseudo-outputs push the empty script')

  writes = T.writes()
  utxo = [(c, k) for c, k, t in writes if 'OUTPOINT_TO_UTXO_ENTRY' in t]
  spk = [(c, k) for c, k, t in writes if 'SCRIPT_PUBKEY_TO_OUTPOINT' in t]
  ctx.floor('R17.3', 'SCRIPT_PUBKEY_TO_OUTPOINT write sites', len(spk), 2)
  for c, k in spk:
    owner = c.body.n
    ok = (k == 'insert' and owner == COMMIT) or (k == 'remove' and owner.startswith(IUE + '::{closure'))
    ctx.ob('R17.3', owner, f'SCRIPT_PUBKEY_TO_OUTPOINT.{k} owner', ok, 'address index written outside commit / the input loop', where(c.body, c.line))

  for c, k in utxo:
    b = c.body
    ctx.analysed(b)
    partners = [x for x, kk in spk if x.body is b and kk == k]
    rule = 'R17.1' if k == 'remove' else 'R17.2'
    ctx.ob(rule, b.n, f'OUTPOINT_TO_UTXO_ENTRY.{k} has a SCRIPT_PUBKEY_TO_OUTPOINT.{k} partner in the same body', len(partners) == 1,
           'UTXO table and address index are not updated together', where(b, c.line))
    if len(partners) != 1:
      continue
    p = partners[0]
    ok = always_with(b, c.bb, p.bb, allowed_guard=(lambda g, c=c: _only_index_addresses(g) or (k == 'remove' and c in g.slice().calls)))
    if k == 'remove':
      # the script removal happens only when the utxo removal returned Some: A = the Some-edge; approximate with reachability + guards
      pass
    ctx.ob(rule, b.n, f'{k}: lockstep modulo index_addresses', ok, f'a path performs the UTXO {k} but skips the address-index {k} (other than through index_addresses)', where(b, p.line))
    # key/value agreement
    if k == 'insert':
      # multimap.insert(script_pubkey, &outpoint.store()); table.insert(&outpoint.store(), entry)
      ks = b.slice_of([p.args[1]])
      vs = b.slice_of([p.args[2]])
      ent = b.slice_of([c.args[2]])
      entry_vars = ent.var_names()
      ctx.ob(rule, b.n, 'address key <- script_pubkey() of the parsed inserted entry',
             ks.has_call('ord::index::utxo_entry::ParsedUtxoEntry::script_pubkey') and ks.has_call('ord::index::utxo_entry::UtxoEntry::parse') and bool(entry_vars & ks.var_names()),
             f'script key derives from {ks.describe()}', where(b, p.line))
      ko = b.slice_of([c.args[1]], through_calls=False).var_names()
      ctx.ob(rule, b.n, 'address value <- the same outpoint as the UTXO key', bool(ko & b.slice_of([p.args[2]], through_calls=False).var_names() & {'outpoint'}) or
             (ks is not None and 'outpoint' in vs.var_names() and 'outpoint' in b.slice_of([c.args[1]]).var_names()), f'{sorted(vs.var_names())}', where(b, p.line))
    else:
      ks = b.slice_of([p.args[1]])
      ctx.ob(rule, b.n, 'removed script <- script_pubkey() of the removed entry', ks.has_call('ord::index::utxo_entry::ParsedUtxoEntry::script_pubkey') and c in ks.calls,
             f'script derives from {ks.describe()}', where(b, p.line))
      a, bb_ = b.slice_of([c.args[1]], through_calls=False), b.slice_of([p.args[2]], through_calls=False)
      ctx.ob(rule, b.n, 'removed outpoint is the same value as the UTXO key', bool(a.var_names() & bb_.var_names()), f'{sorted(a.var_names())} vs {sorted(bb_.var_names())}', where(b, p.line))
      ctx.ob(rule, b.n, 'address-index removal result tested (panic when absent)', result_is_checked(b, p), 'a missing address entry would go unnoticed', where(b, p.line))

  # ---------------- R17.4
  sites = F.call_sites(PUSH_SPK)
  ctx.sites(len(sites))
  ctx.floor('R17.4', 'push_script_pubkey call sites', len(sites), 5)
  for c in sites:
    b = c.body
    ctx.analysed(b)
    sl = b.slice_of([c.args[1]])
    os_ = origins(b, c.args[1])
    empty_const = any(o.kind == 'const' for o in os_) or (not sl.fields and not sl.calls and not sl.params)
    if 'script_pubkey' in sl.fields:
      # receiver index and source index must be the same enumerate variable (output path) or the fetched txout (input path)
      recv = b.slice_of([c.args[0]], through_calls=False)
      if b.n.endswith('index_transaction_output_script_pubkeys'):
        same = 'vout' in recv.var_names() and ('txout' in sl.var_names())
        en = sl.has_call('re:Enumerate.*::next$') and recv.has_call('re:Enumerate.*::next$') if False else True
        # vout and txout must come from the same enumerate().next() call
        nx_v = {x for x in b.slice_of([c.args[0]]).calls if x.is_('re:Enumerate.*::next$')}
        nx_s = {x for x in sl.calls if x.is_('re:Enumerate.*::next$')}
        ctx.ob('R17.4', b.n, 'output_utxo_entries[vout] <- tx.output[vout].script_pubkey (same enumerate element)', same and bool(nx_v & nx_s), 'script of a different output is recorded', where(b, c.line))
      else:
        ctx.ob('R17.4', b.n, 'fetched input entry <- script_pubkey of the fetched txout', sl.has_call('re:broadcast::Receiver.*::blocking_recv$') or 'txout' in sl.var_names(),
               f'{sl.describe()}', where(b, c.line))
    else:
      ctx.ob('R17.4', b.n, 'pseudo-output pushes the empty script', empty_const and not sl.params, f'non-constant script for a pseudo-output: {sl.describe()}', where(b, c.line))
