"""C05 — inscription numbers, sequence numbers and IDs are dense, unique and consistent: the three lookup tables are written in
lockstep from the same triple; each counter has one increment site, read-in at block start and written back at block end
under the same key (DESIGN §5 C05)."""
from ..core import where
from ..facts import norm, origins, guards_of
from ..effects import always_with, paired
from ..guards import all_guards, find_cmp
from ..tables_id import TableId
from .common import success_return_blocks, result_is_checked, short, reaches_avoiding, deep_origins, origin_fields
from .C11 import _field_reads, _field_writes, _before

II = 'ord::index::updater::inscription_updater::InscriptionUpdater::index_inscriptions'
UIL = 'ord::index::updater::inscription_updater::InscriptionUpdater::update_inscription_location'
IUE = 'ord::index::updater::Updater::index_utxo_entries'
IU = 'ord::index::updater::inscription_updater::InscriptionUpdater'

# updater field <-> Statistic variant
STAT_PAIRS = {'blessed_inscription_count': 'BlessedInscriptions', 'cursed_inscription_count': 'CursedInscriptions',
              'unbound_inscriptions': 'UnboundInscriptions', 'lost_sats': 'LostSats'}

ASSUMPTIONS = ["density of numbering over histories and fee-flotsam ordering are not decided"]


# jubilee heights: the property's domain names regtest (110) and testnet4 (jubilant from genesis); mainnet/signet/testnet3 are the
# protocol's activation heights (ord 0.13 release notes) — a changed constant changes which inscriptions are vindicated
JUBILEE = {'Mainnet': 824544, 'Regtest': 110, 'Signet': 175392, 'Testnet': 2544192, 'Testnet4': 0}


def run(ctx):
  F = ctx.facts
  T = TableId(F)
  ctx.rule('R5.1', 'in the Origin::New arm, SEQUENCE_NUMBER_TO_INSCRIPTION_ENTRY, INSCRIPTION_ID_TO_SEQUENCE_NUMBER and INSCRIPTION_NUMBER_TO_SEQUENCE_NUMBER are all written on every path, '
           'from the same sequence_number / inscription_number / inscription_id values, which are also the entry\'s fields')
  ctx.rule('R5.2', 'next_sequence_number, blessed_inscription_count, cursed_inscription_count and unbound_inscriptions each have exactly one += 1 site, and the value used is read before it')
  ctx.rule('R5.5', 'Chain::jubilee_height returns the protocol constants per network (regtest 110, testnet4 0 = jubilant from genesis, mainnet 824544, signet 175392, testnet3 2544192)')
  ctx.rule('R5.3', 'index_utxo_entries initialises each InscriptionUpdater counter from Statistic::S and writes it back under the same Statistic::S; '
           'next_sequence_number is last stored sequence number + 1 and is written to HEIGHT_TO_LAST_SEQUENCE_NUMBER[self.height]')
  ctx.rule('R5.4', 'the inscription number is negative iff the flotsam is cursed; cursed = curse.is_some() && !jubilant, vindicated = curse.is_some() && jubilant, '
           'jubilant = self.height >= jubilee_height(); the id is {txid, index: id_counter} with id_counter incremented once per envelope')

  ub = ctx.body('R5.1', UIL)
  if ub is not None:
    ws = T.writes([ub])
    ent = [c for c, k, t in ws if 'SEQUENCE_NUMBER_TO_INSCRIPTION_ENTRY' in t and k == 'insert']
    idt = [c for c, k, t in ws if 'INSCRIPTION_ID_TO_SEQUENCE_NUMBER' in t and k == 'insert']
    num = [c for c, k, t in ws if 'INSCRIPTION_NUMBER_TO_SEQUENCE_NUMBER' in t and k == 'insert']
    # the New-arm entry insert: the stored aggregate mentions inscription_number as a local
    def entry_agg(c):
      for c2 in ub.slice_of([c.args[2]]).calls:
        if c2.is_('<ord::index::entry::InscriptionEntry as ord::index::entry::Entry>::store'):
          for o in origins(ub, c2.args[0]):
            if o.kind == 'agg':
              return dict(zip(o.agg['fields'], o.agg['ops'])), o.agg
      return None, None
    new_ent = []
    for c in ent:
      fo, agg = entry_agg(c)
      if fo and any(n.name == 'inscription_id' or 'inscription_id' in n.fields for n in origins(ub, fo['id'], named_terminal=True)) and idt and ub.dominates(c.bb, idt[0].bb):
        new_ent.append((c, fo))
    ctx.anchor('R5.1', 'New-arm entry insert, id insert and number insert', len(new_ent) == 1 and len(idt) == 1 and len(num) == 1, ub.n)
    if len(new_ent) == 1 and len(idt) == 1 and len(num) == 1:
      (e, fo), i, n = new_ent[0], idt[0], num[0]
      for a, b_, lab in ((n, e, 'number insert ⇒ entry insert'), (e, i, 'entry insert ⇒ id insert'), (n, i, 'number insert ⇒ id insert')):
        ctx.ob('R5.1', ub.n, lab, always_with(ub, a.bb, b_.bb) and ub.dominates(a.bb, b_.bb), 'the lookup tables can diverge (one written without the other)', where(ub, b_.line))
      for c in (e, i, n):
        ctx.ob('R5.1', ub.n, f'{short(c.name)}@{_tab(T, ub, c)} result tested', result_is_checked(ub, c), '', where(ub, c.line))
      def loc(op):
        # pure copies only: every origin (stopping at named locals) must be that named local, no arithmetic on the way
        os_ = origins(ub, op, named_terminal=True, depth=1)
        if os_ and all(o.kind in ('var', 'param') for o in os_):
          return {o.local for o in os_}
        return set()
      def deep(op):
        os_ = deep_origins(ub, op, named_terminal=True)
        if any(o.kind == 'bin' for o in os_):
          return set()
        return {o.local for o in os_ if o.kind in ('var', 'param')}
      seqs = set(ub.locals_named('sequence_number'))
      nums = set(ub.locals_named('inscription_number'))
      ids = set(ub.locals_named('inscription_id'))
      chk = [
          ('number table: (inscription_number, sequence_number)', bool(loc(n.args[1]) & nums) and bool(loc(n.args[2]) & seqs)),
          ('id table: (inscription_id.store(), sequence_number)', bool(deep(i.args[1]) & ids) and bool(loc(i.args[2]) & seqs)),
          ('entry table key: sequence_number', bool(loc(e.args[1]) & seqs)),
          ('entry.id <- inscription_id', bool(loc(fo['id']) & ids)),
          ('entry.inscription_number <- inscription_number', bool(loc(fo['inscription_number']) & nums)),
          ('entry.sequence_number <- sequence_number', bool(loc(fo['sequence_number']) & seqs)),
      ]
      for lab, ok in chk:
        ctx.ob('R5.1', ub.n, lab, ok, 'a lookup table is keyed or valued from a different value than the entry', where(ub, e.line))
      # sequence_number and inscription_id single origin
      so = [o for l in seqs for o in origins(ub, {'l': l})]
      ctx.ob('R5.1', ub.n, 'New arm sequence_number <- self.next_sequence_number', any(o.kind == 'param' and 'next_sequence_number' in o.fields for o in so), f'{so}', where(ub, e.line))
      io = [o for l in ids for o in origins(ub, {'l': l})]
      ctx.ob('R5.1', ub.n, 'inscription_id <- flotsam.inscription_id', any(o.kind == 'param' and o.name == 'flotsam' and 'inscription_id' in o.fields for o in io), f'{io}', where(ub, e.line))

    # ---------------- R5.2
    for fld, feeds in (('next_sequence_number', 'sequence_number'), ('blessed_inscription_count', 'inscription_number'), ('cursed_inscription_count', 'inscription_number'), ('unbound_inscriptions', None)):
      wr = _field_writes(ub, fld)
      rd = _field_reads(ub, fld)
      ctx.ob('R5.2', ub.n, f'self.{fld} has exactly one write site', len(wr) == 1, f'{len(wr)} writes', where(ub, ub.line))
      if len(wr) == 1:
        blk = ub.blocks[wr[0][0]]
        st = blk['s'][wr[0][1]]
        sl = ub.slice_of([st['rv'].get('o') or st['rv'].get('a') or {'l': st['p']['l']}], through_calls=False)
        is_inc = (st['rv']['k'] == 'bin' and st['rv']['op'].startswith('Add') and ub.const_of(st['rv']['b']) == 1) or (any(o.startswith('Add') for o in sl.binops) and 1 in sl.consts and fld in sl.fields)
        ctx.ob('R5.2', ub.n, f'self.{fld} write is += 1', is_inc, 'counter is not advanced by exactly one', where(ub, st.get('l')))
        pre = [r for r in rd if _before(ub, r, wr[0]) and not _feeds_write(ub, r, wr[0])]
        ctx.ob('R5.2', ub.n, f'value of self.{fld} is read before the increment', bool(pre), 'the number handed out is read after the increment (gap / repeat)', where(ub, st.get('l')))

  # ---------------- R5.3
  ib = ctx.body('R5.3', IUE)
  if ib is not None:
    lits = [(bi, s) for bi, blk in enumerate(ib.blocks) for s in blk['s'] if s.get('rv', {}).get('k') == 'agg' and norm(s['rv'].get('adt') or '') == IU]
    ctx.anchor('R5.3', 'InscriptionUpdater literal', len(lits) == 1, ib.n)
    ws = T.writes([ib])
    stat_ins = [c for c, k, t in ws if 'STATISTIC_TO_COUNT' in t and k == 'insert']
    ctx.floor('R5.3', 'statistic write-backs in index_utxo_entries', len(stat_ins), 4)
    if len(lits) == 1:
      bi, s = lits[0]
      fo = dict(zip(s['rv']['fields'], s['rv']['ops']))
      for fld, stat in STAT_PAIRS.items():
        gets = [o.call for o in deep_origins(ib, fo[fld]) if o.kind == 'call' and o.call.is_('re:ReadableTable(>)?::get$')]
        got = set()
        for g in gets:
          got |= {v for a, v in ib.slice_of([g.args[1]]).adts if a == 'ord::index::Statistic'}
        tabs = set().union(*[T.of_operand(ib, g.args[0]) for g in gets]) if gets else set()
        ctx.ob('R5.3', ib.n, f'InscriptionUpdater.{fld} <- Statistic::{stat}', got == {stat} and tabs == {'STATISTIC_TO_COUNT'}, f'initialised from {sorted(got)} of {sorted(tabs)}', where(ib, s['l']))
        # write-back
        wb = []
        for c in stat_ins:
          ks = ib.slice_of([c.args[1]])
          kv = {v for a, v in ks.adts if a == 'ord::index::Statistic'}
          if kv == {stat}:
            wb.append(c)
        ctx.ob('R5.3', ib.n, f'Statistic::{stat} is written back exactly once', len(wb) == 1, f'{len(wb)} write-backs', where(ib, s['l']))
        for c in wb:
          vo = origins(ib, c.args[2], named_terminal=True, depth=1)
          flds = origin_fields(vo)
          ok = fld in flds and 'inscription_updater' in flds
          ctx.ob('R5.3', ib.n, f'Statistic::{stat} <- inscription_updater.{fld}', ok, f'written from {sorted(map(str, flds))}', where(ib, c.line))
          for rb in success_return_blocks(ib):
            ctx.ob('R5.3', ib.n, f'Statistic::{stat} write-back on every success path', ib.dominates(c.bb, rb) and result_is_checked(ib, c), '', where(ib, c.line))
      ns = ib.slice_of([fo['next_sequence_number']])
      chain = [o.call for o in deep_origins(ib, fo['next_sequence_number']) if o.kind == 'call']
      its = [c for c in chain if c.is_('re:ReadableTable(>)?::iter$')]
      mp = [c for c in chain if c.is_('std::option::Option::map')]
      plus1 = False
      for m in mp:
        for o in origins(ib, m.args[1]):
          if o.kind == 'agg' and o.agg.get('ak') == 'closure' and F.bodies.get(o.agg['def']):
            cb = F.bodies[o.agg['def']]
            plus1 = any(st.get('rv', {}).get('k') == 'bin' and st['rv']['op'].startswith('Add') and cb.const_of(st['rv']['b']) == 1 for blk in cb.blocks for st in blk['s'])
      uo = [c for c in ib.slice_of([fo['next_sequence_number']], through_calls=False).calls if c.is_('std::option::Option::unwrap_or')]
      ctx.ob('R5.3', ib.n, 'next_sequence_number <- last key of SEQUENCE_NUMBER_TO_INSCRIPTION_ENTRY + 1 (or 0)',
             any(c.is_('re:DoubleEndedIterator>::next_back$') for c in chain) and len(its) == 1 and 'SEQUENCE_NUMBER_TO_INSCRIPTION_ENTRY' in T.of_operand(ib, its[0].args[0]) and plus1
             and len(uo) == 1 and ib.const_of(uo[0].args[1]) == 0, f'chain {[short(c.name) for c in chain]}', where(ib, s['l']))
      hl = [c for c, k, t in ws if 'HEIGHT_TO_LAST_SEQUENCE_NUMBER' in t and k == 'insert']
      ctx.anchor('R5.3', 'HEIGHT_TO_LAST_SEQUENCE_NUMBER insert', len(hl) == 1, ib.n)
      for c in hl:
        ko, vo = origins(ib, c.args[1]), origins(ib, c.args[2], named_terminal=True, depth=1)
        ctx.ob('R5.3', ib.n, 'HEIGHT_TO_LAST_SEQUENCE_NUMBER[self.height] <- inscription_updater.next_sequence_number',
               any('height' in o.fields for o in ko) and any('next_sequence_number' in o.fields for o in vo), f'{ko} {vo}', where(ib, c.line))

        from ..panics import guard_strings
        extra = [g for g in guard_strings(ib, c.bb) if not g.startswith('discr(Try::branch') and not g.startswith('discr(Iterator::next(') and g != 'index_inscriptions==True']
        ctx.ob('R5.3', ib.n, 'the per-block row of HEIGHT_TO_LAST_SEQUENCE_NUMBER is written for every block (only guard: index_inscriptions)', not extra,
               f'the row is skipped unless {extra}: readers take the previous height\'s row as the start of a block', where(ib, c.line))

  # ---------------- R5.5
  jb = ctx.body('R5.5', 'ord::chain::Chain::jubilee_height')
  if jb is not None:
    from .common import match_table
    tab = match_table(F, jb)
    ctx.anchor('R5.5', 'Chain::jubilee_height is a per-variant constant table', tab is not None, jb.n)
    for variant, want in JUBILEE.items():
      got = (tab or {}).get(variant)
      ctx.ob('R5.5', jb.n, f'jubilee height of {variant} = {want}', got == want, f'{got}', where(jb, jb.line), nontrivial=False)

  # ---------------- R5.4
  if ub is not None:
    # switch on `cursed`: the number on the true edge derives from cursed_inscription_count through a Neg, on the false edge from blessed
    nums = ub.locals_named('inscription_number')
    defs = [d for l in nums for d in ub.defs().get(l, []) if d['kind'] == 'assign']
    neg_defs, pos_defs = [], []
    class _S:
      def __init__(self, os_):
        self.fields = origin_fields(os_)
        self.binops = {o.agg['op'] for o in os_ if o.kind == 'bin'}
    for d in defs:
      rv = d['rv']
      if not rv.get('o'):
        continue
      src = _S(deep_origins(ub, rv['o']))
      (neg_defs if (rv['k'] == 'un' and rv['op'] == 'Neg') else pos_defs).append((d, src))
    okn = len(neg_defs) == 1 and 'cursed_inscription_count' in neg_defs[0][1].fields and 'blessed_inscription_count' not in neg_defs[0][1].fields
    okp = len(pos_defs) == 1 and 'blessed_inscription_count' in pos_defs[0][1].fields and 'cursed_inscription_count' not in pos_defs[0][1].fields
    ctx.ob('R5.4', ub.n, 'negative number <- -(cursed_inscription_count + 1)', okn and any(o.startswith('Add') for o in neg_defs[0][1].binops), f'cursed numbering altered: {[(d[1].fields, d[1].binops) for d in neg_defs]}', where(ub, ub.line))
    ctx.ob('R5.4', ub.n, 'non-negative number <- blessed_inscription_count', okp, 'blessed numbering altered', where(ub, ub.line))
    if okn and okp:
      nd, pd = neg_defs[0][0], pos_defs[0][0]
      gn = [g for g in guards_of(ub, nd['bb']) if 'cursed' in _pat_fields(ub, g) and g.cond_true_live() is True]
      gp = [g for g in guards_of(ub, pd['bb']) if 'cursed' in _pat_fields(ub, g) and g.cond_true_live() is False]
      ctx.ob('R5.4', ub.n, 'negative number iff flotsam.origin.cursed', bool(gn) and bool(gp) and gn[0].bb == gp[0].bb, 'the sign of the number is not decided by the cursed flag alone', where(ub, nd['line']))
  xb = ctx.body('R5.4', II)
  if xb is not None:
    news = [(s, s['rv']) for blk in xb.blocks for s in blk['s'] if s.get('rv', {}).get('k') == 'agg' and s['rv'].get('variant') == 'New' and 'cursed' in s['rv'].get('fields', [])]
    ctx.anchor('R5.4', 'Origin::New literal', len(news) == 1, xb.n)
    for s, rv in news:
      fo = dict(zip(rv['fields'], rv['ops']))
      for fld, negated in (('cursed', True), ('vindicated', False)):
        d = _and_shape(xb, fo[fld])
        ctx.ob('R5.4', xb.n, f'Origin::New.{fld} = curse.is_some() && {"!" if negated else ""}jubilant', d == ('is_some', 'jubilant', negated), f'shape {d}', where(xb, s['l']))
    jl = xb.locals_named('jubilant')
    ctx.anchor('R5.4', 'jubilant', len(jl) == 1, xb.n)
    for l in jl:
      ds = [d for d in xb.defs().get(l, []) if d['kind'] == 'assign']
      ok = len(ds) == 1 and ds[0]['rv']['k'] == 'bin' and ds[0]['rv']['op'] == 'Ge'
      if ok:
        a, b_ = xb.slice_of([ds[0]['rv']['a']]), xb.slice_of([ds[0]['rv']['b']])
        ok = 'height' in a.fields and b_.has_call('re:Chain::jubilee_height$')
      ctx.ob('R5.4', xb.n, 'jubilant = self.height >= chain.jubilee_height()', ok, 'jubilee comparison altered', where(xb, xb.line))
    # inscription id
    idl = [(s, s['rv']) for blk in xb.blocks for s in blk['s'] if s.get('rv', {}).get('k') == 'agg' and norm(s['rv'].get('adt') or '') == 'ord::inscriptions::inscription_id::InscriptionId']
    ctx.anchor('R5.4', 'InscriptionId literal in index_inscriptions', len(idl) == 1, xb.n)
    for s, rv in idl:
      fo = dict(zip(rv['fields'], rv['ops']))
      to = origins(xb, fo['txid'])
      io = xb.slice_of([fo['index']], through_calls=False).var_names()
      ctx.ob('R5.4', xb.n, 'InscriptionId{txid <- txid parameter, index <- id_counter}', any(o.kind == 'param' and o.name == 'txid' for o in to) and 'id_counter' in io, f'{to} {io}', where(xb, s['l']))
    cl = xb.locals_named('id_counter')
    incs = [(bi, si) for bi, blk in enumerate(xb.blocks) if not blk['cleanup'] for si, s in enumerate(blk['s']) if s.get('p') and s['p']['l'] in cl and not s['p'].get('p') and
            (s['rv']['k'] != 'use' or 'k' not in s['rv']['o'])]
    nx = [c for c in xb.calls if c.is_('re:Peekable.*::next$') and 'envelope::Envelope' in (c.f.get('ga') or '')]
    ctx.ob('R5.4', xb.n, 'id_counter has one increment, in lockstep with envelopes.next()', len(incs) == 1 and len(nx) == 1 and always_with(xb, nx[0].bb, incs[0][0], escape_at=[c.bb for c in xb.calls if c.is_('re:Peekable.*::peek$') and 'envelope::Envelope' in (c.f.get('ga') or '')]) and xb.dominates(nx[0].bb, incs[0][0]),
           f'{incs}', where(xb, xb.line))


def _tab(T, body, c):
  return '/'.join(sorted(T.of_operand(body, c.args[0])))


def _feeds_write(body, r, w):
  """the read is just the operand of the increment itself"""
  st = body.blocks[w[0]]['s'][w[1]]
  sl = body.slice_of([st['rv'].get('o') or st['rv'].get('a')], through_calls=False) if (st['rv'].get('o') or st['rv'].get('a')) else None
  return sl is not None and r[2] in sl.locals and body.local_name(r[2]) is None and not _used_elsewhere(body, r[2], w)


def _used_elsewhere(body, l, w):
  n = 0
  for bi, blk in enumerate(body.blocks):
    for si, s in enumerate(blk['s']):
      if 'rv' not in s:
        continue
      if str({'l': l})[1:-1] in str(s['rv']) and (bi, si) != (w[0], w[1]):
        n += 1
    t = blk['t']
    if t['k'] == 'call' and any((a.get('c') or a.get('m') or {}).get('l') == l for a in t['args']):
      n += 1
  return n > 1


def _pat_fields(body, g):
  sl = g.slice()
  return {str(f) for f in sl.fields}


def _and_shape(body, op):
  """recognise `X.is_some() && [!]jubilant` lowered to a short-circuit: returns (callname, varname, negated)"""
  l = (op.get('m') or op.get('c') or {}).get('l')
  if l is None:
    return None
  ds = [d for d in body.defs().get(l, []) if d['kind'] == 'assign']
  vals = []
  for d in ds:
    rv = d['rv']
    if rv['k'] == 'use' and body.const_of(rv['o']) is False:
      vals.append(('false',))
    elif rv['k'] == 'un' and rv['op'] == 'Not':
      vals.append(('not', body.slice_of([rv['o']], through_calls=False).var_names()))
    elif rv['k'] == 'use':
      vals.append(('val', body.slice_of([rv['o']], through_calls=False).var_names()))
    else:
      vals.append(('other',))
  # guard: the non-false definition is reached only on the true edge of a call to Option::is_some
  nonfalse = [d for d in ds if not (d['rv']['k'] == 'use' and body.const_of(d['rv']['o']) is False)]
  if len(nonfalse) != 1 or ('false',) not in vals:
    return ('unrecognised', vals)
  d = nonfalse[0]
  gs = [g for g in guards_of(body, d['bb']) if g.slice().has_call('re:Option::is_some$') and g.cond_true_live() is True and 'curse' in _names_deep(body, g)]
  if not gs:
    return ('no-is_some-guard', vals)
  rv = d['rv']
  if rv['k'] == 'un' and rv['op'] == 'Not':
    vn = body.slice_of([rv['o']], through_calls=False).var_names()
    return ('is_some', 'jubilant' if 'jubilant' in vn else str(vn), True)
  vn = body.slice_of([rv['o']], through_calls=False).var_names()
  return ('is_some', 'jubilant' if 'jubilant' in vn else str(vn), False)


def _names_deep(body, g):
  return g.slice().var_names()


# sensitivity pack (thorough tier): each seeded edit must be reported by the named rule instance
MUTANTS = [{'name': 'seeded-C05-a', 'patch': 'C05-a/patch.diff', 'expect': ('R5.3', 'index_utxo_entries', 'per-block row')},
           {'name': 'seeded-C05-b', 'patch': 'C05-b/patch.diff', 'expect': ('R5.5', 'jubilee_height', 'Testnet4')}]


# behaviour-preserving pack (thorough tier)
NEUTRAL = [
  {'name': 'inscription number: arms swapped under !cursed', 'file': 'src/index/updater/inscription_updater.rs', 'old': '        let inscription_number = if cursed {\n          let number: i32 = self.cursed_inscription_count.try_into().unwrap();\n          self.cursed_inscription_count += 1;\n          -(number + 1)\n        } else {\n          let number: i32 = self.blessed_inscription_count.try_into().unwrap();\n          self.blessed_inscription_count += 1;\n          number\n        };', 'new': '        let inscription_number = if !cursed {\n          let number: i32 = self.blessed_inscription_count.try_into().unwrap();\n          self.blessed_inscription_count += 1;\n          number\n        } else {\n          let number: i32 = self.cursed_inscription_count.try_into().unwrap();\n          self.cursed_inscription_count += 1;\n          -(number + 1)\n        };'},
  {'name': 'sequence number increment spelled out', 'file': 'src/index/updater/inscription_updater.rs', 'old': '        self.next_sequence_number += 1;\n', 'new': '        self.next_sequence_number = self.next_sequence_number + 1;\n'},
]
