"""C14 — reorganizations within the recoverable depth are undone: detection precedes writing, a hash mismatch never
yields Ok, both error kinds are handled, the unrecoverable flag is set, the loop retries (DESIGN §5 C14)."""
from ..core import where
from ..facts import norm, origins, guards_of
from ..tables_id import TableId, OPEN, WRITE_METHODS
from .common import guards_depending_on, result_is_checked, success_return_blocks, short, reaches_avoiding

INDEX_BLOCK = 'ord::index::updater::Updater::index_block'
DETECT = 'ord::index::reorg::Reorg::detect_reorg'
UPDATE = 'ord::index::Index::update'
HANDLE = 'ord::index::reorg::Reorg::handle_reorg'
ERR = 'ord::index::reorg::Error'

ASSUMPTIONS = ["whether the retained savepoints cover the reorg depth is a numeric fact and is not decided",
               "redb savepoint restore semantics trusted"]


def run(ctx):
  F = ctx.facts
  T = TableId(F)
  ctx.rule('R14.1', 'in Updater::index_block the checked Reorg::detect_reorg call dominates every open_table and every table write / writer call')
  ctx.rule('R14.2', 'in Reorg::detect_reorg no success return is reachable from the edge on which the stored and the node previous-block hashes differ; '
           'the Recoverable error carries the height and the depth of the loop')
  ctx.rule('R14.3', 'every reorg::Error variant constructed in the crate has an explicit arm in Index::update; the Recoverable arm calls handle_reorg (checked) and returns to the loop head; '
           'the Unrecoverable arm stores true into unrecoverably_reorged before returning Err; Index::status reads that flag')
  ctx.rule('R14.4', 'handle_reorg restores the oldest persistent savepoint and commits on the same transaction (shared with R13.5)')

  _r14_5(ctx)
  # ---------------- R14.1
  ib = ctx.body('R14.1', INDEX_BLOCK)
  if ib is not None:
    dr = ib.calls_to(DETECT)
    ctx.anchor('R14.1', 'detect_reorg call in index_block', len(dr) == 1, ib.n)
    if len(dr) == 1:
      d = dr[0]
      n = 0
      sinks = [c for c in ib.calls if c.is_(*OPEN) or c.name in WRITE_METHODS or (c.raw in F.bodies and c.name.startswith('ord::index::updater') and c is not d)]
      ctx.sites(len(sinks))
      ctx.floor('R14.1', 'table opens/writes/updater calls in index_block', len(sinks), 10)
      for c in sinks:
        gs = guards_depending_on(ib, c.bb, d)
        ok = ib.dominates(d.bb, c.bb) and bool(gs)
        ctx.ob('R14.1', ib.n, f'{short(c.name)}<-detect_reorg', ok, 'index state is touched before (or without) the reorg check' if not ok else '', where(ib, c.line))
      # arguments: block, self.height, self.index
      o1 = origins(ib, d.args[1])
      ctx.ob('R14.1', ib.n, 'detect_reorg(height<-self.height)', any(o.kind == 'param' and o.name == 'self' and o.fields[:1] == ('height',) for o in o1), f'{o1}', where(ib, d.line))

  # ---------------- R14.2
  db = ctx.body('R14.2', DETECT)
  if db is not None:
    ne = [c for c in db.calls if c.is_('std::cmp::PartialEq::ne', 're: as std::cmp::PartialEq>::ne$')]
    eqs = [c for c in db.calls if c.is_('re:<bitcoin::BlockHash as std::cmp::PartialEq>::eq$')]
    srb = success_return_blocks(db)
    ctx.anchor('R14.2', 'hash comparison in detect_reorg', len(ne) + len(eqs) >= 1, db.n)
    ctx.anchor('R14.2', 'success return in detect_reorg', len(srb) >= 1, db.n)
    # mismatch edges: true edge of `ne`; for a lone `eq` the false edge
    checked = 0
    for c in ne + eqs:
      # operands must be the stored hash (from Index::block_hash) and the block header's prev_blockhash
      sl = db.slice_of(c.args)
      if not (sl.has_call('ord::index::Index::block_hash') and 'prev_blockhash' in sl.fields):
        continue
      is_ne = c in ne
      # find the switch on the result
      t = db.term(c.target)
      sw_bb = c.target
      if t['k'] != 'switch':
        continue
      for lab, tgt in db.switch_edges(sw_bb):
        truth = (lab == 'otherwise' or lab == 1)
        mismatch = truth if is_ne else (not truth)
        if not mismatch:
          continue
        if is_ne:
          checked += 1
          bad = [rb for rb in srb if db.reaches(tgt, rb)]
          ctx.ob('R14.2', db.n, 'no Ok return reachable from the hash-mismatch edge', not bad,
                 'a previous-block hash mismatch can still return Ok (abandoned branch kept silently)', where(db, c.line))
        else:
          # eq false: must reach the ne test (or an error) before any success return: success only through the ne-false edge
          for rb in srb:
            if db.reaches(tgt, rb):
              via = [n_.target for n_ in ne]
              ok = bool(via) and not reaches_avoiding(db, tgt, rb, set(via))
              ctx.ob('R14.2', db.n, 'Ok after eq-false only through the ne test', ok, 'hash inequality can fall through to Ok', where(db, c.line))
    ctx.anchor('R14.2', 'mismatch edge (stored hash != header.prev_blockhash) in detect_reorg', checked >= 1, db.n)
    # error aggregates
    aggs = _err_aggs(db)
    ctx.ob('R14.2', db.n, 'constructs Recoverable and Unrecoverable', {'Recoverable', 'Unrecoverable'} <= {v for v, _, _ in aggs},
           f'variants constructed: {sorted({v for v, _, _ in aggs})}', where(db, db.line))
    for v, rv, line in aggs:
      if v == 'Recoverable':
        fo = dict(zip(rv['fields'], rv['ops']))
        oh = origins(db, fo['height'])
        od = origins(db, fo['depth'])
        ctx.ob('R14.2', db.n, 'Recoverable.height<-height parameter', any(o.kind == 'param' and o.name == 'height' for o in oh), f'{oh}', where(db, line))
        ctx.ob('R14.2', db.n, 'Recoverable.depth<-loop variable over 1..max_recoverable_reorg_depth',
               any(o.kind == 'call' and o.call.is_('re:Iterator.*::next$') for o in od) or any(o.kind == 'var' and o.name == 'depth' for o in od), f'{od}', where(db, line))

  # ---------------- R14.3
  constructed = set()
  for b in F.bodies.values():
    for v, rv, line in _err_aggs(b):
      constructed.add(v)
  adt = F.adts.get(ERR)
  ctx.anchor('R14.3', 'reorg::Error enum', adt is not None)
  ub = ctx.body('R14.3', UPDATE)
  if ub is not None and adt is not None:
    variants = {v['n']: v['discr'] for v in adt['variants']}
    dc = [c for c in ub.calls if c.is_('re:anyhow::.*downcast_ref$') and ERR in (c.f.get('ga') or '')]
    ctx.anchor('R14.3', 'downcast_ref::<reorg::Error> in Index::update', len(dc) == 1, ub.n)
    if len(dc) == 1:
      d = dc[0]
      # the switch on the discriminant of the downcast error
      sw = None
      for bi in ub.reachable_from(d.bb):
        t = ub.term(bi)
        if t['k'] == 'switch':
          ds = [df for df in ub.defs().get(t['d'].get('m', t['d'].get('c', {})).get('l', -1), []) if df['kind'] == 'assign' and df['rv']['k'] == 'discr']
          for df in ds:
            p = df['rv']['p']
            if ub.local_ty(p['l']).endswith(ERR) and '*' in (p.get('p') or []):
              sw = bi
      ctx.anchor('R14.3', 'match on the reorg::Error discriminant in Index::update', sw is not None, ub.n)
      if sw is not None:
        edges = dict((lab, tgt) for lab, tgt in ub.switch_edges(sw))
        for vn in sorted(constructed):
          ctx.ob('R14.3', ub.n, f'explicit arm for reorg::Error::{vn}', variants.get(vn) in edges, f'constructed variant {vn} has no explicit arm (falls to the generic error arm)', where(ub, ub.term(sw).get('l')))
        # Recoverable arm
        if variants.get('Recoverable') in edges:
          tgt = edges[variants['Recoverable']]
          hs = [c for c in ub.calls_to(HANDLE) if ub.reaches(tgt, c.bb)]
          ctx.ob('R14.3', ub.n, 'Recoverable arm calls handle_reorg', len(hs) == 1 and ub.dominates(tgt, hs[0].bb), '', where(ub, ub.term(sw).get('l')))
          if len(hs) == 1:
            h = hs[0]
            ctx.ob('R14.3', ub.n, 'handle_reorg result tested', result_is_checked(ub, h), 'rollback failure ignored', where(ub, h.line))
            oh, od = origins(ub, h.args[1]), origins(ub, h.args[2])
            ctx.ob('R14.3', ub.n, 'handle_reorg(height, depth)<-Recoverable{height, depth}',
                   any('height' in o.fields for o in oh) and any('depth' in o.fields for o in od), f'{oh} {od}', where(ub, h.line))
            # all returns reachable from the arm without passing handle_reorg: none; after handle_reorg success: loop head (begin_write) is reachable and no success return without it
            bws = ub.calls_to('ord::index::Index::begin_write')
            ctx.ob('R14.3', ub.n, 'after a successful rollback the loop retries (begin_write reachable, no direct return)',
                   len(bws) == 1 and not any(reaches_avoiding(ub, tgt, rb, {bws[0].bb}) for rb in success_return_blocks(ub)) and ub.reaches(h.target, bws[0].bb),
                   'the Recoverable arm can return without retrying', where(ub, h.line))
        if variants.get('Unrecoverable') in edges:
          tgt = edges[variants['Unrecoverable']]
          st = [c for c in ub.calls if c.is_('re:std::sync::atomic::Atomic(Bool)?::store$') and ub.reaches(tgt, c.bb)]
          ok = False
          for c in st:
            o = origins(ub, c.args[0])
            v = ub.const_of(c.args[1])
            if any(x.kind == 'param' and 'unrecoverably_reorged' in x.fields for x in o) and v is True and ub.dominates(tgt, c.bb):
              # every return reachable from the arm is dominated by the store
              rets = [rb for rb in ub.return_blocks() if ub.reaches(tgt, rb)]
              ok = not reaches_avoiding(ub, tgt, rets[0], {c.bb}) if rets else False
          ctx.ob('R14.3', ub.n, 'Unrecoverable arm stores true into unrecoverably_reorged before returning', ok, 'unrecoverable reorg is not flagged', where(ub, ub.term(sw).get('l')))
          ctx.ob('R14.3', ub.n, 'Unrecoverable arm returns an error', not any(ub.reaches(tgt, rb) and not ub.reaches(tgt, ub.calls_to("ord::index::Index::begin_write")[0].bb if ub.calls_to("ord::index::Index::begin_write") else -1) for rb in success_return_blocks(ub)) and not (ub.calls_to('ord::index::Index::begin_write') and ub.reaches(tgt, ub.calls_to('ord::index::Index::begin_write')[0].bb)),
                 'the Unrecoverable arm can retry or return Ok', where(ub, ub.term(sw).get('l')))
  sb = ctx.body('R14.3', 'ord::index::Index::status')
  if sb is not None:
    ld = [c for c in sb.calls if c.is_('re:std::sync::atomic::Atomic(Bool)?::load$')]
    ok = False
    for c in ld:
      if any(x.kind == 'param' and 'unrecoverably_reorged' in x.fields for x in origins(sb, c.args[0])):
        # flows into the status aggregate field of the same name
        for blk in sb.blocks:
          for s in blk['s']:
            rv = s.get('rv')
            if rv and rv['k'] == 'agg' and rv['ak'] == 'adt' and 'unrecoverably_reorged' in rv.get('fields', []):
              op = rv['ops'][rv['fields'].index('unrecoverably_reorged')]
              if any(o.kind == 'call' and o.call is c for o in origins(sb, op)):
                ok = True
    ctx.ob('R14.3', sb.n, 'status.unrecoverably_reorged<-self.unrecoverably_reorged.load()', ok, 'status does not report the flag', where(sb, sb.line))

  # ---------------- R14.4 (shared with C13)
  hr = ctx.body('R14.4', HANDLE)
  if hr is not None:
    bws = hr.calls_to('ord::index::Index::begin_write')
    rs = hr.calls_to('redb::WriteTransaction::restore_savepoint')
    cms = hr.calls_to('redb::WriteTransaction::commit')
    ctx.anchor('R14.4', 'begin_write/restore_savepoint/commit in handle_reorg', len(bws) == 1 and len(rs) == 1 and len(cms) == 1, hr.n)
    if len(bws) == 1 and len(rs) == 1 and len(cms) == 1:
      same = lambda op: any(o.kind == 'call' and o.call is bws[0] for o in origins(hr, op))
      ctx.ob('R14.4', hr.n, 'begin_write < restore_savepoint < commit on one transaction, all checked',
             hr.dominates(bws[0].bb, rs[0].bb) and hr.dominates(rs[0].bb, cms[0].bb) and same(rs[0].args[0]) and same(cms[0].args[0])
             and result_is_checked(hr, rs[0]) and result_is_checked(hr, cms[0]), '', where(hr, rs[0].line))
      for rb in success_return_blocks(hr):
        ctx.ob('R14.4', hr.n, 'success return dominated by commit', hr.dominates(cms[0].bb, rb), '', where(hr, cms[0].line))
      sl = hr.slice_of([rs[0].args[1]])
      ctx.ob('R14.4', hr.n, 'restored savepoint is the minimum of list_persistent_savepoints()',
             sl.has_call('redb::WriteTransaction::list_persistent_savepoints') and sl.has_call('std::iter::Iterator::min') and not sl.has_call('std::iter::Iterator::max'),
             sl.describe(), where(hr, rs[0].line))


def _err_aggs(b):
  out = []
  live = b.reachable_from(0)
  for bi, blk in enumerate(b.blocks):
    if blk['cleanup'] or bi not in live:
      continue
    for s in blk['s']:
      rv = s.get('rv')
      if rv and rv['k'] == 'agg' and rv['ak'] == 'adt' and norm(rv['adt']) == ERR:
        out.append((rv['variant'], rv, s.get('l')))
  return out


def _r14_5(ctx):
  """savepoints are taken during catch-up: the per-block loop of update_index commits when Reorg::is_savepoint_required says so"""
  from ..core import where
  from ..panics import guard_strings
  from .common import reaches_avoiding
  F = ctx.facts
  ctx.rule('R14.5', 'Updater::update_index asks Reorg::is_savepoint_required after every block (outside integration tests) and a true answer leads straight to a commit — so a multi-block catch-up takes the spaced savepoints '
           'that Reorg::detect_reorg assumes exist; Updater::commit calls Reorg::update_savepoints')
  b = ctx.body('R14.5', 'ord::index::updater::Updater::update_index')
  if b is None:
    return
  ctx.analysed(b)
  isr = b.calls_to('ord::index::reorg::Reorg::is_savepoint_required')
  commits = b.calls_to('ord::index::updater::Updater::commit')
  if not ctx.ob('R14.5', b.n, 'the per-block loop consults Reorg::is_savepoint_required', len(isr) == 1,
                'update_index no longer asks whether a savepoint is due: a catch-up over many blocks takes a single savepoint at the tip, while detect_reorg still assumes max_savepoints spaced ones', where(b, b.line)):
    return
  c = isr[0]
  gs = [g for g in guard_strings(b, c.bb) if not g.startswith('discr(Try::branch')]
  only = [g for g in gs if not g.startswith('discr(Receiver::recv(') and g not in ('Settings::integration_test(self.index.settings)==False',) and not g.startswith('Eq(uncommitted,Settings::commit_interval(')]
  ctx.ob('R14.5', b.n, 'is_savepoint_required is consulted for every received block (only integration_test and the commit-interval test precede it)', not only, f'extra conditions {only}', where(b, c.line))
  # the bool result (through `?`) decides a switch whose true edge reaches a commit without going round the loop
  ok = False
  for bb in b.reachable_from(c.bb):
    t = b.term(bb)
    if t['k'] == 'switch' and t.get('dty') == 'bool' and c in b.slice_of([t['d']]).calls:
      for lab, tgt in b.switch_edges(bb):
        if lab != 0:
          if any(reaches_avoiding(b, tgt, cm.bb, {c.bb}) for cm in commits):
            ok = True
  ctx.ob('R14.5', b.n, 'a true answer leads to Updater::commit in the same iteration', ok, 'catch-up over many blocks would take a single savepoint at the tip', where(b, c.line))
  cm = ctx.body('R14.5', 'ord::index::updater::Updater::commit')
  if cm is not None:
    ctx.ob('R14.5', cm.n, 'commit calls Reorg::update_savepoints', len(cm.calls_to('ord::index::reorg::Reorg::update_savepoints')) == 1, '', where(cm, cm.line))
  us = ctx.body('R14.5', 'ord::index::reorg::Reorg::update_savepoints')
  if us is not None:
    sp = us.calls_to('re:WriteTransaction::persistent_savepoint$')
    ir = us.calls_to('ord::index::reorg::Reorg::is_savepoint_required')
    ctx.ob('R14.5', us.n, 'a savepoint is created exactly when is_savepoint_required answers true', len(sp) == 1 and len(ir) == 1 and any(g.endswith('.v:Continue.0==True') and 'is_savepoint_required' in g for g in guard_strings(us, sp[0].bb)), '', where(us, us.line))


# sensitivity pack (thorough tier): each seeded edit must be reported by the named rule instance
MUTANTS = [{'name': 'seeded-C14-a', 'patch': 'C14-a/patch.diff', 'expect': ('R14.5', 'update_index', 'consults Reorg::is_savepoint_required')}]


# behaviour-preserving pack (thorough tier)
NEUTRAL = [
  {'name': 'reorg hash comparison commuted', 'file': 'src/index/reorg.rs', 'old': '          if index_block_hash == bitcoind_block_hash {', 'new': '          if bitcoind_block_hash == index_block_hash {'},
  {'name': 'savepoint count test commuted', 'file': 'src/index/reorg.rs', 'old': '      if savepoints.len() >= index.settings.max_savepoints() {', 'new': '      if index.settings.max_savepoints() <= savepoints.len() {'},
]
