"""C06 — clause claim (DESIGN §10.11): "any inscription whose sat already carries an inscription is charmed as a reinscription".
Decided are the structural necessary conditions of the *always flagged* half: every inscription that floats through a transaction
(carried or new) registers its offset in `inscribed_offsets` under the very offset it floats at; a new inscription's
`reinscription` flag is `inscribed_offsets.contains_key(&offset)` for that same offset, evaluated before it registers itself;
and the flag alone decides Charm::Reinscription.  The converse half (clean first inscriptions are blessed) depends on the curse
ladder, which is its own specification, and on history stored per sat: NOT decided."""
from ..core import where
from ..facts import norm, origins
from ..affine import Analysis, Aff, pkey, agg_sites, state_after_stmt, smallest_loop
from ..guards import all_guards, expand
from ..intervals import fmt_desc
from .common import deep_origins, reaches_avoiding

II = 'ord::index::updater::inscription_updater::InscriptionUpdater::index_inscriptions'
UL = 'ord::index::updater::inscription_updater::InscriptionUpdater::update_inscription_location'

ASSUMPTIONS = ["only the 'always flagged' half is decided, and only within one transaction's bookkeeping plus the flag-to-charm step; "
               "that `inscribed_offsets` sees inscriptions made by earlier transactions relies on the UTXO entry carrying them (C04's clause)"]

# reviewed table: which condition, and nothing else, sets each charm in update_inscription_location (R6.3 uses the Reinscription row;
# the other rows are C03 R3.5's and are listed here once so that both modules read the same table)
CHARM_GUARD = {
  'Cursed': 'flotsam.origin.v:New.cursed',
  'Reinscription': 'flotsam.origin.v:New.reinscription',
  'Burned': 'op_return',
  'Lost': 'Eq(new_satpoint.outpoint,OutPoint::null())',
  'Unbound': 'flotsam.origin.v:New.unbound',
  'Vindicated': 'flotsam.origin.v:New.vindicated',
}


def _f(i):
  return ('f', i)


def _norm_eq(d):
  """Eq(a,b) and Eq(b,a) are the same test: order the two top-level operands"""
  if not (d.startswith('Eq(') and d.endswith(')')):
    return d
  body, depth, cut = d[3:-1], 0, None
  for i, ch in enumerate(body):
    if ch in '([{':
      depth += 1
    elif ch in ')]}':
      depth -= 1
    elif ch == ',' and depth == 0:
      cut = i
      break
  if cut is None:
    return d
  a, b_ = body[:cut], body[cut + 1:]
  a, b_ = sorted((a, b_), key=lambda x: (x.startswith('OutPoint::null'), x))
  return f'Eq({a},{b_})'


def charm_sites(b):
  out = []
  for c in b.calls:
    if c.is_('re:Charm::set$'):
      vs = [o.agg.get('variant') for o in origins(b, c.args[0]) if o.kind == 'agg']
      gs = {(_norm_eq(fmt_desc(g.atom)), g.pol) for g in expand(b, all_guards(b, c.bb)) if not fmt_desc(g.atom).startswith('discr(')}
      out.append((c, vs[0] if len(vs) == 1 else None, gs))
  return out


def run(ctx):
  F = ctx.facts
  ctx.rule('R6.1', 'index_inscriptions: after every floating_inscriptions.push(Flotsam { offset, .. }) the same offset is registered with inscribed_offsets.entry(offset).or_insert(..).1 += 1 before the loop continues (carried and new inscriptions alike)')
  ctx.rule('R6.2', 'index_inscriptions: Origin::New.reinscription is inscribed_offsets.contains_key(&offset) for the offset the inscription floats at (after the pointer was applied), evaluated before the inscription registers itself')
  ctx.rule('R6.3', 'update_inscription_location: Charm::Reinscription is set exactly under the reinscription flag of Origin::New, and the charms word it is set in is the one stored in the new entry')
  b = ctx.body('R6.1', II)
  if b is None:
    return
  an = Analysis(b, adts=F.adts)
  fl = agg_sites(b, r'inscription_updater::Flotsam$')
  ctx.floor('R6.1', 'Flotsam literals in index_inscriptions', len(fl), 2)
  ents = [c for c in b.calls if c.is_('re:BTreeMap.*::entry$') and 'inscribed_offsets' in {o.name for o in origins(b, c.args[0], named_terminal=True)}]
  for bb, i, stm in fl:
    fs = stm['rv'].get('fields') or []
    dk = pkey(stm['p'])
    h = smallest_loop(an, bb)
    what = 'new' if _variant(b, stm) == 'New' else 'carried'
    pushes = [c for c in b.calls if c.is_('std::vec::Vec::push') and b.dominates(bb, c.bb) and h is not None and c.bb in an.loop[h]
              and any(o.kind == 'agg' and o.agg is stm['rv'] for o in origins(b, c.args[1]))]
    if not ctx.anchor('R6.1', f'push of the {what} Flotsam', len(pushes) == 1, b.n):
      continue
    pc = pushes[0]
    mine = [c for c in ents if b.dominates(pc.bb, c.bb) and c.bb in an.loop[h] and smallest_loop(an, c.bb) == h]
    ok = len(mine) == 1
    msg = f'{len(mine)} entry() sites after the push'
    if ok:
      ec = mine[0]
      for s in an.at_term(ec.bb):
        k = an.opval(s, ec.args[1])
        v = s.val((dk[0], dk[1] + (_f(fs.index('offset')),)))
        if k != v:
          ok = False
          msg = f'registered key {k}, floating offset {v}'
      # every way back to the loop head passes the registration and its += 1
      ok = ok and not reaches_avoiding(b, pc.bb, h, {ec.bb} | _error_exits(b))
      inc = [(bi, st_) for bi in an.loop[h] for st_ in b.blocks[bi]['s'] if st_.get('rv', {}).get('k') == 'bin' and st_['rv']['op'].startswith('Add') and b.const_of(st_['rv']['b']) == 1 and b.dominates(ec.bb, bi)
             and any(o.kind == 'call' and o.call.is_('re:btree_map::Entry.*::or_insert$') for o in deep_origins(b, st_['rv']['a'], all_args=True))]
      ok = ok and len(inc) >= 1
      if not inc:
        msg = 'no `.1 += 1` on the registered entry'
    ctx.ob('R6.1', b.n, f'{what} inscription: its floating offset is registered in inscribed_offsets (count + 1) before the loop continues', ok, msg, where(b, stm['l']))
    if what == 'new':
      # R6.2
      oi = fs.index('origin')
      og = [o for o in origins(b, stm['rv']['ops'][oi]) if o.kind == 'agg']
      okr = False
      msg = ''
      if len(og) == 1:
        ofs = og[0].agg.get('fields') or []
        ro = origins(b, og[0].agg['ops'][ofs.index('reinscription')], passthrough=()) if 'reinscription' in ofs else []
        cks = [o.call for o in ro if o.kind == 'call' and o.call.is_('re:BTreeMap.*::contains_key$')]
        if len(cks) == 1:
          ck = cks[0]
          onmap = 'inscribed_offsets' in {o.name for o in origins(b, ck.args[0], named_terminal=True)}
          same = False
          for s in state_after_stmt(an, bb, i):
            src = ck.args[1].get('c') or ck.args[1].get('m')
            tg = [tk for tk, m in s.ref.get(src['l'], ())] if src and not src.get('p') else []
            kv = s.val(tg[0]) if len(tg) == 1 else None
            fv = s.val((dk[0], dk[1] + (_f(fs.index('offset')),)))
            same = kv == fv
            msg = f'contains_key({kv}) vs floating offset {fv}'
          before = ok and len(mine) == 1 and b.dominates(ck.bb, mine[0].bb) and not b.reaches(mine[0].bb, ck.bb) or (len(mine) == 1 and b.dominates(ck.bb, mine[0].bb) and not reaches_avoiding(b, mine[0].bb, ck.bb, {h}))
          okr = onmap and same and bool(before)
      ctx.ob('R6.2', b.n, 'reinscription flag = inscribed_offsets.contains_key(&floating offset), asked before registering', okr, msg, where(b, stm['l']))
  # ---- R6.3
  ub = ctx.body('R6.3', UL)
  if ub is None:
    return
  sites = charm_sites(ub)
  re_sites = [x for x in sites if x[1] == 'Reinscription']
  if ctx.anchor('R6.3', 'Charm::Reinscription.set site', len(re_sites) == 1, ub.n):
    c, v, gs = re_sites[0]
    ctx.ob('R6.3', ub.n, 'Charm::Reinscription is set under the reinscription flag and nothing else', gs == {(CHARM_GUARD['Reinscription'], True)}, f'{sorted(gs)}', where(ub, c.line))
    # the charms local it sets is the one stored
    tgt = {o.name for o in origins(ub, c.args[1], named_terminal=True)}
    ent = [s for blk in ub.blocks for s in blk['s'] if s.get('rv', {}).get('k') == 'agg' and norm(s['rv'].get('adt') or '').endswith('InscriptionEntry')
           and 'charms' in (s['rv'].get('fields') or [])]
    stored = set()
    for s in ent:
      fs = s['rv']['fields']
      stored |= {o.name for o in origins(ub, s['rv']['ops'][fs.index('charms')], named_terminal=True)}
    ctx.ob('R6.3', ub.n, 'the word the charm is set in is the `charms` stored in the InscriptionEntry', bool(tgt) and tgt <= stored, f'{tgt} vs {stored}', where(ub, c.line))


def _variant(b, stm):
  fs = stm['rv'].get('fields') or []
  for o in origins(b, stm['rv']['ops'][fs.index('origin')]):
    if o.kind == 'agg':
      return o.agg.get('variant')
  return None


def _error_exits(b):
  """blocks that only lead to an error return (`?` residual paths)"""
  out = set()
  for c in b.calls:
    if c.is_('re:FromResidual>::from_residual$'):
      out.add(c.bb)
  return out


# sensitivity pack (thorough tier)
_IU = 'src/index/updater/inscription_updater.rs'
MUTANTS = [
  {'name': 'seeded-C06-a', 'patch': 'C06-a/patch.diff', 'expect': ('R6.1', 'index_inscriptions', 'carried inscription')},

  {'name': 'reinscription asked for the pre-pointer offset', 'file': _IU,
   'old': '        let offset = inscription\n          .payload\n          .pointer()\n          .filter(|&pointer| pointer < total_output_value)\n          .unwrap_or(offset);\n',
   'new': '        let reinscription = inscribed_offsets.contains_key(&offset);\n        let offset = inscription\n          .payload\n          .pointer()\n          .filter(|&pointer| pointer < total_output_value)\n          .unwrap_or(offset);\n',
   'expect': ('R6.2', 'index_inscriptions', '')},
  {'name': 'reinscription asked for the pre-pointer offset (use)', 'file': _IU, 'old': '            reinscription: inscribed_offsets.contains_key(&offset),', 'new': '            reinscription,', 'expect': ('R6.2', 'index_inscriptions', '')},
  {'name': 'Reinscription charm only for uncursed inscriptions', 'file': _IU, 'old': '        if reinscription {\n          Charm::Reinscription.set(&mut charms);', 'new': '        if reinscription && !cursed {\n          Charm::Reinscription.set(&mut charms);', 'expect': ('R6.3', 'update_inscription_location', 'Charm::Reinscription is set')},
]

# behaviour-preserving pack (thorough tier)
NEUTRAL = [
  {'name': 'flag bound to a local first', 'file': _IU, 'old': '        floating_inscriptions.push(Flotsam {\n          inscription_id,\n          offset,\n          origin: Origin::New {', 'new': '        let already_inscribed = inscribed_offsets.contains_key(&offset);\n        floating_inscriptions.push(Flotsam {\n          inscription_id,\n          offset,\n          origin: Origin::New {'},
  {'name': 'flag bound to a local first (use)', 'file': _IU, 'old': '            reinscription: inscribed_offsets.contains_key(&offset),', 'new': '            reinscription: already_inscribed,'},
]
