"""C35 — index storage encodings read back what was written (DESIGN §5 C35).

Decides slot agreement, not value equality: R35.1 for every `impl Entry for T` with a tuple value, tuple position i of store() is built
from exactly the field that load() fills from binding i (nested tuples, nested struct literals and the Terms closures included), and the
16-byte halves of txids are split and re-joined in the same order; R35.2 the sat-range packing constants agree between store and load
(51-bit base, delta shifted by 51 = 8·6 + 3, 11 bytes) and the shifts lose no bits; R35.3 encode_rune_balance / decode_rune_balance use
the same three slots in the same order."""
import re
from ..core import where
from .. import hirq as H
from ..intervals import Engine, fmt_desc
from ..facts import describe_operand, norm
from ..panics import Inventory

ENTRY = ' as ord::index::entry::Entry>::'
ASSUMPTIONS = ["redb stores tuples, arrays and integers faithfully; to_le_bytes / from_le_bytes / to_byte_array / from_byte_array are mutually inverse",
               "domain of the sat-range packing: range start < 2^51 and length < 2^37 (a sat range never exceeds one block subsidy, 50·10^8 < 2^33)"]
TUPLE_IMPLS = ['ord::index::entry::RuneEntry', 'ord::index::entry::InscriptionEntry', 'ordinals::RuneId', 'ord::wallet::entry::EtchingEntry']


def _pat_positions(p, prefix=''):
  """binding name -> dotted tuple position"""
  out = {}
  if not isinstance(p, dict):
    return out
  if p.get('k') == 'Bind':
    out[p['n']] = prefix.rstrip('.')
  elif p.get('k') == 'Tuple':
    for i, sp in enumerate(p.get('ps', [])):
      out.update(_pat_positions(sp, f'{prefix}{i}.'))
  return out


def _flatten_struct(e, prefix=''):
  """leaf field path -> expression, descending into nested struct literals and single-argument tuple-struct constructors"""
  out = {}
  if isinstance(e, dict) and e.get('k') == 'Struct' and 'fields' in e:
    for f in e['fields']:
      sub = _flatten_struct(f['e'], f'{prefix}{f["n"]}.')
      if sub:
        out.update(sub)
      else:
        out[f'{prefix}{f["n"]}'] = f['e']
  return out


def _flatten_tuple(e, prefix=''):
  out = {}
  if isinstance(e, dict) and e.get('k') == 'Block' and e.get('e') is not None and e['e'].get('k') == 'Tup':
    e = e['e']
  if isinstance(e, dict) and e.get('k') == 'Tup':
    for i, x in enumerate(e['es']):
      sub = _flatten_tuple(x, f'{prefix}{i}.')
      if sub:
        out.update(sub)
      else:
        out[f'{prefix}{i}'] = x
  return out


def _self_paths(e, lets, seen=()):
  """dotted field paths of `self` mentioned by an expression (through let-bound locals)"""
  out = set()
  for n in H.walk(e):
    if n.get('k') == 'Field':
      chain = []
      x = n
      while isinstance(x, dict) and x.get('k') == 'Field':
        chain.append(x['n'])
        x = x['e']
      if H.local_of(x) == 'self':
        chain.reverse()
        while chain and chain[-1].isdigit():
          chain.pop()
        if chain:
          out.add('.'.join(chain))
    elif n.get('k') == 'Path':
      l = H.local_of(n)
      if l and l != 'self' and l in lets and l not in seen:
        out |= _self_paths(lets[l], lets, seen + (l,))
  # keep only maximal paths (a.b subsumes a)
  return {p for p in out if not any(q != p and q.startswith(p + '.') for q in out)}


def _binding_positions(e, pos, lets, seen=()):
  """tuple positions (dotted, with numeric sub-field accesses) an expression reads"""
  out = set()
  for n in H.walk(e):
    if n.get('k') == 'Field' and n['n'].isdigit() and H.local_of(n.get('e')) in pos:
      out.add(pos[H.local_of(n['e'])] + '.' + n['n'])
  for n in H.walk(e):
    if n.get('k') == 'Path':
      l = H.local_of(n)
      if l in pos:
        if not any(p.startswith(pos[l] + '.') for p in out):
          out.add(pos[l])
      elif l and l in lets and l not in seen:
        out |= _binding_positions(lets[l], pos, lets, seen + (l,))
  return out


def _closure_of(e):
  return [n for n in H.walk(e) if n.get('k') == 'Closure']


def run(ctx):
  F = ctx.facts
  F.load_hir()
  ctx.rule('R35.1', 'impl Entry: tuple position i of store() mentions exactly the field that load() fills from binding i (nested tuples / struct literals / the Terms closures included); '
           'txid halves: store splits bytes [0..16) and [16..32) into the positions load re-joins in that order')
  ctx.rule('R35.2', 'sat-range packing: store shifts the delta by 51 and keeps 11 bytes; load masks the base with 2^51 − 1, reads the delta from byte 6 on and shifts it right by 3 = 51 − 8·6; no shift loses bits in the stated domain')
  ctx.rule('R35.3', 'Index::encode_rune_balance writes (id.block, id.tx, balance) as three varints and decode_rune_balance reads three varints into the same slots, advancing by the returned lengths')
  n_impl = 0
  for ty in TUPLE_IMPLS:
    hl = (F.hir.get(f'<{ty}{ENTRY}load') or [None])[0]
    hs = (F.hir.get(f'<{ty}{ENTRY}store') or [None])[0]
    if not ctx.anchor('R35.1', f'impl Entry for {ty} (load/store HIR)', hl is not None and hs is not None, ty):
      continue
    n_impl += 1
    fn = f'<{ty}{ENTRY}'
    lets_l, lets_s = H.lets(hl), H.lets(hs)
    pos = _pat_positions(hl['params'][0])
    lits = [n for n in H.walk(hl['body']) if n.get('k') == 'Struct' and 'fields' in n]
    if not ctx.anchor('R35.1', f'struct literal in {ty}::load', bool(lits) and bool(pos), fn + 'load'):
      continue
    fields = _flatten_struct(lits[0])
    tup = _flatten_tuple(hs['body'].get('e') if hs['body'].get('k') == 'Block' else hs['body'])
    if not ctx.anchor('R35.1', f'tuple expression in {ty}::store', bool(tup), fn + 'store'):
      continue
    # position -> fields (load), position -> fields (store)
    load_map = {}
    for f, e in fields.items():
      for p in _binding_positions(e, pos, lets_l):
        load_map.setdefault(p, set()).add(f)
    store_map = {p: _self_paths(e, lets_s) for p, e in tup.items()}
    # normalise: a store position 'i' whose load side is split into 'i.0','i.1' (byte halves) is compared on the union
    allpos = sorted(set(load_map) | set(store_map))
    for p in allpos:
      lf = set(load_map.get(p, set()))
      sf = set(store_map.get(p, set()))
      for q in load_map:
        if q.startswith(p + '.'):
          lf |= load_map[q]
      for q in store_map:
        if q.startswith(p + '.') :
          sf |= store_map[q]
      if p not in store_map and any(q for q in store_map if p.startswith(q + '.')):
        continue
      ctx.ob('R35.1', fn + 'store', f'slot {p}: written from {{{",".join(sorted(sf))}}} and read into the same field', lf == sf and len(sf) == 1, f'store writes self.{sorted(sf)} but load reads the slot into {sorted(lf)}', f"{hs['file']}:{hs['line']}")
    ctx.ob('R35.1', fn + 'load', 'every field of the entry is read from some slot', all(_binding_positions(e, pos, lets_l) for e in fields.values()), f'{[f for f, e in fields.items() if not _binding_positions(e, pos, lets_l)]}', f"{hl['file']}:{hl['line']}")
    # closures mapping a nested tuple <-> struct (Terms)
    for hh, side in ((hl, 'load'), (hs, 'store')):
      for c in _closure_of(hh['body']):
        ps = c.get('params') or []
        if len(ps) != 1:
          continue
        p0 = ps[0]
        if p0.get('k') == 'Tuple':
          cp = _pat_positions(p0)
          sl = [n for n in H.walk(c.get('body')) if n.get('k') == 'Struct' and 'fields' in n]
          if sl:
            m = {cp.get(H.local_of(f['e'])): f['n'] for f in sl[0]['fields']}
            ctx.extra.setdefault('closure_maps', {})[f'{ty}.{side}'] = {str(k): v for k, v in m.items()}
        elif p0.get('k') == 'Struct':
          names = {f['n']: (f['p'].get('n') if isinstance(f.get('p'), dict) else None) for f in p0.get('fs', [])}
          te = _flatten_tuple(c.get('body'))
          inv = {v: k for k, v in names.items()}
          m = {p: inv.get(H.local_of(e)) for p, e in te.items()}
          ctx.extra.setdefault('closure_maps', {})[f'{ty}.{side}'] = m
    cm = ctx.extra.get('closure_maps', {})
    if f'{ty}.load' in cm or f'{ty}.store' in cm:
      a, b = cm.get(f'{ty}.load'), cm.get(f'{ty}.store')
      ctx.ob('R35.1', fn + 'store', 'nested tuple <-> struct closure (Terms): position i holds the same field on both sides', a is not None and a == b and None not in a.values() and len(a) >= 4, f'load {a} / store {b}', f"{hs['file']}:{hs['line']}")
  ctx.floor('R35.1', 'tuple-valued Entry impls compared', n_impl, 4)

  # ---- txid halves
  def idx_array(e):
    """for an Array literal of Index(base, k) elements: (set of base locals, [k...])"""
    bases, ks = [], []
    for x in e.get('es', []):
      if x.get('k') == 'Index' and isinstance(x.get('b'), dict) and x['b'].get('k') == 'Lit':
        bases.append(H.local_of(x.get('a')))
        ks.append(x['b'].get('v'))
      else:
        return None
    return bases, ks

  rs = (F.hir.get(f'<ord::index::entry::RuneEntry{ENTRY}store') or [None])[0]
  rl = (F.hir.get(f'<ord::index::entry::RuneEntry{ENTRY}load') or [None])[0]
  if rs is not None and rl is not None:
    arrs = [idx_array(n) for n in H.walk(rs['body']) if n.get('k') == 'Array' and len(n.get('es', [])) == 16]
    arrs = [a for a in arrs if a]
    ok = len(arrs) == 2 and arrs[0][1] == list(range(16)) and arrs[1][1] == list(range(16, 32)) and set(arrs[0][0] + arrs[1][0]) == {'bytes'}
    ctx.ob('R35.1', f'<ord::index::entry::RuneEntry{ENTRY}store', 'etching: slot .0 = bytes[0..16), slot .1 = bytes[16..32) in order', ok, f'{[a[1][:2] for a in arrs]}', f"{rs['file']}:{rs['line']}")
    big = [idx_array(n) for n in H.walk(rl['body']) if n.get('k') == 'Array' and len(n.get('es', [])) == 32]
    big = [a for a in big if a]
    ll = H.lets(rl)
    okl = False
    if len(big) == 1:
      bases, ks = big[0]
      lo, hi = set(bases[:16]), set(bases[16:])
      def half(n):
        e = ll.get(n)
        return [x['n'] for x in H.walk(e) if x.get('k') == 'Field' and H.local_of(x.get('e')) == 'etching'] if e else []
      okl = ks == list(range(16)) * 2 and len(lo) == 1 and len(hi) == 1 and half(next(iter(lo))) == ['0'] and half(next(iter(hi))) == ['1']
    ctx.ob('R35.1', f'<ord::index::entry::RuneEntry{ENTRY}load', 'etching: bytes [0..16) from slot .0, bytes [16..32) from slot .1, each in order', okl, '', f"{rl['file']}:{rl['line']}")
  il = (F.hir.get(f'<ord::inscriptions::inscription_id::InscriptionId{ENTRY}load') or [None])[0]
  is_ = (F.hir.get(f'<ord::inscriptions::inscription_id::InscriptionId{ENTRY}store') or [None])[0]
  if ctx.anchor('R35.1', 'impl Entry for InscriptionId', il is not None and is_ is not None):
    ll = H.lets(il)
    tl = [n for n in H.walk(il['body']) if n.get('k') == 'LetStmt' and isinstance(n.get('pat'), dict) and n['pat'].get('k') == 'Tuple']
    names = [p.get('n') for p in tl[0]['pat']['ps']] if tl else []
    big = [idx_array(n) for n in H.walk(il['body']) if n.get('k') == 'Array' and len(n.get('es', [])) == 32]
    big = [a for a in big if a]
    okl = False
    if len(big) == 1 and len(names) == 3:
      bases, ks = big[0]
      def src(n):
        e = ll.get(n)
        return {H.local_of(x) for x in H.walk(e) if x.get('k') == 'Path' and H.local_of(x)} if e else set()
      okl = ks == list(range(16)) * 2 and len(set(bases[:16])) == 1 and len(set(bases[16:])) == 1 and src(bases[0]) == {names[0]} and src(bases[16]) == {names[1]}
      idxf = [f['e'] for n in H.walk(il['body']) if n.get('k') == 'Struct' and 'fields' in n for f in n['fields'] if f['n'] == 'index']
      okl = okl and idxf and H.local_of(idxf[0]) == names[2]
    ctx.ob('R35.1', f'<ord::inscriptions::inscription_id::InscriptionId{ENTRY}load', 'txid bytes [0..16) from slot 0, [16..32) from slot 1, index from slot 2', bool(okl), f'{names}', f"{il['file']}:{il['line']}")
    ls = H.lets(is_)
    tup = _flatten_tuple(is_['body'].get('e') if is_['body'].get('k') == 'Block' else is_['body'])
    def range_of(n):
      e = ls.get(n)
      if e is None:
        return None
      for x in H.walk(e):
        if x.get('k') == 'Index' and isinstance(x.get('b'), dict):
          b = x['b']
          if b.get('k') == 'Struct' or b.get('k') == 'Range' or 'fields' in b:
            lits = [y.get('v') for y in H.walk(b) if y.get('k') == 'Lit']
            nm = (b.get('ty') or '') + str((b.get('res') or {}))
            return ('to' if 'RangeTo' in nm else 'from' if 'RangeFrom' in nm else 'range', lits)
      return None
    r0 = range_of(H.local_of(tup.get('0'))) if tup.get('0') is not None else None
    r1 = range_of(H.local_of(tup.get('1'))) if tup.get('1') is not None else None
    oks = r0 == ('to', [16]) and r1 == ('from', [16]) and H.field_access(tup.get('2')) == ('self', 'index')
    ctx.ob('R35.1', f'<ord::inscriptions::inscription_id::InscriptionId{ENTRY}store', 'slot 0 = txid bytes [..16], slot 1 = txid bytes [16..], slot 2 = self.index', bool(oks), f'{r0} {r1}', f"{is_['file']}:{is_['line']}")

  _r35_4(ctx)
  _r35_5(ctx)
  # ---------------- R35.2
  sl = F.bodies.get('<(u64, u64)' + ENTRY + 'load')
  ss = F.bodies.get('<(u64, u64)' + ENTRY + 'store')
  if ctx.anchor('R35.2', 'impl Entry for SatRange', sl is not None and ss is not None):
    ctx.analysed(sl, ss)
    def consts_of(b, op):
      return sorted(b.const_of(s['rv']['b']) for blk in b.blocks for s in blk['s'] if s.get('rv', {}).get('k') == 'bin' and s['rv']['op'] == op and isinstance(b.const_of(s['rv']['b']), int))
    shl_s = consts_of(ss, 'Shl')
    shr_l = consts_of(sl, 'Shr')
    shl_l = consts_of(sl, 'Shl')
    ctx.ob('R35.2', ss.n, 'store shifts the delta left by 51', shl_s == [51], f'{shl_s}', where(ss, ss.line))
    ctx.ob('R35.2', sl.n, 'load masks the base with (1 << 51) − 1 — the same width store shifts by', shl_l == [51] and shl_s == [51], f'{shl_l}', where(sl, sl.line))
    ctx.ob('R35.2', sl.n, 'load shifts the delta right by 3 = 51 − 8·6 (the delta is read from byte 6 on)', shr_l == [3] and 51 - 8 * 6 == 3, f'{shr_l}', where(sl, sl.line))
    hl = (F.hir.get('<(u64, u64)' + ENTRY + 'load') or [None])[0]
    hs = (F.hir.get('<(u64, u64)' + ENTRY + 'store') or [None])[0]
    if hl is not None:
      arrs = [[H.local_of(x) or (x.get('v') if x.get('k') == 'Lit' else None) for x in n['es']] for n in H.walk(hl['body']) if n.get('k') == 'Array' and len(n.get('es', [])) == 8]
      okw = arrs == [['b0', 'b1', 'b2', 'b3', 'b4', 'b5', 'b6', 0], ['b6', 'b7', 'b8', 'b9', 'b10', 0, 0, 0]]
      ctx.ob('R35.2', sl.n, 'byte windows: base from bytes 0..=6, delta from bytes 6..=10', okw, f'{arrs}', where(sl, sl.line))
      npat = len((hl['params'][0].get('pre') or [])) if hl['params'][0].get('k') == 'Slice' else 0
      ctx.ob('R35.2', sl.n, 'the value has 11 bytes', npat == 11, f'{npat}', where(sl, sl.line), nontrivial=False)
    if hs is not None:
      lits = [y.get('v') for n in H.walk(hs['body']) if n.get('k') == 'Index' for y in H.walk(n.get('b')) if y.get('k') == 'Lit']
      ctx.ob('R35.2', ss.n, 'store keeps bytes [0..11) of the little-endian u128', lits == [0, 11], f'{lits}', where(ss, ss.line))
    # no shift loses bits (u64 delta widened to u128 before << 51; 2^51 mask literal fits u64)
    inv = Inventory(F, 16)
    for b in (ss, sl):
      sites, an = inv.sites_of(b)
      for s in sites:
        if s.kind in ('shl-lossy', 'shift', 'trunc'):
          ctx.ob('R35.2', b.n, f'{s.kind}:{s.desc}', s.ok, s.why, s.where())
    # the widening happens before the shift
    okw = any(s.get('rv', {}).get('k') == 'bin' and s['rv']['op'] == 'Shl' and s['rv'].get('ty') == 'u128' for blk in ss.blocks for s in blk['s'])
    ctx.ob('R35.2', ss.n, 'the delta is widened to u128 before the shift', okw, '', where(ss, ss.line))

  # ---------------- R35.3
  enc = ctx.body('R35.3', 'ord::index::Index::encode_rune_balance')
  dec = ctx.body('R35.3', 'ord::index::Index::decode_rune_balance')
  if enc is not None and dec is not None:
    ev = [fmt_desc(describe_operand(enc, c.args[0])) for c in sorted(enc.calls_to('ordinals::varint::encode_to_vec'), key=lambda c: c.bb)]
    want = ['num::from(id.block)', 'num::from(id.tx)', 'balance']
    ctx.ob('R35.3', enc.n, 'writes id.block, id.tx, balance in that order', [re.sub(r'^.*::from\(', 'num::from(', x) if 'from(' in x else x for x in ev] == want or ev == ['Into::into(id.block)', 'Into::into(id.tx)', 'balance'], f'{ev}', where(enc, enc.line))
    dcs = sorted(dec.calls_to('ordinals::varint::decode'), key=lambda c: c.bb)
    ctx.ob('R35.3', dec.n, 'reads three varints', len(dcs) == 3 and all(dec.dominates(a.bb, b.bb) for a, b in zip(dcs, dcs[1:])), f'{len(dcs)}', where(dec, dec.line))
    lits = [s for blk in dec.blocks for s in blk['s'] if s.get('rv', {}).get('k') == 'agg' and (s['rv'].get('adt') or '').endswith('RuneId')]
    okd = False
    if len(lits) == 1 and len(dcs) == 3:
      fo = dict(zip(lits[0]['rv']['fields'], lits[0]['rv']['ops']))
      from .common import deep_origins
      def which(op):
        for o in deep_origins(dec, op, all_args=True):
          if o.kind == 'call' and o.call in dcs:
            return dcs.index(o.call)
        return None
      okd = which(fo['block']) == 0 and which(fo['tx']) == 1
      rets = [s for blk in dec.blocks for s in blk['s'] if s.get('rv', {}).get('k') == 'agg' and s['rv'].get('ak') == 'tuple' and len(s['rv']['ops']) == 2]
      bal = [which(s['rv']['ops'][1]) for s in rets]
      okd = okd and 2 in bal
    ctx.ob('R35.3', dec.n, 'RuneId.block <- 1st varint, RuneId.tx <- 2nd, balance <- 3rd', okd, '', where(dec, dec.line))
    adds = [s for blk in dec.blocks for s in blk['s'] if s.get('rv', {}).get('k') == 'bin' and s['rv']['op'].startswith('Add')]
    ctx.ob('R35.3', dec.n, 'the offset advances by each returned length (three additions)', len(adds) == 3, f'{len(adds)}', where(dec, dec.line))


# sensitivity pack (thorough tier): each seeded edit must be reported by the named rule instance
MUTANTS = [
  {'name': 'seeded-C35-a', 'patch': 'C35-a/patch.diff', 'expect': ('R35.2', 'Entry>::load', 'masks the base')},
  {'name': 'seeded-C35-b', 'patch': 'C35-b/patch.diff', 'expect': ('R35.5', 'UtxoEntryBuf::merged', 'index_addresses = true')},
{'name': 'mints-premine-swapped-in-store', 'file': 'src/index/entry.rs', 'old': '      self.mints,\n      self.number,\n      self.premine,', 'new': '      self.premine,\n      self.number,\n      self.mints,', 'expect': ('R35.1', 'RuneEntry', 'slot 4')},
           {'name': 'txid-halves-swapped', 'file': 'src/index/entry.rs', 'old': 'let little_end = u128::from_le_bytes(txid_entry[..16].try_into().unwrap());\n    let big_end = u128::from_le_bytes(txid_entry[16..].try_into().unwrap());', 'new': 'let little_end = u128::from_le_bytes(txid_entry[16..].try_into().unwrap());\n    let big_end = u128::from_le_bytes(txid_entry[..16].try_into().unwrap());', 'expect': ('R35.1', 'InscriptionId', 'slot 0 = txid bytes')}]


# behaviour-preserving edits (thorough tier): the rules must stay silent on every one of them
NEUTRAL = [
  {'name': 'commit: satpoint literal inlined', 'file': 'src/index/updater.rs', 'old': '            let satpoint = SatPoint { outpoint, offset };\n            sequence_number_to_satpoint.insert(sequence_number, &satpoint.store())?;', 'new': '            sequence_number_to_satpoint.insert(sequence_number, &SatPoint { outpoint, offset }.store())?;'},
{'name': 'RuneId::load: bindings renamed', 'file': 'src/index/entry.rs', 'old': '  fn load((block, tx): Self::Value) -> Self {\n    Self { block, tx }\n  }', 'new': '  fn load((b, t): Self::Value) -> Self {\n    Self { block: b, tx: t }\n  }'}]


def _r35_4(ctx):
  """UTXO entry byte string: the writer (UtxoEntryBuf push_*, merged, empty) and the reader (UtxoEntry::parse, parse_inscriptions,
  total_value) agree on segment order, on the flag that enables each segment, and on the record sizes"""
  from ..panics import guard_strings
  F = ctx.facts
  U = 'ord::index::utxo_entry::'
  ctx.rule('R35.4', 'UtxoEntry::parse reads the segments sats → script → inscriptions under index_sats / index_addresses / index_inscriptions in that dominance order; every UtxoEntryBuf::push_* writes only under the matching flag; '
           'merged and empty emit the segments in the same order under the same flags; sat ranges are 11 bytes and inscription records are a 4-byte sequence number followed by a varint offset on both sides')
  p = ctx.body('R35.4', U + 'UtxoEntry::parse')
  if p is not None:
    ctx.analysed(p)
    sw = []
    for bi in sorted(p.reachable_from(0)):
      t = p.term(bi)
      if t['k'] == 'switch':
        d = fmt_desc(describe_operand(p, t['d']))
        if d in ('index.index_sats', 'index.index_addresses', 'index.index_inscriptions'):
          sw.append((bi, d))
    names = [d for _, d in sw]
    inorder = names == ['index.index_sats', 'index.index_addresses', 'index.index_inscriptions'] and all(p.dominates(a[0], b[0]) for a, b in zip(sw, sw[1:]))
    ctx.ob('R35.4', p.n, 'parse tests index_sats, then index_addresses, then index_inscriptions (segment order sats → script → inscriptions)', inorder, f'{names}', where(p, p.line))
    muls = sorted(p.const_of(s['rv']['b']) for blk in p.blocks for s in blk['s'] if s.get('rv', {}).get('k') == 'bin' and s['rv']['op'].startswith('Mul') and isinstance(p.const_of(s['rv']['b']), int))
    ctx.ob('R35.4', p.n, 'parse takes 11 bytes per sat range', muls == [11], f'{muls}', where(p, p.line))
    # the inscriptions segment is the rest of the byte string
    lits = [s for blk in p.blocks for s in blk['s'] if s.get('rv', {}).get('k') == 'agg' and (s['rv'].get('adt') or '').endswith('ParsedUtxoEntry')]
    ctx.ob('R35.4', p.n, 'one ParsedUtxoEntry literal with sats, script_pubkey, inscriptions', len(lits) == 1 and lits[0]['rv']['fields'] == ['sats', 'script_pubkey', 'inscriptions'], '', where(p, p.line), nontrivial=False)
  want_flag = {'push_value': 'index.index_sats==False', 'push_sat_ranges': 'index.index_sats==True', 'push_script_pubkey': 'index.index_addresses==True',
               'push_inscriptions': 'index.index_inscriptions==True', 'push_inscription': 'index.index_inscriptions==True'}
  for fn, flag in want_flag.items():
    b = ctx.body('R35.4', U + 'UtxoEntryBuf::' + fn)
    if b is None:
      continue
    ctx.analysed(b)
    ws = [c for c in b.calls if c.is_('re:Vec.*::extend$|Extend.*::extend$|ordinals::varint::encode_to_vec$')]
    ctx.ob('R35.4', b.n, f'{fn} appends to the buffer', len(ws) >= 1, '', where(b, b.line), nontrivial=False)
    for c in ws:
      ctx.ob('R35.4', b.n, f'{fn}: append is guarded by the assertion {flag}', flag in guard_strings(b, c.bb, forms=True), f'{guard_strings(b, c.bb)}', where(b, c.line))
  ps = F.body(U + 'UtxoEntryBuf::push_sat_ranges')
  if ps is not None:
    cs = sorted(ps.const_of(s['rv']['b']) for blk in ps.blocks for s in blk['s'] if s.get('rv', {}).get('k') == 'bin' and s['rv']['op'].replace('WithOverflow', '') in ('Div', 'Mul') and isinstance(ps.const_of(s['rv']['b']), int))
    ctx.ob('R35.4', ps.n, 'push_sat_ranges counts ranges in units of 11 bytes and rejects a ragged tail', cs == [11, 11], f'{cs}', where(ps, ps.line))
  tv = F.body(U + 'ParsedUtxoEntry::total_value')
  if tv is not None:
    ce = tv.calls_to('re:slice::<impl \\[T\\]>::chunks_exact$')
    ctx.ob('R35.4', tv.n, 'total_value walks the ranges in 11-byte chunks', len(ce) == 1 and tv.const_of(ce[0].args[1]) == 11, '', where(tv, tv.line))
  pi = F.body(U + 'UtxoEntryBuf::push_inscription')
  ri = F.body(U + 'ParsedUtxoEntry::parse_inscriptions')
  if ctx.anchor('R35.4', 'push_inscription / parse_inscriptions', pi is not None and ri is not None):
    ctx.analysed(pi, ri)
    order = [('seq' if c.is_('re:Vec.*::extend$|Extend.*::extend$') else 'varint') for c in sorted([c for c in pi.calls if c.is_('re:Vec.*::extend$|Extend.*::extend$|ordinals::varint::encode_to_vec$')], key=lambda c: c.bb)]
    seq_le = len(pi.calls_to('re:<impl u32>::to_le_bytes$')) == 1
    ctx.ob('R35.4', pi.n, 'a record is written as sequence_number.to_le_bytes() (4 bytes) then the varint offset', order == ['seq', 'varint'] and seq_le, f'{order}', where(pi, pi.line))
    adds = sorted(ri.const_of(s['rv']['b']) for blk in ri.blocks for s in blk['s'] if s.get('rv', {}).get('k') == 'bin' and s['rv']['op'].startswith('Add') and isinstance(ri.const_of(s['rv']['b']), int))
    dec = ri.calls_to('ordinals::varint::decode')
    fl = ri.calls_to('re:<impl u32>::from_le_bytes$')
    ok = len(dec) == 1 and len(fl) == 1 and 4 in adds and ri.dominates(fl[0].bb, dec[0].bb)
    ctx.ob('R35.4', ri.n, 'a record is read as 4 little-endian bytes then a varint, advancing by 4 and by the varint length', ok, f'adds {adds}', where(ri, ri.line))
  for fn, want in (('merged', ['push_sat_ranges|push_value', 'push_script_pubkey', 'push_inscriptions']), ('empty', ['push_sat_ranges|push_value', 'push_script_pubkey'])):
    b = ctx.body('R35.4', U + 'UtxoEntryBuf::' + fn)
    if b is None:
      continue
    ctx.analysed(b)
    calls = sorted([c for c in b.calls if re.search(r'UtxoEntryBuf::push_\w+$', c.name or '')], key=lambda c: c.bb)
    stage = {'push_sat_ranges': 0, 'push_value': 0, 'push_script_pubkey': 1, 'push_inscriptions': 2, 'push_inscription': 2}
    seq = [stage[(c.name or '').split('::')[-1]] for c in calls]
    okorder = all(not b.strictly_reaches(y.bb, x.bb) for x, y in zip(calls, calls[1:]) if stage[(x.name or '').split('::')[-1]] < stage[(y.name or '').split('::')[-1]]) and seq == sorted(seq) and set(seq) == set(range(len(want)))
    flags_ok = all(want_flag[(c.name or '').split('::')[-1]] in guard_strings(b, c.bb, forms=True) for c in calls)
    ctx.ob('R35.4', b.n, f'{fn} emits the segments in parse order, each under the flag parse reads it under', okorder and flags_ok, f'{[(c.name or "").split("::")[-1] for c in calls]}', where(b, b.line))
  mg = F.body(U + 'UtxoEntryBuf::merged')
  if mg is not None:
    pis = sorted(mg.calls_to(U + 'UtxoEntryBuf::push_inscriptions'), key=lambda c: c.bb)
    srcs = [fmt_desc(describe_operand(mg, c.args[1])) for c in pis]
    ctx.ob('R35.4', mg.n, 'merged keeps the inscriptions of both operands, a before b', len(srcs) == 2 and '(a,index)' in srcs[0] and '(b,index)' in srcs[1], f'{srcs}', where(mg, mg.line))
    cc = [c for c in mg.calls if c.is_('re:slice::<impl \\[.*\\]>::concat$|::concat$')]
    ok = False
    for c in cc:
      d = fmt_desc(describe_operand(mg, c.args[0]))
      ok = ok or ('sat_ranges(UtxoEntry::parse(a,index))' in d and 'sat_ranges(UtxoEntry::parse(b,index))' in d and d.index('(a,index)') < d.index('(b,index)'))
    ctx.ob('R35.4', mg.n, 'merged concatenates the sat ranges of both operands, a before b', ok, '', where(mg, mg.line))


# ------------------------------------------------------------------------------------------------ R35.5 typestate

BUF = 'ord::index::utxo_entry::UtxoEntryBuf::'
S0, S1, V, BAD = 'need-sats', 'need-script', 'valid', 'misused'


def _r35_5(ctx):
  """Typestate of every UtxoEntryBuf held in a local, on every path, for both settings of index_addresses.  The builder only checks
  this protocol at run time and only in debug builds (advance_state); a release build silently writes a misaligned entry."""
  F = ctx.facts
  ctx.rule('R35.5', 'typestate of UtxoEntryBuf locals (all bodies that create one): new() needs exactly one push_value / push_sat_ranges, then push_script_pubkey exactly when index_addresses, '
           'and only then inscriptions, as_ref / parse / deref, being returned or stored; empty() and merged() yield complete entries. Checked on every path for index_addresses on and off')
  n_bodies = 0
  n_calls = 0
  for b in F.bodies.values():
    if not b.file.startswith('src/') or '::tests::' in b.n:
      continue
    creates = [c for c in b.calls if c.name in (BUF + 'new', BUF + 'empty', BUF + 'merged')]
    if not creates:
      continue
    n_bodies += 1
    ctx.analysed(b)
    for addr in (True, False):
      issues, uses = _typestate(b, addr)
      n_calls += uses
      ctx.ob('R35.5', b.n, f'UtxoEntryBuf protocol respected on every path (index_addresses = {str(addr).lower()})', not issues, '; '.join(issues[:3]), where(b, b.line))
  ctx.floor('R35.5', 'bodies that build a UtxoEntryBuf', n_bodies, 5)
  ctx.sites(n_calls)


def _referent_local(b, op):
  """local behind `&mut L` / `&L` / a copy or move of L (single-definition temporaries only)"""
  p = op.get('c') or op.get('m')
  for _ in range(6):
    if p is None:
      return None
    if p.get('p'):
      # (*tmp) where tmp = &mut L
      if p['p'] == ['*']:
        pass
      else:
        return None
    ds = [d for d in b.defs().get(p['l'], []) if d['kind'] == 'assign' and not d['proj']]
    if b.local_name(p['l']) is not None or not ds:
      return p['l'] if not (p.get('p') and p['p'] != ['*']) else None
    if len(ds) != 1:
      return p['l']
    rv = ds[0]['rv']
    if rv['k'] == 'ref':
      p = rv['p']
    elif rv['k'] == 'use':
      p = rv['o'].get('c') or rv['o'].get('m')
    else:
      return p['l']
  return None


def _typestate(b, addresses):
  from ..facts import describe_cond
  issues = []
  uses = 0
  reach = b.reachable_from(0)
  ins = {0: {}}
  work = [0]
  seen_edges = set()
  rounds = 0
  while work and rounds < 5000:
    rounds += 1
    bb = work.pop()
    st = dict(ins.get(bb, {}))
    for s in b.blocks[bb]['s']:
      if 'p' not in s or 'rv' not in s:
        continue
      dst = s['p']
      rv = s['rv']
      if rv['k'] == 'use' and not dst.get('p'):
        src = rv['o'].get('c') or rv['o'].get('m')
        if src and not src.get('p') and src['l'] in st:
          st[dst['l']] = st[src['l']]
          if dst['l'] == 0 and st[src['l']] - {V}:
            issues.append(f'an entry in state {sorted(st[src["l"]] - {V})} is returned (line {s["l"]})')
        elif not dst.get('p') and dst['l'] in st and not (src and src.get('p')):
          st.pop(dst['l'], None)
    t = b.blocks[bb]['t']
    succ = list(b.succ(bb))
    if t['k'] == 'call':
      nm = norm(t['f'].get('res') or t['f'].get('fn') or '')
      d = t.get('d')
      if nm == BUF + 'new' and d is not None and not d.get('p'):
        st[d['l']] = frozenset({S0})
      elif nm in (BUF + 'empty', BUF + 'merged') and d is not None and not d.get('p'):
        st[d['l']] = frozenset({V})
      elif nm.startswith(BUF) and t['args']:
        meth = nm[len(BUF):]
        L = _referent_local(b, t['args'][0])
        if L is not None and L in st:
          uses += 1
          cur = st[L]
          new = set()
          for x in cur:
            if meth in ('push_value', 'push_sat_ranges'):
              if x != S0:
                issues.append(f'{meth} on an entry that is {x} (line {t["l"]})')
                new.add(BAD)
              else:
                new.add(S1 if addresses else V)
            elif meth == 'push_script_pubkey':
              if x != S1:
                issues.append(f'push_script_pubkey on an entry that is {x} (line {t["l"]})')
                new.add(BAD)
              else:
                new.add(V)
            elif meth in ('push_inscription', 'push_inscriptions', 'as_ref', 'parse', 'to_buf'):
              if x != V:
                issues.append(f'{meth} on an entry that is {x} (line {t["l"]})')
              new.add(x)
            else:
              new.add(x)
          st[L] = frozenset(new)
      elif nm.endswith('Deref>::deref') and t['args']:
        L = _referent_local(b, t['args'][0])
        if L is not None and L in st and st[L] - {V}:
          issues.append(f'deref of an entry that is {sorted(st[L] - {V})} (line {t["l"]})')
      else:
        # an entry handed to any other call by value must be complete
        for a in t['args']:
          src = a.get('m')
          if src and not src.get('p') and src['l'] in st and st[src['l']] - {V} and b.local_ty(src['l']) and 'UtxoEntryBuf' in b.local_ty(src['l']) and not b.local_ty(src['l']).startswith('&'):
            issues.append(f'an entry in state {sorted(st[src["l"]] - {V})} is passed to {nm.split("::")[-1]} (line {t["l"]})')
    if t['k'] == 'switch':
      # follow only the edge that matches the assumed index_addresses
      d = fmt_desc(describe_cond(b, t['d']))
      if d.endswith('index_addresses') and not d.startswith('discr('):
        keep = []
        for lab, tgt in b.switch_edges(bb):
          vals = [v for v, _ in t['vals']]
          truth = (lab == 'otherwise' and vals == [0]) or (lab != 'otherwise' and bool(lab))
          if truth == addresses:
            keep.append(tgt)
        succ = keep or succ
    for sx in succ:
      if sx not in reach:
        continue
      old = ins.get(sx)
      if old is None:
        ins[sx] = dict(st)
        work.append(sx)
      else:
        merged = dict(old)
        changed = False
        for k, v in st.items():
          nv = frozenset(old.get(k, frozenset()) | v) if k in old else v
          if old.get(k) != nv:
            merged[k] = nv
            changed = True
        if changed:
          ins[sx] = merged
          work.append(sx)
  import re as _re
  return sorted(set(issues), key=lambda x: int((_re.search(r'line (\d+)', x) or [0, 0])[1])), uses
