"""C02 — clause claim (DESIGN §10.9): the sat-range splitter conserves sats and the sat lookups compute
offsets as prefix sums.  Decided by affine value numbering (checks/affine.py) over the MIR of
Updater::index_transaction_sats, Index::find and Index::find_range plus origin tracing for the pieces that are
not arithmetic.  The partition invariant over histories itself is NOT decided."""
from ..core import where
from ..facts import norm, origins, guards_of
from ..affine import (Analysis, Aff, pkey, DISCR, implies_le, smallest_loop, back_edge_states, entry_edge_states,
                      head_control, agg_sites, state_after_stmt, le_forms)
from .common import deep_origins, short

ITS = 'ord::index::updater::Updater::index_transaction_sats'
IUE = 'ord::index::updater::Updater::index_utxo_entries'
FIND = 'ord::index::Index::find'
FIND_RANGE = 'ord::index::Index::find_range'
STORE_RANGE = 're:<\\(u64, u64\\) as ord::index::entry::Entry>::store$'
LOAD_RANGE = 're:<\\(u64, u64\\) as ord::index::entry::Entry>::load$'

ASSUMPTIONS = [
  "decides per-iteration conservation of the splitter (assigned ∪ pending = consumed range, remaining decreases by exactly the assigned length) and the prefix-sum "
  "shape of the lookups; that these compose to the global partition invariant over all histories is an induction the check does not perform",
  "u64 arithmetic is treated as exact (overflow freedom of these sites is C16's clause)",
]


def _sub(key, *suffix):
  return (key[0], key[1] + tuple(suffix))


def _f(i):
  return ('f', i)


def _all(states, pred):
  bad = []
  for s in states:
    r = pred(s)
    if r is not True:
      bad.append(r)
  return (not bad and bool(states)), ('; '.join(str(x) for x in bad[:2]) if bad else ('no state reaches the site' if not states else ''))


def run(ctx):
  F = ctx.facts
  ctx.rule('R2.1', 'index_transaction_sats, per iteration of the range loop (affine): the stored range A starts where the consumed range R starts; either nothing is left pending and A ends where R ends, '
           'or the pending range is exactly (A.end, R.end); remaining decreases by exactly |A| and |A| <= remaining on that path')
  ctx.rule('R2.2', 'index_transaction_sats: the ranges collected for an output are pushed to the entry of that same output (index and value come from one enumerate().next()), and the scratch vector is cleared before the next output')
  ctx.rule('R2.3', 'index_transaction_sats: the SAT_TO_SATPOINT row written for a range is keyed by R.start, located at (txid, vout of the same output) with offset = output value - remaining, and is guarded by !common')
  ctx.rule('R2.4', 'Index::find: sats of blocks not yet indexed return None before any scan; inside the scan the reported offset is (sum of earlier range lengths) + sat - start under start <= sat < end, '
           'and the running sum grows by end - start per range')
  ctx.rule('R2.5', 'Index::find_range: overlap = [max(start, range_start), min(end, range_end)) under end > range_start && start < range_end; size = overlap length; offset = running sum + overlap start - start; '
           'the running sum grows by end - start per range')
  ctx.rule('R2.6', 'index_utxo_entries: an input\'s entry is consumed by removal (utxo_cache.remove / OUTPOINT_TO_UTXO_ENTRY.remove) or freshly fetched, never by a non-removing read')
  _r2_1(ctx, F)
  _r2_4(ctx, F)
  _r2_5(ctx, F)
  _r2_6(ctx, F)
  ctx.rule('R2.7', 'index_utxo_entries: sats the coinbase does not claim are located at (null outpoint, running lost_sats), the running sum grows by end - start and starts from the stored statistic, '
           'and the new lost ranges are appended after the existing null-outpoint entry (merged(existing, new)) — the same obligations as C01 R1.5')
  from .C01 import lost_sats_for
  lost_sats_for(ctx, 'R2.7')


def _its(ctx, F):
  b = ctx.body('R2.1', ITS)
  if b is None:
    return None
  an = Analysis(b)
  ctx.ob('R2.1', b.n, 'affine analysis converged', an.converged and not an.collapsed, f'rounds={an.rounds} collapsed={sorted(an.collapsed)}', where(b, b.line), nontrivial=False)
  return b, an


def _r2_1(ctx, F):
  r = _its(ctx, F)
  if r is None:
    return
  b, an = r
  takes = [c for c in b.calls if c.is_('std::option::Option::take')]
  uos = [c for c in b.calls if c.is_('std::option::Option::unwrap_or_else') and any(o.kind == 'call' and o.call in takes for o in origins(b, c.args[0], passthrough=()))]
  if not ctx.anchor('R2.1', 'range = pending.take().unwrap_or_else(next input range)', len(uos) == 1, b.n):
    return
  uo = uos[0]
  take = [o.call for o in origins(b, uo.args[0], passthrough=()) if o.kind == 'call' and o.call in takes][0]
  R = ('call', uo.bb)
  R0, R1 = Aff.sym(('f', R, (_f(0),))), Aff.sym(('f', R, (_f(1),)))
  # pending place = target of the &mut handed to take()
  pk = None
  for s in an.at_term(take.bb):
    src = take.args[0].get('c') or take.args[0].get('m')
    tg = [tk for tk, m in s.ref.get(src['l'], ()) if m]
    if len(tg) == 1:
      pk = tg[0]
  if not ctx.anchor('R2.1', 'pending local behind take()', pk is not None, b.n):
    return
  h = smallest_loop(an, uo.bb)
  hc = head_control(an, h) if h is not None else None
  if not ctx.anchor('R2.1', 'range loop controlled by `remaining > 0`', hc is not None and hc[1] in ('Gt', 'Ne') and hc[2] == Aff.const(0), b.n):
    return
  remk = hc[0]
  rem = Aff.sym(('phi', h, remk))
  stores = [c for c in b.calls if c.is_(STORE_RANGE) and c.bb in an.loop[h]]
  if not ctx.anchor('R2.1', 'one (start, end).store() inside the range loop', len(stores) == 1, b.n):
    return
  sc = stores[0]
  ak = pkey(sc.args[0].get('c') or sc.args[0].get('m'))
  ext = [c for c in b.calls if c.is_('re:Vec.*::extend_from_slice$') and c.bb in an.loop[h] and any(o.kind == 'call' and o.call is sc for o in deep_origins(b, c.args[1]))]
  ctx.ob('R2.1', b.n, 'the stored bytes of A are what is appended to the per-output scratch vector', len(ext) == 1, f'{len(ext)} extend_from_slice(store(A)) sites', where(b, sc.line))
  bes = back_edge_states(an, h)
  ctx.sites(len(bes))
  w = where(b, sc.line)

  def vals(s):
    return s.val(_sub(ak, _f(0))), s.val(_sub(ak, _f(1)))

  def o_start(s):
    a0, _ = vals(s)
    return True if a0 == R0 else f'A.start = {a0}, R.start = {R0}'

  def o_part(s):
    a0, a1 = vals(s)
    d = s.m.get(_sub(pk, *DISCR))
    if d == Aff.sym(('variant', 'None')):
      return True if a1 == R1 else f'nothing pending but A.end = {a1} != R.end'
    if d == Aff.sym(('variant', 'Some')):
      p0 = s.val(_sub(pk, ('v', 'Some'), _f(0), _f(0)))
      p1 = s.val(_sub(pk, ('v', 'Some'), _f(0), _f(1)))
      return True if (p0 == a1 and p1 == R1) else f'pending = ({p0}, {p1}) but A.end = {a1}, R.end = {R1}'
    return f'pending state unknown at the end of the iteration ({d})'

  def o_rem(s):
    a0, a1 = vals(s)
    nv = s.val(remk)
    return True if nv == rem - (a1 - a0) else f"remaining' = {nv}, expected {rem - (a1 - a0)}"

  def o_fit(s):
    a0, a1 = vals(s)
    return True if implies_le(s.guards, a1 - a0, rem) else f'|A| = {a1 - a0} not shown <= remaining under {s.guards}'

  def o_nonempty(s):
    d = s.m.get(_sub(pk, *DISCR))
    if d != Aff.sym(('variant', 'Some')):
      return True
    p0 = s.val(_sub(pk, ('v', 'Some'), _f(0), _f(0)))
    p1 = s.val(_sub(pk, ('v', 'Some'), _f(0), _f(1)))
    return True if implies_le(s.guards, p0 + Aff.const(1), p1) else f'pending ({p0}, {p1}) not shown non-empty under {s.guards}'

  for desc, pred in (('A.start == R.start', o_start), ('a range left pending is never empty', o_nonempty), ('A ∪ pending == R (contiguous, nothing dropped or duplicated)', o_part),
                     ("remaining' == remaining - |A|", o_rem), ('|A| <= remaining on every path', o_fit)):
    ok, msg = _all(bes, pred)
    ctx.ob('R2.1', b.n, desc, ok, msg, w)

  # the range is either the pending one or the next input chunk of the one shared iterator, decoded by load
  cl = [o for o in origins(b, uo.args[1]) if o.kind == 'agg']
  cbs = [x for x in F.closures_of(b.n)] if hasattr(F, 'closures_of') else []
  nxt = None
  itk = None
  for cb in cbs:
    if any(c.is_('re:Iterator>::next$') for c in cb.calls) and any(c.is_(LOAD_RANGE) for c in cb.calls):
      nxt = cb
  ctx.ob('R2.1', b.n, 'fallback of unwrap_or_else decodes the next chunk of the input iterator (next -> load)', nxt is not None, '', where(b, uo.line))
  # leftovers: pending first, then the rest of the same iterator, into the leftover parameter
  fl = [c for c in b.calls if c.is_('std::iter::Iterator::flatten')]
  exts = [c for c in b.calls if c.is_('re:Vec.*Extend.*::extend$')]
  rest = [c for c in exts if any(o.kind == 'call' and o.call in fl for o in origins(b, c.args[1]))]
  pend = [c for c in exts if any(o.kind == 'call' and o.call.is_(STORE_RANGE) for o in deep_origins(b, c.args[1]))]
  ok = len(rest) == 1 and len(pend) == 1
  ctx.ob('R2.1', b.n, 'leftovers: pending range, then the rest of the iterator, are appended once each', ok, f'{len(pend)} pending / {len(rest)} rest appends', where(b, b.line))
  if ok:
    rc, pc = rest[0], pend[0]
    tgt = lambda c: {o.name for o in origins(b, c.args[0]) if o.kind == 'param'}
    ctx.ob('R2.1', b.n, 'both leftover appends go to the leftover_sat_ranges parameter', tgt(rc) == tgt(pc) and len(tgt(rc)) == 1, f'{tgt(pc)} / {tgt(rc)}', where(b, rc.line))
    ctx.ob('R2.1', b.n, 'pending is appended before the rest (first-in-first-out)', b.dominates(pc.bb, rc.bb) is False and b.reaches(pc.bb, rc.bb) and not b.reaches(rc.bb, pc.bb), '', where(b, pc.line))
    ctx.ob('R2.1', b.n, 'the rest is appended on every normal exit, after both loops', all(b.dominates(rc.bb, r) for r in _ok_returns(b)) and h not in b.reachable_from(rc.bb), '', where(b, rc.line))
    # the appended pending value is the pending local itself, only when it is Some
    st = an.at_term([c for c in b.calls if c.is_(STORE_RANGE) and any(o.kind == 'call' and o.call is c for o in deep_origins(b, pc.args[1]))][0].bb)
    sc2 = [c for c in b.calls if c.is_(STORE_RANGE) and any(o.kind == 'call' and o.call is c for o in deep_origins(b, pc.args[1]))][0]
    k2 = pkey(sc2.args[0].get('c') or sc2.args[0].get('m'))
    okp, msg = _all(st, lambda s: True if (s.m.get(_sub(pk, *DISCR)) == Aff.sym(('variant', 'Some')) and s.val(_sub(k2, _f(0))) == s.val(_sub(pk, ('v', 'Some'), _f(0), _f(0)))
                                           and s.val(_sub(k2, _f(1))) == s.val(_sub(pk, ('v', 'Some'), _f(0), _f(1)))) else f'appended ({s.val(_sub(k2, _f(0)))}, {s.val(_sub(k2, _f(1)))})')
    ctx.ob('R2.1', b.n, 'the appended pending range is the pending local, on the Some path only', okp, msg, where(b, pc.line))
    # the iterator flattened at the end is the one the closure pulls from
    it_l = {o.name for o in origins(b, fl[0].args[0], named_terminal=True) if o.kind == 'var'} if fl else set()
    cap = set()
    for o in cl:
      for op in o.agg.get('ops', []):
        cap |= {x.name for x in origins(b, op, named_terminal=True) if x.kind == 'var'}
    ctx.ob('R2.1', b.n, 'the flattened iterator is the one captured by the fallback closure', bool(it_l) and it_l <= cap, f'{it_l} vs {cap}', where(b, fl[0].line if fl else b.line))

  # ---- R2.2
  oh = None
  for hh, nodes in an.loop.items():
    if hh != h and h in nodes and (oh is None or len(nodes) < len(an.loop[oh])):
      oh = hh
  if not ctx.anchor('R2.2', 'output loop around the range loop', oh is not None, b.n):
    return
  pushes = [c for c in b.calls if c.is_('ord::index::utxo_entry::UtxoEntryBuf::push_sat_ranges') and c.bb in an.loop[oh]]
  if not ctx.anchor('R2.2', 'push_sat_ranges inside the output loop', len(pushes) == 1, b.n):
    return
  pc = pushes[0]
  ees = entry_edge_states(an, h)
  inits = {s.val(remk) for s in ees}
  ctx.ob('R2.2', b.n, 'remaining starts as to_sat(output.value)', len(inits) == 1 and all(v.single() and v.single()[0] == 'pure' for v in inits), f'{inits}', where(b, pc.line))
  nsyms = set()
  for v in inits:
    nsyms |= {x for x in v.syms() if isinstance(x, tuple) and x[0] == 'call'}
  # index used for the entry
  idx_ok = False
  msg = ''
  for s in an.at_term(pc.bb):
    src = pc.args[0].get('c') or pc.args[0].get('m')
    tg = [tk for tk, m in s.ref.get(src['l'], ())]
    if len(tg) == 1 and tg[0][1] and tg[0][1][-1][0] == 'i':
      iv = s.val((tg[0][1][-1][1], ()))
      isy = {x for x in iv.syms() if isinstance(x, tuple) and x[0] == 'call'}
      idx_ok = bool(isy) and isy == nsyms and _is_enum_next(b, isy)
      msg = f'index {iv} vs value {inits}'
  ctx.ob('R2.2', b.n, 'entry index and output value come from the same enumerate().next()', idx_ok, msg, where(b, pc.line))
  sv = {o.name for o in origins(b, pc.args[1], named_terminal=True) if o.kind == 'var'}
  ev = {o.name for c in ext for o in origins(b, c.args[0], named_terminal=True) if o.kind == 'var'}
  ctx.ob('R2.2', b.n, 'the pushed ranges are the scratch vector filled in the range loop', bool(sv) and sv == ev, f'{sv} vs {ev}', where(b, pc.line))
  clears = [c for c in b.calls if c.is_('re:Vec.*::clear$') and c.bb in an.loop[oh] and {o.name for o in origins(b, c.args[0], named_terminal=True) if o.kind == 'var'} == sv]
  ctx.ob('R2.2', b.n, 'the scratch vector is cleared after the push and before the next output', len(clears) == 1 and b.dominates(pc.bb, clears[0].bb) and all(b.dominates(clears[0].bb, t) for t in an.heads[oh]),
         f'{len(clears)} clear sites', where(b, pc.line))

  # ---- R2.3
  ins = [c for c in b.calls if c.is_('re:redb::Table.*::insert$') and c.bb in an.loop[h]]
  if not ctx.anchor('R2.3', 'SAT_TO_SATPOINT insert inside the range loop', len(ins) == 1, b.n):
    return
  ic = ins[0]
  okk = False
  msg = ''
  for s in an.at_term(ic.bb):
    src = ic.args[1].get('c') or ic.args[1].get('m')
    tg = [tk for tk, m in s.ref.get(src['l'], ())]
    if len(tg) == 1:
      okk = s.val(tg[0]) == R0
      msg = f'key = {s.val(tg[0])}'
  ctx.ob('R2.3', b.n, 'row key is R.start', okk, msg, where(b, ic.line))
  sps = [x for x in agg_sites(b, r'ordinals::sat_point::SatPoint$|ordinals::SatPoint$') if x[0] in an.loop[h]]
  if ctx.anchor('R2.3', 'SatPoint literal for the row', len(sps) == 1, b.n):
    bb, i, stm = sps[0]
    fields = stm['rv'].get('fields') or []
    dk = pkey(stm['p'])
    off_i = fields.index('offset') if 'offset' in fields else None
    out_i = fields.index('outpoint') if 'outpoint' in fields else None
    sts = state_after_stmt(an, bb, i)
    init = next(iter(inits)) if len(inits) == 1 else None
    ok, msg = _all(sts, lambda s: True if (off_i is not None and init is not None and s.val(_sub(dk, _f(off_i))) == init - rem) else f'offset = {s.val(_sub(dk, _f(off_i))) if off_i is not None else None}, expected {init} - {rem}')
    ctx.ob('R2.3', b.n, 'offset == output value - remaining', ok, msg, where(b, stm['l']))
    txid_p = [l for l in range(1, b.argc + 1) if b.local_name(l) == 'txid']
    ok, msg = _all(sts, lambda s: True if (out_i is not None and txid_p and s.val(_sub(dk, _f(out_i), _f(0))) == Aff.sym(('init', (txid_p[0], ())))) else f'outpoint.txid = {s.val(_sub(dk, _f(out_i), _f(0))) if out_i is not None else None}')
    ctx.ob('R2.3', b.n, 'outpoint.txid is the txid parameter', ok, msg, where(b, stm['l']))
    vo = []
    for o in (deep_origins(b, stm['rv']['ops'][out_i], all_args=True) if out_i is not None else []):
      fs = (o.agg.get('fields') or []) if o.kind == 'agg' else []
      if 'vout' in fs:
        vo += deep_origins(b, o.agg['ops'][fs.index('vout')], all_args=True)
    ctx.ob('R2.3', b.n, 'outpoint.vout derives from the same enumerate().next()', any(o.kind == 'call' and ('call', o.call.bb) in nsyms for o in vo), f'{vo[:6]}', where(b, stm['l']))
  gs = [g for g in guards_of(b, ic.bb) if g.slice().has_call('ordinals::sat::Sat::common')]
  ctx.ob('R2.3', b.n, 'the row is written under the !common guard', len(gs) == 1, f'{len(gs)} guards', where(b, ic.line))


def _is_enum_next(b, syms):
  for s in syms:
    t = b.blocks[s[1]]['t']
    nm = norm(t['f'].get('res') or t['f'].get('fn') or '')
    if 'Enumerate' in nm and nm.endswith('::next'):
      return True
  return False


def _ok_returns(b):
  from .common import success_return_blocks
  return success_return_blocks(b)


# ----------------------------------------------------------------------------------------------- lookups

def _scan_loop(ctx, rule, b, an):
  """the chunk loop of a lookup: (head, load symbol L, running-sum key)"""
  loads = [c for c in b.calls if c.is_(LOAD_RANGE)]
  if not ctx.anchor(rule, 'SatRange::load in the scan', len(loads) == 1, b.n):
    return None
  lc = loads[0]
  h = smallest_loop(an, lc.bb)
  if not ctx.anchor(rule, 'chunk loop', h is not None, b.n):
    return None
  L = ('call', lc.bb)
  return h, lc, Aff.sym(('f', L, (_f(0),))), Aff.sym(('f', L, (_f(1),)))


def _sum_key(an, h, start, end):
  """the place whose value on the back edge is phi(h, place) + end - start on some path"""
  ks = set()
  for s in back_edge_states(an, h):
    for k, v in s.m.items():
      if v == Aff.sym(('phi', h, k)) + end - start:
        ks.add(k)
  return ks


def _r2_4(ctx, F):
  b = ctx.body('R2.4', FIND)
  if b is None:
    return
  an = Analysis(b)
  ctx.ob('R2.4', b.n, 'affine analysis converged', an.converged and not an.collapsed, f'rounds={an.rounds} collapsed={sorted(an.collapsed)}', where(b, b.line), nontrivial=False)
  r = _scan_loop(ctx, 'R2.4', b, an)
  if r is None:
    return
  h, lc, start, end = r
  ks = _sum_key(an, h, start, end)
  if not ctx.anchor('R2.4', 'running offset (offset += end - start)', len(ks) == 1, b.n):
    return
  offk = next(iter(ks))
  off = Aff.sym(('phi', h, offk))
  bes = back_edge_states(an, h)
  ok, msg = _all(bes, lambda s: True if s.val(offk) == off + end - start else f"offset' = {s.val(offk)}")
  ctx.ob('R2.4', b.n, 'every non-matching range adds exactly end - start to the running offset', ok, msg, where(b, lc.line))
  ees = entry_edge_states(an, h)
  ok, msg = _all(ees, lambda s: True if s.val(offk) == Aff.const(0) else f'offset starts at {s.val(offk)}')
  ctx.ob('R2.4', b.n, 'the running offset restarts at 0 for every output', ok, msg, where(b, lc.line))
  sps = [x for x in agg_sites(b, r'ordinals::sat_point::SatPoint$|ordinals::SatPoint$') if b.dominates(lc.bb, x[0])]
  if not ctx.anchor('R2.4', 'SatPoint literal returned from the scan', len(sps) == 1, b.n):
    return
  bb, i, stm = sps[0]
  fields = stm['rv'].get('fields') or []
  dk = pkey(stm['p'])
  oi = fields.index('offset')
  sts = state_after_stmt(an, bb, i)
  sat_l = [l for l in range(1, b.argc + 1) if b.local_name(l) == 'sat']

  def o_off(s):
    v = s.val(_sub(dk, _f(oi)))
    x = v - off + start
    sx = x.single()
    if sx is None:
      return f'offset = {v}'
    if not (sat_l and sx[0] == 'init' and sx[1][0] == sat_l[0]):
      return f'offset = {v}: {x} is not the queried sat'
    if not implies_le(s.guards, start, x):
      return f'start <= sat not established: {s.guards}'
    if not implies_le(s.guards, x + Aff.const(1), end):
      return f'sat < end not established: {s.guards}'
    return True
  ok, msg = _all(sts, o_off)
  ctx.ob('R2.4', b.n, 'hit: offset == running offset + sat - start, under start <= sat < end', ok, msg, where(b, stm['l']))
  # the hit's outpoint is the key of the row whose value is scanned
  pi = fields.index('outpoint')
  oo = deep_origins(b, stm['rv']['ops'][pi], all_args=True)
  vo = deep_origins(b, lc.args[0], all_args=True)
  rows = {o.call.bb for o in oo if o.kind == 'call' and o.call.is_('re:Iterator>::next$')} & {o.call.bb for o in vo if o.kind == 'call' and o.call.is_('re:Iterator>::next$')}
  ctx.ob('R2.4', b.n, 'hit: outpoint is the key of the row being scanned', bool(rows), f'{[repr(o) for o in oo[:5]]}', where(b, stm['l']))
  _not_indexed_guard(ctx, 'R2.4', b, an, h)


def _not_indexed_guard(ctx, rule, b, an, h):
  """an early `return Ok(None)` decided by block_count vs the sat's height, before the table is opened"""
  opens = [c for c in b.calls if c.is_('re:redb::.*::open_table$')]
  if not ctx.anchor(rule, 'open_table(OUTPOINT_TO_UTXO_ENTRY)', len(opens) >= 1, b.n):
    return
  gs = [g for g in guards_of(b, opens[0].bb) if g.slice().has_call('re:::block_count$') and g.slice().has_call('ordinals::sat::Sat::height')]
  ctx.ob(rule, b.n, 'the scan is reached only when block_count covers the sat\'s block', len(gs) == 1, f'{len(gs)} guards', where(b, opens[0].line))
  if len(gs) != 1:
    return
  g = gs[0]
  bc = [c for c in b.calls if c.is_('re:::block_count$')]
  ok = False
  msg = ''
  for s in an.at_term(g.bb):
    t = b.blocks[g.bb]['t']
    src = t['d'].get('c') or t['d'].get('m')
    c = s.cmp.get(s.resolve(pkey(src))) if src else None
    if c is None:
      continue
    # which edge continues to the scan?
    for lab, tgt in b.switch_edges(g.bb):
      if tgt == opens[0].bb or b.reaches(tgt, opens[0].bb):
        dead = [t2 for l2, t2 in b.switch_edges(g.bb) if t2 != tgt]
        if any(b.reaches(d, opens[0].bb) for d in dead):
          continue
        truth = (lab == 'otherwise' and [v for v, _ in t['vals']] == [0]) or (lab != 'otherwise' and bool(lab))
        from ..affine import _NEG
        op = c[0] if truth else _NEG[c[0]]
        forms = le_forms(((op, c[1], c[2]),))
        msg = f'continue when {op}({c[1]}, {c[2]})'
        # need: height_n + 1 <= block_count, i.e. height_n - block_count + 1 <= 0 (+ const for the range form)
        for f_ in forms:
          pos = [sy for sy, k in f_.t if k == 1]
          neg = [sy for sy, k in f_.t if k == -1]
          if len(pos) == 1 and len(neg) == 1 and f_.c >= 1 and _is_call(b, neg[0], 'block_count') and _is_call(b, pos[0], 'n'):
            ok = True
  ctx.ob(rule, b.n, 'continue condition is block_count > height(sat).n()', ok, msg, where(b, g.line))


def _is_call(b, sym, last):
  while isinstance(sym, tuple) and sym[0] == 'f':
    sym = sym[1]
  if isinstance(sym, tuple) and sym[0] == 'pure':
    return sym[1].split('::')[-1] == last
  if isinstance(sym, tuple) and sym[0] == 'call':
    t = b.blocks[sym[1]]['t']
    nm = norm(t['f'].get('res') or t['f'].get('fn') or '')
    if nm.split('::')[-1] == last:
      return True
    # value unwrapped from a Result/ControlFlow produced by the call: follow the branch()
    if nm.endswith('Try>::branch') or nm.endswith('::unwrap'):
      for o in origins(b, t['args'][0]):
        if o.kind == 'call' and o.call.name and o.call.name.split('::')[-1] == last:
          return True
  return False


def _r2_5(ctx, F):
  b = ctx.body('R2.5', FIND_RANGE)
  if b is None:
    return
  an = Analysis(b)
  ctx.ob('R2.5', b.n, 'affine analysis converged', an.converged and not an.collapsed, f'rounds={an.rounds} collapsed={sorted(an.collapsed)}', where(b, b.line), nontrivial=False)
  r = _scan_loop(ctx, 'R2.5', b, an)
  if r is None:
    return
  h, lc, start, end = r
  ks = _sum_key(an, h, start, end)
  if not ctx.anchor('R2.5', 'running offset (offset += end - start)', len(ks) == 1, b.n):
    return
  offk = next(iter(ks))
  off = Aff.sym(('phi', h, offk))
  bes = back_edge_states(an, h)
  ok, msg = _all(bes, lambda s: True if s.val(offk) == off + end - start else f"offset' = {s.val(offk)}")
  ctx.ob('R2.5', b.n, 'every range that does not end the scan adds exactly end - start to the running offset', ok, msg, where(b, lc.line))
  ees = entry_edge_states(an, h)
  ok, msg = _all(ees, lambda s: True if s.val(offk) == Aff.const(0) else f'offset starts at {s.val(offk)}')
  ctx.ob('R2.5', b.n, 'the running offset restarts at 0 for every output', ok, msg, where(b, lc.line))
  fro = [x for x in agg_sites(b, r'FindRangeOutput$') if b.dominates(lc.bb, x[0])]
  if not ctx.anchor('R2.5', 'FindRangeOutput literal', len(fro) == 1, b.n):
    return
  bb, i, stm = fro[0]
  fields = stm['rv'].get('fields') or []
  dk = pkey(stm['p'])
  sts = state_after_stmt(an, bb, i)
  mx = [c for c in b.calls if c.is_('re:Ord>::max$|::max$') and c.bb in an.loop[h]]
  mn = [c for c in b.calls if c.is_('re:Ord>::min$|::min$') and c.bb in an.loop[h]]
  if not ctx.anchor('R2.5', 'overlap_start = max(..) / overlap_end = min(..)', len(mx) == 1 and len(mn) == 1, b.n):
    return
  OS, OE = Aff.sym(('call', mx[0].bb)), Aff.sym(('call', mn[0].bb))
  rs = [l for l in range(1, b.argc + 1) if b.local_name(l) == 'range_start']
  re_ = [l for l in range(1, b.argc + 1) if b.local_name(l) == 're' or b.local_name(l) == 'range_end']

  def args_of(c):
    out = set()
    for s in an.at_term(c.bb):
      out.add(frozenset(an.opval(s, a) for a in c.args))
    return out
  prs = lambda l: Aff.sym(('init', (l, (_f(0),))))
  ctx.ob('R2.5', b.n, 'overlap_start = max(start, range_start)', bool(rs) and args_of(mx[0]) == {frozenset({start, prs(rs[0])})}, f'{args_of(mx[0])}', where(b, mx[0].line))
  ctx.ob('R2.5', b.n, 'overlap_end = min(end, range_end)', bool(re_) and args_of(mn[0]) == {frozenset({end, prs(re_[0])})}, f'{args_of(mn[0])}', where(b, mn[0].line))
  fi = {n: fields.index(n) for n in ('start', 'size', 'satpoint') if n in fields}
  ok, msg = _all(sts, lambda s: True if s.val(_sub(dk, _f(fi['start']))) == OS else f"start = {s.val(_sub(dk, _f(fi['start'])))}")
  ctx.ob('R2.5', b.n, 'reported start == overlap_start', ok, msg, where(b, stm['l']))
  ok, msg = _all(sts, lambda s: True if s.val(_sub(dk, _f(fi['size']))) == OE - OS else f"size = {s.val(_sub(dk, _f(fi['size'])))}")
  ctx.ob('R2.5', b.n, 'reported size == overlap_end - overlap_start', ok, msg, where(b, stm['l']))
  sp = [x for x in agg_sites(b, r'ordinals::sat_point::SatPoint$|ordinals::SatPoint$') if b.dominates(lc.bb, x[0])]
  if ctx.anchor('R2.5', 'SatPoint literal', len(sp) == 1, b.n):
    sf = sp[0][2]['rv'].get('fields') or []
    oi = sf.index('offset')
    ok, msg = _all(sts, lambda s: True if s.val(_sub(dk, _f(fi['satpoint']), _f(oi))) == off + OS - start else f"offset = {s.val(_sub(dk, _f(fi['satpoint']), _f(oi)))}")
    ctx.ob('R2.5', b.n, 'reported offset == running offset + overlap_start - start', ok, msg, where(b, stm['l']))
    pi = sf.index('outpoint')
    oo = deep_origins(b, sp[0][2]['rv']['ops'][pi], all_args=True)
    vo = deep_origins(b, lc.args[0], all_args=True)
    rows = {o.call.bb for o in oo if o.kind == 'call' and o.call.is_('re:Iterator>::next$')} & {o.call.bb for o in vo if o.kind == 'call' and o.call.is_('re:Iterator>::next$')}
    ctx.ob('R2.5', b.n, 'outpoint is the key of the row being scanned', bool(rows), '', where(b, stm['l']))

  def o_guard(s):
    if not implies_le(s.guards, prs(rs[0]) + Aff.const(1), end):
      return f'end > range_start not established: {s.guards}'
    if not implies_le(s.guards, start + Aff.const(1), prs(re_[0])):
      return f'start < range_end not established: {s.guards}'
    return True
  ok, msg = _all(sts, o_guard) if rs and re_ else (False, 'parameters not found')
  ctx.ob('R2.5', b.n, 'an overlap is reported only under end > range_start && start < range_end', ok, msg, where(b, stm['l']))
  _not_indexed_guard_range(ctx, b, an)


def _not_indexed_guard_range(ctx, b, an):
  opens = [c for c in b.calls if c.is_('re:redb::.*::open_table$')]
  if not ctx.anchor('R2.5', 'open_table(OUTPOINT_TO_UTXO_ENTRY)', len(opens) >= 1, b.n):
    return
  gs = [g for g in guards_of(b, opens[0].bb) if g.slice().has_call('re:::block_count$') and g.slice().has_call('ordinals::sat::Sat::height')]
  ctx.ob('R2.5', b.n, 'the scan is reached only when block_count covers the last sat\'s block', len(gs) == 1, f'{len(gs)} guards', where(b, opens[0].line))


# ----------------------------------------------------------------------------------------------- consumption

def _r2_6(ctx, F):
  b = ctx.body('R2.6', IUE)
  if b is None:
    return
  cbs = [cb for cb in F.closures_of(b.n) if any(c.is_('re:HashMap.*::remove$') for c in cb.calls)]
  if not ctx.anchor('R2.6', 'input-entry closure (utxo_cache.remove)', len(cbs) == 1, b.n):
    return
  cb = cbs[0]
  ctx.analysed(cb)
  rets = []
  for bb in cb.reachable_from(0):
    for s in cb.blocks[bb]['s']:
      rv = s.get('rv')
      if rv and rv['k'] == 'agg' and rv.get('variant') == 'Ok' and s['p']['l'] == 0:
        rets.append((bb, s))
  if not ctx.anchor('R2.6', 'Ok(entry) of the closure', len(rets) >= 1, cb.n):
    return
  srcs = []
  for bb, s in rets:
    srcs += deep_origins(cb, s['rv']['ops'][0], all_args=True)
  calls = {o.call.name for o in srcs if o.kind == 'call'}
  ctx.sites(len(srcs))
  reads = [n for n in calls if n and (n.endswith('::get') or n.endswith('::get_mut') or n.endswith('::range') or n.endswith('::iter'))]
  rem_cache = any(n and 'HashMap' in n and n.endswith('::remove') for n in calls)
  rem_table = any(n and n.startswith('redb::Table') and n.endswith('::remove') for n in calls)
  ctx.ob('R2.6', cb.n, 'the entry comes from utxo_cache.remove(..)', rem_cache, f'{sorted(short(x) for x in calls if x)}', where(cb, cb.line))
  ctx.ob('R2.6', cb.n, 'or from OUTPOINT_TO_UTXO_ENTRY.remove(..)', rem_table, f'{sorted(short(x) for x in calls if x)}', where(cb, cb.line))
  ctx.ob('R2.6', cb.n, 'never from a non-removing read (get / range / iter)', not reads, f'{reads}', where(cb, cb.line))


# sensitivity pack (thorough tier)
_U = 'src/index/updater.rs'
_I = 'src/index.rs'
MUTANTS = [
  {'name': 'seeded-C02-a', 'patch': 'C02-a/patch.diff', 'expect': ('R2.7', 'index_utxo_entries', 'merged(existing, new)')},
  {'name': 'seeded-C02-b', 'patch': 'C02-b/patch.diff', 'expect': ('R2.5', 'Index::find_range', 'adds exactly end - start')},

  {'name': 'pending range starts one sat late (a sat is lost at every split)', 'file': _U, 'old': 'pending_input_sat_range = Some((middle, range.1));', 'new': 'pending_input_sat_range = Some((middle + 1, range.1));', 'expect': ('R2.1', 'index_transaction_sats', 'pending == R')},
  {'name': 'split assigns the whole range and keeps the tail pending (sats duplicated)', 'file': _U, 'old': '          (range.0, middle)\n', 'new': '          (range.0, range.1)\n', 'expect': ('R2.1', 'index_transaction_sats', 'pending == R')},
  {'name': 'remaining decremented by the consumed range, not the assigned one', 'file': _U, 'old': 'remaining -= assigned.1 - assigned.0;', 'new': 'remaining = remaining.saturating_sub(count);', 'expect': ('R2.1', 'index_transaction_sats', '')},
  {'name': 'split also when the range fits exactly (empty range left pending)', 'file': _U, 'old': 'let assigned = if count > remaining {', 'new': 'let assigned = if count >= remaining {', 'expect': ('R2.1', 'index_transaction_sats', 'never empty')},
  {'name': 'pending leftover not handed on', 'file': _U, 'old': '    if let Some(range) = pending_input_sat_range {\n      leftover_sat_ranges.extend(&range.store());\n    }\n', 'new': '', 'expect': ('R2.1', 'index_transaction_sats', 'leftovers')},
  {'name': 'rare-sat row offset measured from the wrong end', 'file': _U, 'old': 'offset: output.value.to_sat() - remaining,', 'new': 'offset: remaining,', 'expect': ('R2.3', 'index_transaction_sats', 'offset')},
  {'name': 'find: offset off by one', 'file': _I, 'old': 'offset: offset + sat - start,', 'new': 'offset: offset + sat - start + 1,', 'expect': ('R2.4', 'Index::find', 'hit: offset')},
  {'name': 'find: range end treated as inclusive', 'file': _I, 'old': 'if start <= sat && sat < end {', 'new': 'if start <= sat && sat <= end {', 'expect': ('R2.4', 'Index::find', 'hit: offset')},
  {'name': 'find: sats of the next block are scanned for', 'file': _I, 'old': 'if rtx.block_count()? <= Sat(sat).height().n() {', 'new': 'if rtx.block_count()? < Sat(sat).height().n() {', 'expect': ('R2.4', 'Index::find', 'block_count')},
  {'name': 'find_range: size runs to the end of the stored range', 'file': _I, 'old': 'size: overlap_end - overlap_start,', 'new': 'size: end - overlap_start,', 'expect': ('R2.5', 'Index::find_range', 'size')},
  {'name': 'find_range: offset ignores earlier ranges of the output', 'file': _I, 'old': 'offset: offset + overlap_start - start,', 'new': 'offset: overlap_start - start,', 'expect': ('R2.5', 'Index::find_range', 'offset')},
  {'name': 'spent cache entries are read, not removed', 'file': _U, 'old': 'let entry = if let Some(entry) = utxo_cache.remove(&OutPoint::load(outpoint)) {', 'new': 'let entry = if let Some(entry) = utxo_cache.get(&OutPoint::load(outpoint)).map(|entry| entry.to_buf()) {', 'expect': ('R2.6', 'index_utxo_entries', '')},
]

# behaviour-preserving pack (thorough tier)
NEUTRAL = [
  {'name': 'middle computed from the far end', 'file': _U, 'old': 'let middle = range.0 + remaining;', 'new': 'let middle = range.1 - (count - remaining);'},
  {'name': 'remaining update spelled out', 'file': _U, 'old': 'remaining -= assigned.1 - assigned.0;', 'new': 'remaining = remaining - (assigned.1 - assigned.0);'},
  {'name': 'split test commuted', 'file': _U, 'old': 'let assigned = if count > remaining {', 'new': 'let assigned = if remaining < count {'},
  {'name': 'find: hit test commuted', 'file': _I, 'old': 'if start <= sat && sat < end {', 'new': 'if sat >= start && end > sat {'},
  {'name': 'find: running sum spelled out', 'file': _I, 'old': '        offset += end - start;\n      }\n    }\n\n    Ok(None)', 'new': '        offset = offset + (end - start);\n      }\n    }\n\n    Ok(None)'},
]
