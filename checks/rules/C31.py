"""C31 — text parsers are total and never accept by overflow (DESIGN §5 C31).

Decides: in the call-graph closure of every FromStr implementation the property lists, every panic-capable or wrap-capable
construct on a value derived from the input (integer arithmetic, shifts, division, indexing/slicing, truncating `as` casts,
float→int casts, unwrap/expect and other panicking std APIs, explicit panics) is proved in range by the interval engine
(NaN-aware for floats), matches a structural idiom, or is listed in the reviewed table with its reason and the guards it relies on.
Not decided: that an accepted string denotes the returned value beyond the absence of overflow / non-finite acceptance."""
from ..panics import run_inventory
from ..tables.sites_C31 import TABLE

ASSUMPTIONS = [
    "external parsers called by these functions (u32/u64/u128/f64::from_str, Txid/OutPoint/Address::from_str, regex) are total: they return Result and do not panic",
    "derived and hand-written PartialOrd/PartialEq on the one-field newtypes (Sat, Height, Epoch, Rune) compare the wrapped integer in the natural order",
    "usize is 64 bits wide (the only supported targets); lengths of strings, slices and vectors are at most isize::MAX",
]

ENTRIES = [
    're:^<ordinals::(sat::Sat|rune::Rune|spaced_rune::SpacedRune|rune_id::RuneId|sat_point::SatPoint) as std::str::FromStr>::from_str$',
    're:^<ord::(decimal::Decimal|outgoing::Outgoing|inscriptions::inscription_id::InscriptionId|object::Object|representation::Representation|chain::Chain|subcommand::server::query::(Block|Inscription|Rune)) as std::str::FromStr>::from_str$',
]
REQUIRED_ENTRIES = [
    '<ordinals::sat::Sat as std::str::FromStr>::from_str', '<ordinals::rune::Rune as std::str::FromStr>::from_str',
    '<ordinals::spaced_rune::SpacedRune as std::str::FromStr>::from_str', '<ordinals::rune_id::RuneId as std::str::FromStr>::from_str',
    '<ordinals::sat_point::SatPoint as std::str::FromStr>::from_str', '<ord::decimal::Decimal as std::str::FromStr>::from_str',
    '<ord::outgoing::Outgoing as std::str::FromStr>::from_str', '<ord::inscriptions::inscription_id::InscriptionId as std::str::FromStr>::from_str',
    '<ord::object::Object as std::str::FromStr>::from_str', '<ord::representation::Representation as std::str::FromStr>::from_str',
    '<ord::chain::Chain as std::str::FromStr>::from_str', '<ord::subcommand::server::query::Block as std::str::FromStr>::from_str',
    '<ord::subcommand::server::query::Inscription as std::str::FromStr>::from_str', '<ord::subcommand::server::query::Rune as std::str::FromStr>::from_str',
    'ordinals::sat::Sat::from_name', 'ordinals::sat::Sat::from_degree', 'ordinals::sat::Sat::from_decimal', 'ordinals::sat::Sat::from_percentile',
]


def run(ctx):
  ctx.rule('R31.1', 'panic/wrap-site inventory over the closure of the 14 FromStr implementations: every arithmetic, shift, division, index, truncating cast, '
           'float→int cast (NaN-aware), panicking std API use and explicit panic is discharged by range analysis, an idiom, or a reviewed entry whose required guards still dominate the site')
  for e in REQUIRED_ENTRIES:
    ctx.body('R31.1', e)
  out, pred = run_inventory(ctx, 'R31.1', ENTRIES, TABLE, partition=(16 if ctx.tier == 'thorough' else 1), floor_fns=40, floor_sites=20, label='the text parsers')
  names = {ctx.facts.bodies[p].n for p in pred}
  for e in REQUIRED_ENTRIES:
    ctx.ob('R31.1', e, 'parser body is inside the analysed closure', e in names, 'not reached from the entry points', nontrivial=False)


# sensitivity pack (thorough tier): each seeded edit must be reported by the named rule instance
MUTANTS = [{'name': 'seeded-C31-a', 'patch': 'C31-a/patch.diff', 'expect': ('R31.1', 'Sat::from_percentile', 'fcast')},
           {'name': 'seeded-C31-b', 'patch': 'C31-b/patch.diff', 'expect': ('R31.1', 'Decimal as std::str::FromStr>::from_str', 'arith:Add')},
           {'name': 'degree-mul-unchecked-again', 'file': 'crates/ordinals/src/sat.rs', 'old': '    let cycle_start_epoch = cycle_number\n      .checked_mul(CYCLE_EPOCHS)\n      .ok_or_else(|| ErrorKind::IntegerRange.error(degree))?;', 'new': '    let cycle_start_epoch = cycle_number * CYCLE_EPOCHS;', 'expect': ('R31.1', 'from_degree', 'arith:Mul(')},
           {'name': 'nan-guard-dropped', 'file': 'crates/ordinals/src/sat.rs', 'old': 'if !percentile.is_finite() || percentile < 0.0 {', 'new': 'if percentile < 0.0 {', 'expect': ('R31.1', 'from_percentile', 'fcast:')},
           {'name': 'inscription-id-length-guard-dropped', 'file': 'src/inscriptions/inscription_id.rs', 'old': '    if s.len() < MIN_LEN {\n      return Err(ParseError::Length(s.len()));\n    }\n', 'new': '', 'expect': ('R31.1', 'InscriptionId as std::str::FromStr', 'index-call:index(s,RangeTo')}]


# behaviour-preserving edits (thorough tier): the rules must stay silent on every one of them
NEUTRAL = [{'name': 'from_percentile: finiteness test spelled out', 'file': 'crates/ordinals/src/sat.rs', 'old': 'if !percentile.is_finite() || percentile < 0.0 {', 'new': 'if percentile.is_nan() || percentile.is_infinite() || percentile < 0.0 {'},
           {'name': 'InscriptionId::from_str: length guard flipped', 'file': 'src/inscriptions/inscription_id.rs', 'old': '    if s.len() < MIN_LEN {', 'new': '    if MIN_LEN > s.len() {'}]
