"""C18 — explorer JSON and recursive endpoints agree with the index (DESIGN §5 C18).

Decides two structural clauses, not the value equality of responses:
 R18.1 special-outpoint discipline: a location read from the index may be the unbound or the lost (null) pseudo-outpoint, neither of which
       has a transaction; every explorer code path that looks up the transaction of a stored location excludes BOTH first
       (contradiction rule: Index::inscription_info checks both; a sibling that checks one is wrong).
 R18.2 sibling agreement: the JSON structs built for the same inscription by different handlers take fee, height, number, sat,
       timestamp from the same entry fields, and satpoint / output from the one stored satpoint."""
import re
from ..core import where
from ..facts import describe_operand, norm
from ..intervals import fmt_desc
from ..panics import guard_strings, closure

GT = 'ord::index::Index::get_transaction'
ASSUMPTIONS = ["charms are deliberately excluded from R18.2: inscription_info adds the Lost charm from the location while the recursive endpoints report the stored charms, and the property does not say which is 'the stored state'",
               "Index::export has the same one-sided test but is not an explorer endpoint (reported as information)"]
API = {'ord::api::Inscription', 'ord::api::InscriptionRecursive', 'ord::api::RelativeInscriptionRecursive'}
FIELD_SRC = {'fee': r'\.fee$', 'height': r'\.height$', 'number': r'\.inscription_number$', 'sat': r'\.sat$', 'timestamp': r'\.timestamp\)+$'}


def run(ctx):
  F = ctx.facts

  ctx.rule('R18.3', 'pagination (sibling rule over every body that takes page_size + 1 rows): `more` is decided by a strict `rows > page_size`, and exactly then the extra row is popped — '
           'a page that holds exactly page_size rows is the last one')
  _r18_3(ctx)
  ctx.rule('R18.1', 'every Index::get_transaction(x.outpoint.txid) for a stored location x, in the explorer handlers and the Index methods they call, is dominated by guards excluding both the unbound and the null outpoint '
           '(Index::is_special_outpoint(x.outpoint) == false, or both comparisons)')
  ctx.rule('R18.2', 'api::Inscription, api::InscriptionRecursive and api::RelativeInscriptionRecursive literals take fee, height, number, sat, timestamp from the entry field of that name, satpoint from the stored satpoint and output from that same satpoint\'s outpoint')
  roots = [b.n for b in F.bodies.values() if b.n.startswith('ord::subcommand::server')]
  pred, _ = closure(F, ['re:^ord::subcommand::server'])
  n = 0
  for p in sorted(pred):
    b = F.bodies[p]
    for c in b.calls_to(GT):
      d = fmt_desc(describe_operand(b, c.args[1]))
      if not d.endswith('.outpoint.txid'):
        continue  # a txid taken from the request or an inscription id: that transaction exists
      n += 1
      ctx.analysed(b)
      base = d[:-len('.txid')]
      gs = guard_strings(b, c.bb, forms=True)
      special = any(g.startswith('Index::is_special_outpoint(') and g.endswith('==False') for g in gs)
      unb = any(re.match(r'^Eq\(.*outpoint,ord::unbound_outpoint\(\)\)==False$', g) for g in gs)
      nul = any(re.match(r'^Eq\(.*outpoint,OutPoint::null\(\)\)==False$', g) for g in gs)
      ok = special or (unb and nul)
      why = ''
      if not ok:
        why = ('only the unbound pseudo-outpoint is excluded: a lost inscription / sat sits at the null outpoint, which has no transaction either' if unb else
               'only the null outpoint is excluded' if nul else 'neither pseudo-outpoint is excluded') + ' before its transaction is looked up'
      ctx.ob('R18.1', b.n, 'get_transaction(<stored location>.outpoint.txid) excludes unbound and lost', ok, why, where(b, c.line))
  ctx.floor('R18.1', 'transaction lookups of stored locations in the explorer', n, 3)
  ex = F.body('ord::index::Index::export')
  if ex is not None:
    for c in ex.calls_to(GT):
      gs = guard_strings(ex, c.bb)
      if not any('null()' in g for g in gs):
        ctx.informational('Index::export (not an explorer endpoint) looks up the transaction of a stored satpoint after excluding only the unbound outpoint')
  sp = ctx.body('R18.1', 'ord::index::Index::is_special_outpoint')
  if sp is not None:
    eqs = [c for c in sp.calls if (c.name or '').endswith('PartialEq>::eq')]
    rhs = sorted(fmt_desc(describe_operand(sp, c.args[1])) for c in eqs)
    lhs = {fmt_desc(describe_operand(sp, c.args[0])) for c in eqs}
    # `a || b`: the first comparison being true returns true, otherwise the second comparison is the result
    trues = [bi for bi, blk in enumerate(sp.blocks) for st in blk['s'] if st.get('p', {}).get('l') == 0 and sp.const_of(st['rv'].get('o')) is True and bi in sp.reachable_from(0)]
    falses = [bi for bi, blk in enumerate(sp.blocks) for st in blk['s'] if st.get('p', {}).get('l') == 0 and st['rv'].get('k') == 'use' and sp.const_of(st['rv'].get('o')) is False and bi in sp.reachable_from(0)]
    ctx.ob('R18.1', sp.n, 'is_special_outpoint = (outpoint == null) || (outpoint == unbound)', rhs == ['OutPoint::null()', 'ord::unbound_outpoint()'] and lhs == {'outpoint'} and len(trues) == 1 and not falses, f'{rhs} {lhs}', where(sp, sp.line))

  # ---------------- R18.2
  lits = []
  for b in F.bodies.values():
    if '_serde' in b.n or ' as std::clone::Clone>' in b.n or ' as std::default::Default>' in b.n:
      continue
    for blk in b.blocks:
      for s in blk['s']:
        rv = s.get('rv', {})
        if rv.get('k') == 'agg' and rv.get('ak') == 'adt' and norm(rv['adt']) in API:
          lits.append((b, s))
  ctx.floor('R18.2', 'API inscription literals', len(lits), 3)
  for b, s in lits:
    ctx.analysed(b)
    fo = dict(zip(s['rv']['fields'], s['rv']['ops']))
    ty = norm(s['rv']['adt']).split('::')[-1]
    for f, rx in FIELD_SRC.items():
      if f not in fo:
        continue
      d = fmt_desc(describe_operand(b, fo[f]))
      ctx.ob('R18.2', b.n, f'{ty}.{f} <- entry.{"inscription_number" if f == "number" else f}', bool(re.search(rx, d)) and ('Entry::load(' in d or 'get_inscription_entry' in d or 'ok_or_not_found' in d), d[-120:], where(b, s['l']))
    if 'satpoint' in fo:
      sd = fmt_desc(describe_operand(b, fo['satpoint']))
      ctx.ob('R18.2', b.n, f'{ty}.satpoint <- the stored satpoint', 'get_inscription_satpoint_by_id' in sd or sd.startswith('Entry::load(AccessGuard::value('), sd[-120:], where(b, s['l']))
      if 'output' in fo:
        od = fmt_desc(describe_operand(b, fo['output']))
        ctx.ob('R18.2', b.n, f'{ty}.output <- that same satpoint\'s outpoint', od == sd + '.outpoint', od[-120:], where(b, s['l']))


# sensitivity pack (thorough tier): each seeded edit must be reported by the named rule instance
MUTANTS = [
  {'name': 'seeded-C18-a', 'patch': 'C18-a/patch.diff', 'expect': ('R18.3', 'inscriptions_in_block_paginated', 'strict')},
{'name': 'sat-handler-checks-unbound-only', 'file': 'src/subcommand/server.rs', 'old': '        if Index::is_special_outpoint(satpoint.outpoint) {\n          None\n        } else {\n          let tx = index', 'new': '        if satpoint.outpoint == unbound_outpoint() {\n          None\n        } else {\n          let tx = index', 'expect': ('R18.1', 'Server::sat', 'excludes unbound and lost')}]


# behaviour-preserving edits (thorough tier): the rules must stay silent on every one of them
NEUTRAL = [{'name': 'sat handler: both pseudo-outpoints compared explicitly', 'file': 'src/subcommand/server.rs', 'old': '        if Index::is_special_outpoint(satpoint.outpoint) {\n          None\n        } else {\n          let tx = index', 'new': '        if satpoint.outpoint == unbound_outpoint() || satpoint.outpoint == OutPoint::null() {\n          None\n        } else {\n          let tx = index'}]


def _r18_3(ctx):
  import re as _re
  from ..panics import guard_strings
  F = ctx.facts
  n = 0
  for b in F.bodies.values():
    if not (b.file in ('src/index.rs', 'src/subcommand/server.rs')) or '::tests::' in b.n:
      continue
    takes = [c for c in b.calls if c.is_('std::iter::Iterator::take')]
    plus1 = [c for c in takes if any(o.kind == 'call' and o.call.is_('re:::saturating_add$') and b.const_of(o.call.args[1]) == 1 for o in deep_origins_(b, c.args[1]))]
    pops = [c for c in b.calls if c.is_('re:Vec.*::pop$')]
    if not plus1 or not pops:
      continue
    ctx.analysed(b)
    for pc in pops:
      n += 1
      gs = guard_strings(b, pc.bb, forms=True)
      strict = [g for g in gs if _re.match(r'^Gt\(.*len\(.*\).*\)==True$', g) or _re.match(r'^Gt\(.*(len|try_from).*,.*\)==True$', g)]
      loose = [g for g in gs if _re.match(r'^Ge\(.*len\(.*\).*\)==True$', g) and not any(g.replace('Ge(', 'Gt(') == x for x in gs)]
      ctx.ob('R18.3', b.n, 'the extra row is popped exactly when rows > page_size (strict)', bool(strict) and not _only_loose(gs), f'{[g[:90] for g in gs][-3:]}', where(b, pc.line))
  ctx.floor('R18.3', 'paginated bodies (take(page_size + 1) … pop)', n, 6)


def deep_origins_(b, op):
  from .common import deep_origins
  return deep_origins(b, op, all_args=True)


def _only_loose(gs):
  """the deciding comparison is >= rather than > : no Gt form of a length test is among the equivalent spellings"""
  import re as _re
  has_len = [g for g in gs if 'len(' in g and g.endswith('==True')]
  return bool(has_len) and not any(g.startswith('Gt(') and 'len(' in g.split(',')[0] or (g.startswith('Lt(') and 'len(' in g.split(',', 1)[-1]) for g in has_len)
