"""C04 — inscriptions are never duplicated or dropped: the pseudo-outputs that are written more than once are merged,
never overwritten, a merge keeps both operands, every envelope becomes a flotsam and every flotsam is re-attached (DESIGN §5 C04)."""
from ..core import where
from ..facts import norm, origins, guards_of
from ..tables_id import TableId
from ..effects import always_with, error_blocks
from .common import reaches_avoiding, success_return_blocks, short, result_is_checked

COMMIT = 'ord::index::updater::Updater::commit'
IUE = 'ord::index::updater::Updater::index_utxo_entries'
II = 'ord::index::updater::inscription_updater::InscriptionUpdater::index_inscriptions'
UIL = 'ord::index::updater::inscription_updater::InscriptionUpdater::update_inscription_location'
MERGED = 'ord::index::utxo_entry::UtxoEntryBuf::merged'
EMPTY = 'ord::index::utxo_entry::UtxoEntryBuf::empty'
CACHE_TY = 'std::collections::HashMap<bitcoin::OutPoint, ord::index::utxo_entry::UtxoEntryBuf>'

ASSUMPTIONS = ["counts, offsets below the output value and the per-height audit are value statements and are not decided"]


def run(ctx):
  _r4_6(ctx)
  F = ctx.facts
  T = TableId(F)
  ctx.rule('R4.1', 'the only body that inserts into OUTPOINT_TO_UTXO_ENTRY is Updater::commit; the only body that removes from it is the input closure of Updater::index_utxo_entries')
  ctx.rule('R4.2', 'in Updater::commit, on the path where the outpoint is special and a stored entry exists, the inserted value passes through UtxoEntryBuf::merged(stored, new); '
           'the insert key is the loop element\'s outpoint')
  ctx.rule('R4.3', 'the utxo cache is mutated only by insert(OutPoint{txid,vout} of the current tx), remove(input outpoint) and entry(special).or_insert(UtxoEntryBuf::empty) followed by an append')
  ctx.rule('R4.4', 'UtxoEntryBuf::merged pushes the inscriptions (and sat ranges) of both operands into the result')
  ctx.rule('R4.5', 'in index_inscriptions the envelope iterator is advanced only together with pushing a Flotsam{origin: New}; all flotsam are consumed '
           '(update_inscription_location per located one, coinbase leftovers to the lost outpoint, others carried in self.flotsam); update_inscription_location always ends in push_inscription')

  writes = T.writes()
  # ---------------- R4.1
  ins = [(c, k) for c, k, t in writes if 'OUTPOINT_TO_UTXO_ENTRY' in t]
  ctx.floor('R4.1', 'OUTPOINT_TO_UTXO_ENTRY write sites', len(ins), 2)
  for c, k in ins:
    owner = c.body.n
    if k == 'insert':
      ctx.ob('R4.1', owner, 'OUTPOINT_TO_UTXO_ENTRY.insert owner', owner == COMMIT, 'UTXO table written outside Updater::commit (could overwrite a special outpoint without merging)', where(c.body, c.line))
    else:
      ctx.ob('R4.1', owner, 'OUTPOINT_TO_UTXO_ENTRY.remove owner', owner.startswith(IUE + '::{closure'), 'UTXO entries removed outside the input loop of index_utxo_entries', where(c.body, c.line))
  # unknown-table writes would escape the ownership rule
  unk = [c for c, k, t in writes if not t]
  ctx.ob('R4.1', '', 'every table write site has a resolved table identity', not unk, f'unresolved: {unk}', None)

  # ---------------- R4.2
  cm = ctx.body('R4.2', COMMIT)
  if cm is not None:
    cins = [c for c, k, t in T.writes([cm]) if 'OUTPOINT_TO_UTXO_ENTRY' in t and k == 'insert']
    ms = cm.calls_to(MERGED)
    sp = cm.calls_to('ord::index::Index::is_special_outpoint')
    ctx.anchor('R4.2', 'insert / merged / is_special_outpoint in commit', len(cins) == 1 and len(ms) == 1 and len(sp) == 1, cm.n)
    if len(cins) == 1 and len(ms) == 1 and len(sp) == 1:
      ci, m, s = cins[0], ms[0], sp[0]
      nxt = [c for c in cm.calls if c.is_('re:hash_map::IntoIter as std::iter::Iterator>::next$')]
      ctx.anchor('R4.2', 'cache iteration in commit', len(nxt) == 1, cm.n)
      # is_special_outpoint(outpoint of loop element)
      so = cm.slice_of([s.args[0]], through_calls=False)
      ctx.ob('R4.2', cm.n, 'is_special_outpoint(arg<-loop element)', bool(nxt) and nxt[0] in so.calls, 'the special test is not about the entry being written', where(cm, s.line))
      # switch on its result: true edge
      sw = s.target
      t = cm.term(sw)
      true_t = None
      if t['k'] == 'switch':
        for lab, tgt in cm.switch_edges(sw):
          if lab == 'otherwise' or lab == 1:
            true_t = tgt
      ctx.anchor('R4.2', 'branch on is_special_outpoint', true_t is not None, cm.n)
      gets = [c for c in cm.calls if c.is_('re:ReadableTable>::get$') and true_t is not None and cm.reaches(true_t, c.bb) and 'OUTPOINT_TO_UTXO_ENTRY' in T.of_operand(cm, c.args[0])]
      ctx.anchor('R4.2', 'lookup of the stored special entry', len(gets) == 1, cm.n)
      if true_t is not None and len(gets) == 1:
        g = gets[0]
        # Some edge of the Option discriminant derived from the get
        some_t = None
        for bi in cm.reachable_from(g.bb):
          tt = cm.term(bi)
          if tt['k'] == 'switch' and cm.dominates(g.bb, bi) and cm.dominates(bi, m.bb):
            sl = cm.slice_of([tt['d']])
            if g in sl.calls:
              for lab, tgt in cm.switch_edges(bi):
                if cm.reaches(tgt, m.bb) and cm.dominates(tgt, m.bb):
                  some_t = tgt
        ctx.anchor('R4.2', 'Some-edge of the stored-entry lookup', some_t is not None, cm.n)
        if some_t is not None:
          ctx.ob('R4.2', cm.n, 'special ∧ stored ⇒ insert passes through merged', not reaches_avoiding(cm, some_t, ci.bb, {m.bb} | error_blocks(cm)),
                 'a stored special-outpoint entry can be overwritten without merging', where(cm, ci.line))
        a0 = cm.slice_of([m.args[0]], through_calls=True)
        a1 = cm.slice_of([m.args[1]], through_calls=False)
        ctx.ob('R4.2', cm.n, 'merged(arg0<-stored entry)', g in a0.calls, 'merge does not take the stored entry', where(cm, m.line))
        ctx.ob('R4.2', cm.n, 'merged(arg1<-cache entry)', bool(nxt) and any(o.kind == 'call' and o.call is nxt[0] for o in origins(cm, m.args[1])),
               'merge does not take the new cache entry', where(cm, m.line))
      vs = cm.slice_of([ci.args[2]])
      ctx.ob('R4.2', cm.n, 'inserted value<-merged result or cache entry', m in vs.calls and bool(nxt) and nxt[0] in vs.calls, 'inserted value is not the (merged) cache entry', where(cm, ci.line))
      ks = cm.slice_of([ci.args[1]])
      ctx.ob('R4.2', cm.n, 'insert key<-loop element outpoint', bool(nxt) and nxt[0] in ks.calls and ks.has_call('<bitcoin::OutPoint as ord::index::entry::Entry>::store'), '', where(cm, ci.line))
      ctx.ob('R4.2', cm.n, 'insert result tested', result_is_checked(cm, ci), 'insert error dropped', where(cm, ci.line))

  # ---------------- R4.3 cache mutation inventory
  n_mut = 0
  allowed_methods = {'insert', 'remove', 'entry', 'contains_key', 'len', 'get'}
  pass_through = {IUE, II, UIL, 'ord::index::updater::Updater::index_block', COMMIT}
  for b in F.bodies.values():
    if not b.file.startswith('src/index/updater'):
      continue
    for c in b.calls:
      if not c.args:
        continue
      for ai, a in enumerate(c.args):
        p = a.get('m') or a.get('c')
        if not p or p.get('p'):
          continue
        ty = b.local_ty(p['l'])
        if CACHE_TY in ty and ty.startswith('&mut'):
          n_mut += 1
          ctx.analysed(b)
          last = (c.name or '').split('::')[-1]
          if (c.name or '').startswith('std::collections::HashMap') or 'std::collections::HashMap' in (c.name or ''):
            ok = last in allowed_methods
            ctx.ob('R4.3', b.n, f'utxo_cache.{last}', ok, f'unexpected mutation of the utxo cache through {c.name}', where(b, c.line), nontrivial=False)
            if last == 'insert':
              ko = [o for o in origins(b, c.args[1])]
              good = any(o.kind == 'agg' and norm(o.agg.get('adt') or '') == 'bitcoin::OutPoint' for o in ko)
              detail = ''
              if good:
                agg = [o for o in ko if o.kind == 'agg'][0].agg
                fo = dict(zip(agg['fields'], agg['ops']))
                tx_o = b.slice_of([fo['txid']])
                vo = b.slice_of([fo['vout']])
                good = ('txid' in tx_o.var_names() or tx_o.has_call('re:Iterator.*::next$')) and (vo.has_call('re:Enumerate.*::next$') or vo.has_call('re:Iterator.*::next$'))
                detail = f'txid from {sorted(tx_o.var_names())}, vout from {sorted(vo.var_names())}'
              ctx.ob('R4.3', b.n, 'utxo_cache.insert(key=OutPoint{txid of this tx, vout<-enumerate})', good,
                     f'cache insert with a key that is not a fresh output of the current transaction ({ko}) {detail}', where(b, c.line))
            if last == 'entry':
              # the Entry result must flow into or_insert(UtxoEntryBuf::empty(..))
              ors = [x for x in b.calls if x.is_('re:hash_map::Entry.*::or_insert$') and any(o.kind == 'call' and o.call is c for o in origins(b, x.args[0]))]
              good = len(ors) == 1 and any(o.kind == 'call' and o.call.is_(EMPTY) for o in origins(b, ors[0].args[1]))
              ctx.ob('R4.3', b.n, 'utxo_cache.entry(..).or_insert(UtxoEntryBuf::empty(..))', good, 'special-outpoint cache entry is not created empty-then-appended', where(b, c.line))
              if good:
                # followed by an append: push_inscription on the result or merged + assignment through the reference
                fam = [b] + ([F.body(b.n[:b.n.find('::{')])] if '::{' in b.n and F.body(b.n[:b.n.find('::{')]) else [])
                tgt_calls = [x for fb in fam for x in fb.calls if (fb is not b or b.reaches(ors[0].bb, x.bb)) and x.is_('ord::index::utxo_entry::UtxoEntryBuf::push_inscription', MERGED)]
                ctx.ob('R4.3', b.n, 'special cache entry is appended to (push_inscription / merged)', bool(tgt_calls), 'special entry fetched but never appended', where(b, ors[0].line))
          else:
            callee = c.name or ''
            ctx.ob('R4.3', b.n, f'utxo_cache passed to {short(callee)}', callee in pass_through or callee.startswith('std::') or callee.startswith('core::'),
                   f'utxo cache handed to an unreviewed function {callee}', where(b, c.line), nontrivial=False)
  ctx.sites(n_mut)
  ctx.floor('R4.3', 'uses of &mut utxo_cache', n_mut, 8)

  # ---------------- R4.4
  mb = ctx.body('R4.4', MERGED)
  if mb is not None:
    for meth, acc in (('push_inscriptions', 'inscriptions'), ('push_sat_ranges', 'sat_ranges')):
      pis = mb.calls_to(f'ord::index::utxo_entry::UtxoEntryBuf::{meth}')
      srcs = set()
      for c in pis:
        sl = mb.slice_of([c.args[1]])
        for x in sl.calls_named(f'ord::index::utxo_entry::ParsedUtxoEntry::{acc}'):
          for o in mb.slice_of([x.args[0]], through_calls=True).var_names():
            srcs.add(o)
      ctx.ob('R4.4', mb.n, f'{meth} receives {acc}() of both a and b', {'a_parsed', 'b_parsed'} <= srcs or {'a', 'b'} <= srcs,
             f'merged keeps {acc} of {sorted(srcs)} only', where(mb, mb.line))
      for c in pis:
        ro = origins(mb, c.args[0])
        ctx.ob('R4.4', mb.n, f'{meth} receiver is the returned buffer', any(o.kind in ('var', 'call') for o in ro) and _is_returned(mb, c.args[0]), f'{ro}', where(mb, c.line))
    # parsed operands come from the two parameters
    ps = mb.calls_to('ord::index::utxo_entry::UtxoEntry::parse')
    pn = set()
    for c in ps:
      pn |= {o.name for o in origins(mb, c.args[0]) if o.kind == 'param'}
    ctx.ob('R4.4', mb.n, 'both parameters are parsed', {'a', 'b'} <= pn, f'parsed: {sorted(pn)}', where(mb, mb.line))

  # ---------------- R4.5
  ib = ctx.body('R4.5', II)
  if ib is not None:
    nx = [c for c in ib.calls if c.is_('re:Peekable.*::next$', 're:Iterator.*::next$') and 'envelope::Envelope' in (c.f.get('ga') or '')]
    pushes = []
    for c in ib.calls:
      if c.is_('std::vec::Vec::push') and 'Flotsam' in (c.f.get('ga') or ''):
        sl = ib.slice_of([c.args[1]], through_calls=False)
        if any(a == ('ord::index::updater::inscription_updater::Origin', 'New') for a in sl.adts):
          pushes.append(c)
    ctx.anchor('R4.5', 'envelopes.next() and Flotsam{New} push in index_inscriptions', len(nx) == 1 and len(pushes) == 1, ib.n)
    if len(nx) == 1 and len(pushes) == 1:
      ctx.ob('R4.5', ib.n, 'envelopes.next() ⇒ Flotsam{New} pushed (dominates)', ib.dominates(pushes[0].bb, nx[0].bb), 'an envelope can be consumed without creating an inscription', where(ib, nx[0].line))
      ctx.ob('R4.5', ib.n, 'Flotsam{New} pushed ⇒ envelopes.next() (no path back to peek without advancing)', always_with(ib, pushes[0].bb, nx[0].bb, escape_at=_peek_blocks(ib)),
             'an envelope can be turned into two inscriptions', where(ib, pushes[0].line))
      # id counter: index field of the id originates from id_counter, incremented in lockstep
    uil = ib.calls_to(UIL)
    ctx.floor('R4.5', 'update_inscription_location call sites', len(uil), 2)
    for c in uil:
      ctx.ob('R4.5', ib.n, 'update_inscription_location result tested', result_is_checked(ib, c), 'error dropped', where(ib, c.line))
    # consumption of the leftover iterator
    ext = [c for c in ib.calls if c.is_('re:Extend.*::extend$') and 'Flotsam' in (c.f.get('ga') or '')]
    ext_ok = False
    for c in ext:
      ro = origins(ib, c.args[0])
      if any(o.kind == 'param' and o.fields[:1] == ('flotsam',) for o in ro):
        ext_ok = True
    ctx.ob('R4.5', ib.n, 'non-coinbase leftovers are carried in self.flotsam (extend)', ext_ok, 'fee-spent inscriptions are dropped', where(ib, ib.line))
    app = [c for c in ib.calls if c.is_('std::vec::Vec::append') and 'Flotsam' in (c.f.get('ga') or '')]
    app_ok = any(any(o.kind == 'param' and o.fields[:1] == ('flotsam',) for o in origins(ib, c.args[1])) for c in app)
    ctx.ob('R4.5', ib.n, 'coinbase re-attaches self.flotsam (append)', app_ok, 'carried flotsam never re-enters', where(ib, ib.line))
    for rb in success_return_blocks(ib):
      dom_ext = any(ib.dominates(c.bb, rb) for c in ext)
      dom_loop = any(ib.dominates(c.bb, rb) for c in uil)  # coinbase arm loops over leftovers (0..n times) — dominated by the into_iter of the leftovers
      into = [c for c in ib.calls if c.is_('re:IntoIterator.*::into_iter$') and 'Peekable' in (c.f.get('ga') or '') and ib.dominates(c.bb, rb)]
      ctx.ob('R4.5', ib.n, 'success return dominated by consumption of the leftover flotsam iterator', dom_ext or bool(into),
             'a success return drops leftover flotsam', where(ib, ib.term(rb).get('l') or ib.line))
  ub = ctx.body('R4.5', UIL)
  if ub is not None:
    pi = ub.calls_to('ord::index::utxo_entry::UtxoEntryBuf::push_inscription')
    ctx.anchor('R4.5', 'push_inscription in update_inscription_location', len(pi) == 1, ub.n)
    for c in pi:
      for rb in success_return_blocks(ub):
        ctx.ob('R4.5', ub.n, 'success return dominated by push_inscription', ub.dominates(c.bb, rb), 'an inscription can be processed without being attached to an output entry', where(ub, c.line))
      so = ub.slice_of([c.args[1]], through_calls=False)
      ctx.ob('R4.5', ub.n, 'push_inscription(sequence_number<-the match result)', 'sequence_number' in so.var_names(), f'{sorted(so.var_names())}', where(ub, c.line))


def _peek_blocks(body):
  return [c.bb for c in body.calls if c.is_('re:Peekable.*::peek$') and 'envelope::Envelope' in (c.f.get('ga') or '')]


def _is_returned(body, op):
  """the local behind op (through refs) is moved into _0"""
  sl0 = body.slice_of([{'l': 0}], through_calls=False)
  slr = body.slice_of([op], through_calls=False)
  named = {l for l in slr.locals if body.local_name(l)}
  return bool(named & sl0.locals)


def _r4_6(ctx):
  """inscriptions are indexed from the first inscription height on, inclusive"""
  from ..core import where
  from ..facts import describe_operand, CMP_FLIP
  from ..intervals import fmt_desc
  ctx.rule('R4.6', 'Updater::index_utxo_entries: the height test that switches inscription indexing on is self.height >= first_inscription_height() — the block at exactly the first inscription height is inscription-indexed (no envelope of it is dropped)')
  b = ctx.body('R4.6', 'ord::index::updater::Updater::index_utxo_entries')
  if b is None:
    return
  atoms = []
  for blk in b.blocks:
    for s in blk['s']:
      rv = s.get('rv', {})
      if rv.get('k') == 'bin' and rv['op'] in CMP_FLIP:
        a, c = fmt_desc(describe_operand(b, rv['a'])), fmt_desc(describe_operand(b, rv['b']))
        if 'first_inscription_height' in a or 'first_inscription_height' in c:
          atoms.append((rv['op'], a, c, s.get('l')))
  ctx.ob('R4.6', b.n, 'exactly one comparison with first_inscription_height()', len(atoms) == 1, f'{atoms}', where(b, b.line), nontrivial=False)
  for op, a, c, line in atoms:
    ok = (op == 'Ge' and a == 'self.height' and 'first_inscription_height' in c) or (op == 'Le' and c == 'self.height' and 'first_inscription_height' in a)
    ctx.ob('R4.6', b.n, 'inscription indexing starts at height >= first_inscription_height()', ok, f'{op}({a},{c})', where(b, line))


# sensitivity pack (thorough tier): each seeded edit must be reported by the named rule instance
MUTANTS = [{'name': 'seeded-C04-a', 'patch': 'C04-a/patch.diff', 'expect': ('R4.2', 'Updater::commit', '')},
           {'name': 'seeded-C04-b', 'patch': 'C04-b/patch.diff', 'expect': ('R4.6', 'index_utxo_entries', 'first_inscription_height')}]


# behaviour-preserving edits (thorough tier): the rules must stay silent on every one of them
NEUTRAL = [
  {'name': 'commit: two independent statistic flushes reordered', 'file': 'src/index/updater.rs', 'old': '    Index::increment_statistic(&wtx, Statistic::OutputsTraversed, self.outputs_traversed)?;\n    self.outputs_traversed = 0;\n    Index::increment_statistic(&wtx, Statistic::SatRanges, self.sat_ranges_since_flush)?;\n    self.sat_ranges_since_flush = 0;\n', 'new': '    Index::increment_statistic(&wtx, Statistic::SatRanges, self.sat_ranges_since_flush)?;\n    self.sat_ranges_since_flush = 0;\n    Index::increment_statistic(&wtx, Statistic::OutputsTraversed, self.outputs_traversed)?;\n    self.outputs_traversed = 0;\n'},
  {'name': 'commit: satpoint literal inlined', 'file': 'src/index/updater.rs', 'old': '            let satpoint = SatPoint { outpoint, offset };\n            sequence_number_to_satpoint.insert(sequence_number, &satpoint.store())?;', 'new': '            sequence_number_to_satpoint.insert(sequence_number, &SatPoint { outpoint, offset }.store())?;'},
{'name': 'first inscription height test written the other way round', 'file': 'src/index/updater.rs', 'old': 'let index_inscriptions = self.height >= self.index.settings.first_inscription_height()\n      && self.index.index_inscriptions;', 'new': 'let first = self.index.settings.first_inscription_height();\n    let index_inscriptions = self.index.index_inscriptions && first <= self.height;'}]
