"""C03 — clause claim (DESIGN §10.10): the offset bookkeeping by which inscriptions follow the first-in-first-out rule in
InscriptionUpdater::index_inscriptions, decided by affine value numbering:

  inputs   every carried inscription floats at (value of the earlier inputs) + (its old offset); a new one defaults to the value of the
           earlier inputs; the running input value grows by exactly the consumed entry's total_value (or the subsidy for the coinbase input)
  outputs  floating inscriptions are sorted by offset; one lands in output v iff its offset < end(v) = start(v) + value(v), at offset - start(v);
           start(v+1) = end(v)
  fees     in a non-coinbase transaction what is left floats on at reward + offset - spent, and reward grows by inputs - spent; in the coinbase
           it is lost at lost_sats + offset - spent and lost_sats grows by reward - spent

Agreement of the resulting location with the sat index over all histories (the property as stated) is NOT decided."""
from ..core import where
from ..facts import norm, origins
from ..affine import Analysis, Aff, pkey, smallest_loop, back_edge_states, entry_edge_states, agg_sites, state_after_stmt, implies_le
from .common import deep_origins, short, reaches_avoiding

II = 'ord::index::updater::inscription_updater::InscriptionUpdater::index_inscriptions'
SATPOINT = r'ordinals::sat_point::SatPoint$|ordinals::SatPoint$'

ASSUMPTIONS = [
  "decides the per-transaction offset arithmetic that moves inscriptions first-in-first-out; that this equals where the sat index puts the same sat, "
  "for every history, is an agreement between two computations and is not decided",
  "u64 arithmetic is treated as exact (overflow on this path is C16's clause)",
]


def _sub(key, *suffix):
  return (key[0], key[1] + tuple(suffix))


def _f(i):
  return ('f', i)


def _field(stm, name):
  fs = stm['rv'].get('fields') or []
  return fs.index(name) if name in fs else None


def _callee(b, sym):
  while isinstance(sym, tuple) and sym[0] == 'f':
    sym = sym[1]
  if isinstance(sym, tuple) and sym[0] == 'call':
    t = b.blocks[sym[1]]['t']
    return norm(t['f'].get('res') or t['f'].get('fn') or '')
  if isinstance(sym, tuple) and sym[0] == 'pure':
    return sym[1]
  return None


def _terms(an, b, aff):
  """describe an affine value as {(sign, tag)}: tag = callee name, field names, or the symbol kind"""
  out = []
  for s, k in aff.t:
    cal = _callee(b, s)
    names = an.field_names(Aff.sym(s))
    out.append((k, cal.split('::')[-1] if cal else None, names))
  return out


def run(ctx):
  F = ctx.facts
  ctx.rule('R3.1', 'input phase: a carried inscription floats at total_input_value + old offset (the old satpoint offset of the same entry element); a new inscription defaults to total_input_value before its input is added '
           'and moves only to a pointer < total_output_value; total_input_value grows by the total_value of the entry of the same input (by the subsidy for the null input)')
  ctx.rule('R3.2', 'output phase: floating inscriptions are sorted by offset; inside the output loop an inscription is placed iff offset < end, at (txid, this output, offset - output_value), where end = output_value + value and output_value\' = end; '
           'the placed element is the one that was peeked')
  ctx.rule('R3.3', 'fee phase: non-coinbase leftovers continue at self.reward + offset - output_value and self.reward grows by total_input_value - output_value; '
           'coinbase leftovers are lost at (null outpoint, self.lost_sats + offset - output_value) and self.lost_sats grows by self.reward - output_value')
  ctx.rule('R3.4', 'calculate_sat: the sat of a new inscription is start + input_offset - (sum of the earlier range lengths) of the first range with sum + size > input_offset; the running sum grows by end - start per range')
  ctx.rule('R3.5', 'update_inscription_location: Burned is set exactly under op_return (new and carried inscriptions), Lost exactly when the new outpoint is the null outpoint, Unbound exactly under the unbound flag; '
           'an unbound inscription is stored at (unbound outpoint, running unbound counter) and the counter grows by one; every other inscription at the satpoint it was given')
  ctx.rule('R3.6', 'index_inscriptions: a new inscription is unbound if the value of its input is 0 or its envelope carries an unrecognized even field — the envelope flag itself, independent of which curse the ladder selected')
  _r3_4(ctx, F)
  _r3_5(ctx, F)
  b = ctx.body('R3.1', II)
  if b is None:
    return
  an = Analysis(b, adts=F.adts)
  ctx.ob('R3.1', b.n, 'affine analysis converged', an.converged, f'rounds={an.rounds}', where(b, b.line), nontrivial=False)

  # ------------------------------------------------------------------ R3.1
  fl = agg_sites(b, r'inscription_updater::Flotsam$')
  olds = [x for x in fl if _origin_variant(b, x[2]) == 'Old']
  news = [x for x in fl if _origin_variant(b, x[2]) == 'New']
  if not ctx.anchor('R3.1', 'Flotsam literals for carried and new inscriptions', len(olds) == 1 and len(news) == 1, b.n):
    return
  tv = [c for c in b.calls if c.is_('ord::index::utxo_entry::ParsedUtxoEntry::total_value')]
  if not ctx.anchor('R3.1', 'total_value of the input entry', len(tv) == 1, b.n):
    return
  ho = smallest_loop(an, tv[0].bb)
  if not ctx.anchor('R3.1', 'input loop', ho is not None, b.n):
    return
  # the running input value: the place that is phi + total_value on the back edge through total_value
  TV = Aff.sym(('call', tv[0].bb))
  ks = set()
  for s in back_edge_states(an, ho):
    for k, v in s.m.items():
      if v == Aff.sym(('phi', ho, k)) + TV:
        ks.add(k)
  if not ctx.anchor('R3.1', 'running input value (+= total_value)', len(ks) == 1, b.n):
    return
  K = next(iter(ks))
  T0 = Aff.sym(('phi', ho, K))
  bes = back_edge_states(an, ho)
  ctx.sites(len(bes))
  bad = []
  for s in bes:
    d = s.val(K) - T0
    cal = _callee(b, d.single()) if d.single() else None
    if not (cal and (cal.endswith('ParsedUtxoEntry::total_value') or cal.endswith('Height::subsidy'))):
      bad.append(str(d))
  ctx.ob('R3.1', b.n, 'per input, the running input value grows by exactly total_value() or, for the null input, subsidy()', bool(bes) and not bad, f'{bad[:3]}', where(b, tv[0].line))
  nul = [c for c in b.calls if c.is_('re:OutPoint::is_null$') and c.bb in an.loop[ho]]
  sub = [c for c in b.calls if c.is_('ordinals::height::Height::subsidy') and c.bb in an.loop[ho]]
  from ..facts import guards_of
  ctx.ob('R3.1', b.n, 'the subsidy is added only for the null (coinbase) input', len(sub) == 1 and len(nul) == 1 and any(g.slice().has_call('re:OutPoint::is_null$') and g.cond_true_live() for g in guards_of(b, sub[0].bb)),
         '', where(b, sub[0].line if sub else b.line))
  # total_value / parse_inscriptions of the entry of this input
  nx = [c for c in b.calls if c.bb == ho and c.is_('re:Enumerate as std::iter::Iterator>::next$')]
  idx = Aff.sym(('f', ('call', ho), (('v', 'Some'), _f(0), _f(0))))
  for c, what in ((tv[0], 'total_value'), *[(x, 'parse_inscriptions') for x in b.calls if x.is_('ord::index::utxo_entry::ParsedUtxoEntry::parse_inscriptions')]):
    ok = False
    for s in an.at_term(c.bb):
      src = c.args[0].get('c') or c.args[0].get('m')
      tg = [tk for tk, m in s.ref.get(src['l'], ())]
      if len(tg) == 1 and tg[0][1] and tg[0][1][-1][0] == 'i':
        ok = s.val((tg[0][1][-1][1], ())) == idx and bool(nx)
    ctx.ob('R3.1', b.n, f'{what} is read from input_utxo_entries[index of this input]', ok, '', where(b, c.line))
  # carried inscriptions
  bb, i, stm = olds[0]
  dk = pkey(stm['p'])
  sts = state_after_stmt(an, bb, i)
  sp = [x for x in agg_sites(b, SATPOINT) if x[0] in an.loop[ho] and b.reaches(x[0], bb)]
  okc = False
  msg = ''
  if len(sp) == 1:
    sbb, si, sstm = sp[0]
    sk = pkey(sstm['p'])
    for s in sts:
      fo = s.val(_sub(dk, _f(_field(stm, 'offset'))))
      oo = s.val(_sub(sk, _f(_field(sstm, 'offset'))))
      msg = f'offset = {fo}; old offset = {oo}'
      d = fo - oo
      okc = d == T0
  ctx.ob('R3.1', b.n, 'carried inscription: offset == total_input_value (before this input) + old satpoint offset', okc and bool(sts), msg, where(b, stm['l']))
  ctx.ob('R3.1', b.n, 'carried inscriptions are placed before this input\'s value is added', b.reaches(bb, tv[0].bb) and b.dominates(ho, bb) and _before_in_iteration(b, an, ho, bb, tv[0].bb),
         '', where(b, stm['l']))
  # new inscriptions
  bb, i, stm = news[0]
  dk = pkey(stm['p'])
  sts = state_after_stmt(an, bb, i)
  vals = {s.val(_sub(dk, _f(_field(stm, 'offset')))) for s in sts}
  uo = None
  if len(vals) == 1:
    sy = next(iter(vals)).single()
    if isinstance(sy, tuple) and sy[0] == 'call':
      t = b.blocks[sy[1]]['t']
      if norm(t['f'].get('res') or t['f'].get('fn') or '').endswith('Option::unwrap_or'):
        uo = [c for c in b.calls if c.bb == sy[1]][0]
  if ctx.anchor('R3.1', 'new inscription offset = pointer().filter(..).unwrap_or(default)', uo is not None, b.n):
    dv = {an.opval(s, uo.args[1]) for s in an.at_term(uo.bb)}
    ctx.ob('R3.1', b.n, 'new inscription: default offset == total_input_value before this input is added', dv == {T0}, f'{dv} vs {T0}', where(b, uo.line))
    fo = [o.call for o in origins(b, uo.args[0], passthrough=()) if o.kind == 'call']
    okf = len(fo) == 1 and fo[0].is_('re:Option.*::filter$') and any(o.kind == 'call' and o.call.is_('re:Inscription::pointer$') for o in origins(b, fo[0].args[0], passthrough=()))
    cl = [cb for cb in F.closures_of(b.n) if _lt_upvar(cb, 'total_output_value')]
    ctx.ob('R3.1', b.n, 'a pointer moves the inscription only if pointer < total_output_value', okf and len(cl) >= 1, f'{[c.name for c in fo]}', where(b, uo.line))

  # unbound flag of a new inscription (R3.6)
  og = [x for x in agg_sites(b, r'inscription_updater::Origin$') if x[2]['rv'].get('variant') == 'New']
  if ctx.anchor('R3.6', 'Origin::New literal', len(og) == 1, b.n):
    ostm = og[0][2]
    ofs = ostm['rv'].get('fields') or []
    uop = ostm['rv']['ops'][ofs.index('unbound')]
    uo_ = origins(b, uop)
    direct = [o for o in uo_ if o.kind == 'call' and o.call.is_('re:Peekable.*::peek$') and tuple(o.fields)[-2:] == ('payload', 'unrecognized_even_field')]
    ctx.ob('R3.6', b.n, 'unbound includes the envelope\'s unrecognized_even_field flag itself (not only what the curse ladder picked)', len(direct) == 1, f'{[repr(o) for o in uo_]}', where(b, ostm['l']))
    from ..guards import all_guards, expand
    from ..intervals import fmt_desc
    ul = (uop.get('c') or uop.get('m') or {}).get('l')
    zero = False
    for d in b.defs().get(ul, []):
      if d.get('kind') == 'assign' and d.get('bb') is not None and (d.get('rv') or {}).get('k') == 'use' and ((d['rv'].get('o') or {}).get('k') or {}).get('v') is True:
        for dsc, truth in _short_circuit_sources(b, d['bb']):
          if truth is True and dsc.startswith('Eq(') and 'total_value' in dsc and dsc.endswith(',0)'):
            zero = True
    ctx.ob('R3.6', b.n, 'unbound is true whenever the input entry\'s total_value() == 0', zero, '', where(b, ostm['l']))

  # ------------------------------------------------------------------ R3.2
  pk = [c for c in b.calls if c.is_('re:Peekable.*::peek$')]
  sps = agg_sites(b, SATPOINT)
  placed = None
  for x in sps:
    h = smallest_loop(an, x[0])
    if h is not None and any(c.bb == h or (b.dominates(h, c.bb) and c.bb in an.loop[h]) for c in pk) and x not in sp:
      oo = deep_origins(b, x[2]['rv']['ops'][_field(x[2], 'outpoint')], all_args=True)
      if not any(o.kind == 'call' and o.call.is_('re:OutPoint::null$') for o in oo):
        placed = x
  if not ctx.anchor('R3.2', 'SatPoint literal of a placed inscription', placed is not None, b.n):
    return
  bb, i, stm = placed
  dk = pkey(stm['p'])
  hi = smallest_loop(an, bb)
  hout = None
  for hh, nodes in an.loop.items():
    if hh != hi and hi in nodes and (hout is None or len(nodes) < len(an.loop[hout])):
      hout = hh
  if not ctx.anchor('R3.2', 'peek loop inside the output loop', hi is not None and hout is not None, b.n):
    return
  sts = state_after_stmt(an, bb, i)
  ctx.sites(len(sts))
  # offset = F - V with V the running output value (a phi of the output loop), under F < V + value(this output)
  Kv = None
  F_ = None
  okp = bool(sts)
  msg = ''
  for s in sts:
    off = s.val(_sub(dk, _f(_field(stm, 'offset'))))
    neg = [sy for sy, k in off.t if k == -1]
    pos = [sy for sy, k in off.t if k == 1]
    good = False
    if len(neg) == 1 and len(pos) == 1 and off.c == 0 and neg[0][0] == 'phi' and neg[0][1] == hout:
      Kv = neg[0][2]
      F_ = Aff.sym(pos[0])
      V = Aff.sym(neg[0])
      from ..affine import le_forms
      for e in le_forms(s.guards):
        # e <= 0 read as  F + 1 <= X  with  X = F + 1 - e ; X must be output_value + value of this output
        d = (F_ + Aff.const(1) - e) - V
        sy = d.single()
        if isinstance(sy, tuple) and sy[0] == 'pure' and sy[1].endswith('Amount::to_sat'):
          good = True
    if not good:
      okp = False
      msg = f'offset = {off} under {s.guards}'
  ctx.ob('R3.2', b.n, 'placed offset == flotsam offset - output_value, under flotsam offset < output_value + value of this output', okp and Kv is not None and 'offset' in an.field_names(F_), msg, where(b, stm['l']))
  if Kv is None:
    return
  pks = {('call', c.bb) for c in pk if c.bb in an.loop[hi]}
  base = F_.single()
  while isinstance(base, tuple) and base[0] == 'f':
    base = base[1]
  ctx.ob('R3.2', b.n, 'the offset tested and used is that of the peeked inscription', base in pks, f'{F_}', where(b, stm['l']))
  V0 = Aff.sym(('phi', hout, Kv))
  bes = back_edge_states(an, hout)
  ok = bool(bes)
  for s in bes:
    d = s.val(Kv) - V0
    sy = d.single()
    if not (isinstance(sy, tuple) and sy[0] == 'pure' and sy[1].endswith('Amount::to_sat')):
      ok = False
  ctx.ob('R3.2', b.n, "output_value' == output_value + value of this output at the end of every output", ok, f'{[s.val(Kv) for s in bes][:2]}', where(b, stm['l']))
  # the value is that of the output whose index is used
  val_syms = set()
  for s in bes:
    for x in (s.val(Kv) - V0).syms():
      if isinstance(x, tuple) and x[0] == 'call':
        val_syms.add(x)
  ctx.ob('R3.2', b.n, 'the value added is that of the output being visited', val_syms == {('call', hout)}, f'{val_syms}', where(b, stm['l']))
  # both loops walk the whole transaction: tx.output here, tx.input above — not a conditional or partial view of them (seeded C03-a)
  for hh, fld, rid in ((hout, 'output', 'R3.2'), (ho, 'input', 'R3.1')):
    nxs = [c for c in b.calls if c.bb == hh and c.is_('re:Enumerate as std::iter::Iterator>::next$')]
    roots = set()
    for c in nxs:
      op_ = c.args[0]
      for _ in range(10):
        os_ = origins(b, op_, passthrough=())
        cs = [o for o in os_ if o.kind == 'call']
        if len(cs) != 1 or len(os_) != 1 or not cs[0].call.args:
          roots |= {repr(o) for o in os_}
          break
        op_ = cs[0].call.args[0]
    ctx.ob(rid, b.n, f'the {fld} loop walks exactly tx.{fld}', roots == {f'param:tx.{fld}'}, f'{sorted(roots)}', where(b, stm['l']))
  # vout / txid
  oi = _field(stm, 'outpoint')
  txid_p = [l for l in range(1, b.argc + 1) if b.local_name(l) == 'txid']
  okt = bool(sts) and bool(txid_p) and all(s.val(_sub(dk, _f(oi), _f(0))) == Aff.sym(('init', (txid_p[0], ()))) for s in sts)
  vo = []
  for o in deep_origins(b, stm['rv']['ops'][oi], all_args=True):
    fs = (o.agg.get('fields') or []) if o.kind == 'agg' else []
    if 'vout' in fs:
      vo += deep_origins(b, o.agg['ops'][fs.index('vout')], all_args=True)
  ctx.ob('R3.2', b.n, 'placed at (txid parameter, index of this output)', okt and any(o.kind == 'call' and o.call.bb == hout for o in vo), f'{[repr(o) for o in vo[:4]]}', where(b, stm['l']))
  # the element pushed is inscriptions.next() of the same peekable
  pushes = [c for c in b.calls if c.is_('std::vec::Vec::push') and c.bb in an.loop[hi] and b.dominates(bb, c.bb)]
  okn = False
  if len(pushes) == 1:
    po = deep_origins(b, pushes[0].args[1], all_args=True)
    for o in list(po):
      if o.kind == 'agg' and o.agg.get('ak') == 'tuple':
        for op in o.agg.get('ops', []):
          po += deep_origins(b, op, all_args=True)
    nxts = [o.call for o in po if o.kind == 'call' and o.call.is_('re:Peekable.*Iterator>::next$')]
    pl = {o.name for c in pk if c.bb in an.loop[hi] for o in origins(b, c.args[0], named_terminal=True)}
    okn = len(nxts) == 1 and {o.name for o in origins(b, nxts[0].args[0], named_terminal=True)} == pl and any(o.kind == 'agg' and o.agg is stm['rv'] or (o.kind == 'agg' and norm(o.agg.get('adt') or '').endswith('SatPoint')) for o in po)
  ctx.ob('R3.2', b.n, 'the inscription recorded with that location is next() of the peeked iterator', okn, '', where(b, stm['l']))
  # sorted before
  srt = [c for c in b.calls if c.is_('re:slice::<impl \\[T\\]>::sort_by_key$') and b.dominates(c.bb, hout)]
  oks = False
  for c in srt:
    for o in origins(b, c.args[1]):
      if o.kind == 'agg' and o.agg.get('ak') == 'closure':
        cb = F.body(norm(o.agg.get('def') or '')) or next((x for x in F.closures_of(b.n) if norm(o.agg.get('def') or '') == x.n), None)
        if cb is not None and _returns_field(cb, 'offset'):
          oks = True
  ctx.ob('R3.2', b.n, 'floating inscriptions are sorted by offset before the output loop', oks, f'{len(srt)} sort_by_key calls dominate the loop', where(b, stm['l']))

  # ------------------------------------------------------------------ R3.3
  VF = V0  # value of output_value after the loop (the loop exits from its head)
  lost = [x for x in sps if any(o.kind == 'call' and o.call.is_('re:OutPoint::null$') for o in deep_origins(b, x[2]['rv']['ops'][_field(x[2], 'outpoint')], all_args=True))]
  if ctx.anchor('R3.3', 'SatPoint literal of a lost inscription', len(lost) == 1, b.n):
    bb, i, stm = lost[0]
    dk = pkey(stm['p'])
    sts = state_after_stmt(an, bb, i)
    ok = bool(sts)
    msg = ''
    for s in sts:
      off = s.val(_sub(dk, _f(_field(stm, 'offset'))))
      tt = _terms(an, b, off)
      pos = sorted((n for k, c, n in tt if k == 1), key=str)
      neg = [(sy) for sy, k in off.t if k == -1]
      good = off.c == 0 and len(tt) == 3 and any('lost_sats' in n for n in pos) and any('offset' in n for n in pos) and len(neg) == 1 and neg[0][0] == 'phi' and neg[0][2] == Kv
      if not good:
        ok = False
        msg = f'offset = {off}'
    ctx.ob('R3.3', b.n, 'coinbase: lost offset == self.lost_sats + flotsam offset - output_value', ok, msg, where(b, stm['l']))
  for fld, plus, what in (('lost_sats', 'reward', "coinbase: self.lost_sats' == self.lost_sats + self.reward - output_value"),
                          ('reward', None, "otherwise: self.reward' == self.reward + total_input_value - output_value")):
    asg = [(bi, si, st_) for bi in b.reachable_from(0) if not b.blocks[bi].get('cleanup') for si, st_ in enumerate(b.blocks[bi]['s'])
           if st_.get('p') and (st_['p'].get('p') or []) and isinstance(st_['p']['p'][-1], dict) and st_['p']['p'][-1].get('n') == fld and b.local_name(st_['p']['l']) == 'self']
    if not ctx.anchor('R3.3', f'assignment to self.{fld}', len(asg) == 1, b.n):
      continue
    bi, si, st_ = asg[0]
    before = state_after_stmt(an, bi, si - 1) if si > 0 else an.ins.get(bi, [])
    after = state_after_stmt(an, bi, si)
    ok = bool(after) and len(before) == len(after)
    msg = ''
    for s0, s1 in zip(before, after):
      k = pkey(st_['p'])
      d = s1.val(k) - s0.val(k)
      tt = _terms(an, b, d)
      if plus is not None:
        good = d.c == 0 and len(tt) == 2 and any(kk == 1 and plus in n for kk, c, n in tt) and any(kk == -1 for kk, c, n in tt) and [sy for sy, kk in d.t if kk == -1][0][-1] == Kv
      else:
        pos = [sy for sy, kk in d.t if kk == 1]
        neg = [sy for sy, kk in d.t if kk == -1]
        good = d.c == 0 and len(pos) == 1 and len(neg) == 1 and pos[0][0] == 'phi' and pos[0][2] == K and neg[0][0] == 'phi' and neg[0][2] == Kv
      if not good:
        ok = False
        msg = f'change = {d}'
    ctx.ob('R3.3', b.n, what, ok, msg, where(b, st_['l']))
  # non-coinbase carry-over closure
  cbs = [cb for cb in F.closures_of(b.n) if agg_sites(cb, r'inscription_updater::Flotsam$')]
  if ctx.anchor('R3.3', 'closure re-basing the leftover inscriptions', len(cbs) == 1, b.n):
    cb = cbs[0]
    ctx.analysed(cb)
    ca = Analysis(cb, adts=F.adts)
    bb, i, stm = agg_sites(cb, r'inscription_updater::Flotsam$')[0]
    dk = pkey(stm['p'])
    ok = False
    msg = ''
    for s in state_after_stmt(ca, bb, i):
      off = s.val(_sub(dk, _f(_field(stm, 'offset'))))
      tt = [(k, ca.field_names(Aff.sym(sy))) for sy, k in off.t]
      msg = f'offset = {off}'
      has = lambda n, w: any(w in str(x) for x in n)
      ok = off.c == 0 and len(tt) == 3 and any(k == 1 and has(n, 'reward') for k, n in tt) and any(k == 1 and 'offset' in n and not has(n, 'reward') for k, n in tt) and any(k == -1 and has(n, 'output_value') for k, n in tt)
    ctx.ob('R3.3', cb.n, 'otherwise: carried offset == self.reward + flotsam offset - output_value', ok, msg, where(cb, stm['l']))
    ext = [c for c in b.calls if c.is_('re:Vec.*Extend.*::extend$') and any(o.kind == 'param' and o.name == 'self' and 'flotsam' in o.fields for o in deep_origins(b, c.args[0], all_args=True))]
    ctx.ob('R3.3', b.n, 'the re-based leftovers are appended to self.flotsam', len(ext) == 1, f'{len(ext)} sites', where(b, b.line))
  ap = [c for c in b.calls if c.is_('std::vec::Vec::append') and any(o.kind == 'param' and o.name == 'self' and 'flotsam' in o.fields for o in deep_origins(b, c.args[1], all_args=True))]
  ctx.ob('R3.3', b.n, 'the coinbase takes over self.flotsam before sorting', len(ap) == 1 and all(b.dominates(ap[0].bb, c.bb) or not b.reaches(c.bb, ap[0].bb) for c in srt) and any(b.reaches(ap[0].bb, c.bb) for c in srt), '', where(b, ap[0].line if ap else b.line))


CS = 'ord::index::updater::inscription_updater::InscriptionUpdater::calculate_sat'
UL = 'ord::index::updater::inscription_updater::InscriptionUpdater::update_inscription_location'


def _r3_4(ctx, F):
  b = ctx.body('R3.4', CS)
  if b is None:
    return
  an = Analysis(b, adts=F.adts)
  loads = [c for c in b.calls if c.is_('re:<\\(u64, u64\\) as ord::index::entry::Entry>::load$')]
  if not ctx.anchor('R3.4', 'SatRange::load', len(loads) == 1, b.n):
    return
  lc = loads[0]
  h = smallest_loop(an, lc.bb)
  if not ctx.anchor('R3.4', 'range loop', h is not None, b.n):
    return
  L = ('call', lc.bb)
  start, end = Aff.sym(('f', L, (_f(0),))), Aff.sym(('f', L, (_f(1),)))
  ks = set()
  for s in back_edge_states(an, h):
    for k, v in s.m.items():
      if v == Aff.sym(('phi', h, k)) + end - start:
        ks.add(k)
  if not ctx.anchor('R3.4', 'running offset (offset += size)', len(ks) == 1, b.n):
    return
  K = next(iter(ks))
  off = Aff.sym(('phi', h, K))
  bes = back_edge_states(an, h)
  ctx.ob('R3.4', b.n, 'every skipped range adds exactly end - start to the running offset', bool(bes) and all(s.val(K) == off + end - start for s in bes), f'{[s.val(K) for s in bes][:2]}', where(b, lc.line))
  ees = entry_edge_states(an, h)
  ctx.ob('R3.4', b.n, 'the running offset starts at 0', bool(ees) and all(s.val(K) == Aff.const(0) for s in ees), f'{[s.val(K) for s in ees][:2]}', where(b, lc.line))
  sats = [x for x in agg_sites(b, r'ordinals::sat::Sat$') if b.dominates(lc.bb, x[0])]
  if not ctx.anchor('R3.4', 'Sat(n) returned from the loop', len(sats) == 1, b.n):
    return
  bb, i, stm = sats[0]
  dk = pkey(stm['p'])
  io = [l for l in range(1, b.argc + 1) if b.local_name(l) == 'input_offset']
  sts = state_after_stmt(an, bb, i)
  ok = bool(sts) and bool(io)
  msg = ''
  for s in sts:
    n = s.val(_sub(dk, _f(0)))
    X = Aff.sym(('init', (io[0], ()))) if io else None
    if X is None or n != start + X - off:
      ok = False
      msg = f'n = {n}'
    elif not implies_le(s.guards, X + Aff.const(1), off + end - start):
      ok = False
      msg = f'offset + size > input_offset not established: {s.guards}'
  ctx.ob('R3.4', b.n, 'hit: n == start + input_offset - running offset, under running offset + size > input_offset', ok, msg, where(b, stm['l']))


def _r3_5(ctx, F):
  from .C06 import CHARM_GUARD, charm_sites
  b = ctx.body('R3.5', UL)
  if b is None:
    return
  sites = charm_sites(b)
  ctx.sites(len(sites))
  for name, n_expected in (('Burned', 2), ('Lost', 1), ('Unbound', 1)):
    ss = [x for x in sites if x[1] == name]
    if not ctx.anchor('R3.5', f'Charm::{name}.set site(s)', len(ss) == n_expected, b.n):
      continue
    for c, v, gs in ss:
      ctx.ob('R3.5', b.n, f'Charm::{name} is set under `{CHARM_GUARD[name]}` and nothing else', gs == {(CHARM_GUARD[name], True)}, f'{sorted(gs)}', where(b, c.line))
  # the carried (Origin::Old) Burned site rewrites the stored entry with that charm
  an = Analysis(b, adts=F.adts)
  sps = [x for x in agg_sites(b, SATPOINT)]
  unb = [x for x in sps if any(o.kind == 'call' and o.call.is_('re:unbound_outpoint$') for o in deep_origins(b, x[2]['rv']['ops'][_field(x[2], 'outpoint')], all_args=True))]
  if ctx.anchor('R3.5', 'SatPoint literal of an unbound inscription', len(unb) == 1, b.n):
    bb, i, stm = unb[0]
    dk = pkey(stm['p'])
    sts = state_after_stmt(an, bb, i)
    offs = {s.val(_sub(dk, _f(_field(stm, 'offset')))) for s in sts}
    okn = bool(offs) and all('unbound_inscriptions' in an.field_names(v) for v in offs)
    ctx.ob('R3.5', b.n, 'unbound: offset is the running self.unbound_inscriptions counter', okn, f'{offs}', where(b, stm['l']))
    asg = [(bi, si, st_) for bi in b.reachable_from(0) if not b.blocks[bi].get('cleanup') for si, st_ in enumerate(b.blocks[bi]['s'])
           if st_.get('p') and (st_['p'].get('p') or []) and isinstance(st_['p']['p'][-1], dict) and st_['p']['p'][-1].get('n') == 'unbound_inscriptions']
    oki = False
    if len(asg) == 1:
      bi, si, st_ = asg[0]
      before = state_after_stmt(an, bi, si - 1) if si > 0 else an.ins.get(bi, [])
      after = state_after_stmt(an, bi, si)
      k = pkey(st_['p'])
      oki = bool(after) and len(before) == len(after) and all(s1.val(k) - s0.val(k) == Aff.const(1) for s0, s1 in zip(before, after)) and b.dominates(bb, bi)
    ctx.ob('R3.5', b.n, 'unbound: the counter grows by exactly one after it was used', oki, f'{len(asg)} assignments', where(b, stm['l']))
    from ..guards import all_guards, expand
    from ..intervals import fmt_desc
    gl = [g for g in expand(b, all_guards(b, bb)) if not fmt_desc(g.atom).startswith('discr(')]
    okg = len(gl) == 1 and gl[0].pol is True
    src = set()
    if okg:
      t = b.blocks[gl[0].bb]['t']
      for o in origins(b, t['d']):
        if o.kind == 'agg' and o.agg.get('ak') == 'tuple' and o.agg.get('ops'):
          for x in origins(b, o.agg['ops'][0]):
            src.add('false' if x.kind == 'const' and x.const.get('v') in (False, 0) else (x.name + '.' + '.'.join(map(str, x.fields)) if x.kind == 'param' else x.kind))
        elif o.kind == 'const':
          src.add('false' if o.const.get('v') in (False, 0) else 'const')
        elif o.kind == 'param':
          src.add(o.name + '.' + '.'.join(map(str, o.fields)))
        else:
          src.add(o.kind)
    ctx.ob('R3.5', b.n, 'the unbound location is used exactly when the inscription is unbound (flag of Origin::New; never for a carried inscription)', okg and src == {'false', 'flotsam.origin.unbound'}, f'{sorted(src)}', where(b, stm['l']))
  # what is pushed into the UTXO entry is (sequence_number, satpoint.offset) of the chosen satpoint
  pi = [c for c in b.calls if c.is_('ord::index::utxo_entry::UtxoEntryBuf::push_inscription')]
  if ctx.anchor('R3.5', 'push_inscription', len(pi) == 1, b.n):
    c = pi[0]
    oo = origins(b, c.args[2])
    kinds = set()
    for o in oo:
      if o.kind == 'param' and o.name == 'new_satpoint' and tuple(o.fields)[-1:] == ('offset',):
        kinds.add('given')
      elif o.kind == 'agg' and unb and o.agg is unb[0][2]['rv']:
        kinds.add('unbound')
      elif o.kind == 'param' and o.name == 'self' and 'unbound_inscriptions' in o.fields:
        kinds.add('unbound')
      else:
        kinds.add(repr(o))
    ctx.ob('R3.5', b.n, 'the stored offset is new_satpoint.offset, or the unbound counter for an unbound inscription', kinds == {'given', 'unbound'}, f'{sorted(kinds)}', where(b, c.line))


def _short_circuit_sources(b, bb):
  """the tests whose edge leads straight (through gotos only) into block bb: [(condition description, truth of that edge)]"""
  from ..facts import describe_cond
  from ..intervals import fmt_desc
  out = []
  preds = b.preds()
  seen = set()
  work = [(p, bb) for p in preds.get(bb, [])]
  while work:
    p, child = work.pop()
    if (p, child) in seen:
      continue
    seen.add((p, child))
    t = b.blocks[p]['t']
    if t['k'] == 'switch':
      for lab, tgt in b.switch_edges(p):
        if tgt == child:
          vals = [v for v, _ in t['vals']]
          truth = (lab == 'otherwise' and vals == [0]) or (lab != 'otherwise' and bool(lab))
          out.append((fmt_desc(describe_cond(b, t['d'])), truth))
    elif t['k'] in ('goto',) and not b.blocks[p]['s']:
      work += [(q, p) for q in preds.get(p, [])]
    elif t['k'] == 'goto':
      work += [(q, p) for q in preds.get(p, [])]
  return out


def _before_in_iteration(b, an, h, x, y):
  """within one iteration of loop h, block y is never followed by block x (x can only be reached again through the head)"""
  return not reaches_avoiding(b, y, x, {h})


def _origin_variant(b, stm):
  fs = stm['rv'].get('fields') or []
  if 'origin' not in fs:
    return None
  for o in origins(b, stm['rv']['ops'][fs.index('origin')]):
    if o.kind == 'agg':
      return o.agg.get('variant')
  return None


def _lt_upvar(cb, upname):
  """closure returns `param < upvar`"""
  for blk in cb.blocks:
    for s in blk['s']:
      rv = s.get('rv') or {}
      if rv.get('k') == 'bin' and rv.get('op') == 'Lt':
        ob = origins(cb, rv['b'])
        if any(o.kind == 'upvar' and o.name == upname for o in ob):
          return True
  return False


def _returns_field(cb, fname):
  for o in origins(cb, {'c': {'l': 0}}):
    if o.kind == 'param' and fname in o.fields:
      return True
  return False


# sensitivity pack (thorough tier)
_IU = 'src/index/updater/inscription_updater.rs'
MUTANTS = [
  {'name': 'seeded-C03-a', 'patch': 'C03-a/patch.diff', 'expect': ('R3.2', 'index_inscriptions', 'the output loop walks exactly tx.output')},
  {'name': 'seeded-C03-b', 'patch': 'C03-b/patch.diff', 'expect': ('R3.6', 'index_inscriptions', 'unrecognized_even_field')},

  {'name': 'carried inscriptions float at their old offset only (earlier inputs ignored)', 'file': _IU, 'old': '        let offset = total_input_value + old_satpoint_offset;', 'new': '        let offset = old_satpoint_offset;', 'expect': ('R3.1', 'index_inscriptions', 'carried inscription: offset')},
  {'name': 'new inscriptions default to the end of their input', 'file': _IU, 'old': '      let offset = total_input_value;\n\n      let input_value = input_utxo_entries[input_index].total_value();\n      total_input_value += input_value;', 'new': '      let input_value = input_utxo_entries[input_index].total_value();\n      total_input_value += input_value;\n\n      let offset = total_input_value;', 'expect': ('R3.1', 'index_inscriptions', 'new inscription: default offset')},
  {'name': 'an inscription on the first sat of the next output is placed in this one', 'file': _IU, 'old': '        if flotsam.offset >= end {', 'new': '        if flotsam.offset > end {', 'expect': ('R3.2', 'index_inscriptions', 'placed offset')},
  {'name': 'placed offset measured from the transaction start', 'file': _IU, 'old': '          offset: flotsam.offset - output_value,\n        };\n\n        new_locations.push((', 'new': '          offset: flotsam.offset,\n        };\n\n        new_locations.push((', 'expect': ('R3.2', 'index_inscriptions', 'placed offset')},
  {'name': 'fee-spent inscriptions re-based without the reward collected so far', 'file': _IU, 'old': '        offset: self.reward + flotsam.offset - output_value,', 'new': '        offset: flotsam.offset - output_value,', 'expect': ('R3.3', 'closure', 'carried offset')},
  {'name': 'reward grows by the whole input value', 'file': _IU, 'old': '      self.reward += total_input_value - output_value;', 'new': '      self.reward += total_input_value;', 'expect': ('R3.3', 'index_inscriptions', "self.reward'")},
  {'name': 'lost inscriptions located without the lost sats so far', 'file': _IU, 'old': '          offset: self.lost_sats + flotsam.offset - output_value,', 'new': '          offset: flotsam.offset - output_value,', 'expect': ('R3.3', 'index_inscriptions', 'lost offset')},
  {'name': 'calculate_sat: hit one range late', 'file': _IU, 'old': '      if offset + size > input_offset {', 'new': '      if offset + size >= input_offset {', 'expect': ('R3.4', 'calculate_sat', 'hit')},
  {'name': 'calculate_sat: sat measured from the range end', 'file': _IU, 'old': '        let n = start + input_offset - offset;', 'new': '        let n = end + input_offset - offset;', 'expect': ('R3.4', 'calculate_sat', 'hit')},
  {'name': 'Burned only for inscriptions that are not cursed', 'file': _IU, 'old': '        if op_return {\n          Charm::Burned.set(&mut charms);\n        }\n\n        if new_satpoint', 'new': '        if op_return && !cursed {\n          Charm::Burned.set(&mut charms);\n        }\n\n        if new_satpoint', 'expect': ('R3.5', 'update_inscription_location', 'Charm::Burned')},
  {'name': 'unbound counter not advanced', 'file': _IU, 'old': '      self.unbound_inscriptions += 1;\n', 'new': '', 'expect': ('R3.5', 'update_inscription_location', 'counter grows')},
]

# behaviour-preserving pack (thorough tier)
NEUTRAL = [
  {'name': 'calculate_sat: hit test commuted', 'file': _IU, 'old': '      if offset + size > input_offset {', 'new': '      if input_offset < size + offset {'},
  {'name': 'Lost test commuted', 'file': _IU, 'old': '        if new_satpoint.outpoint == OutPoint::null() {\n          Charm::Lost', 'new': '        if OutPoint::null() == new_satpoint.outpoint {\n          Charm::Lost'},
  {'name': 'carried offset sum commuted', 'file': _IU, 'old': '        let offset = total_input_value + old_satpoint_offset;', 'new': '        let offset = old_satpoint_offset + total_input_value;'},
  {'name': 'break test commuted', 'file': _IU, 'old': '        if flotsam.offset >= end {', 'new': '        if end <= flotsam.offset {'},
  {'name': 'running input value spelled out', 'file': _IU, 'old': '      total_input_value += input_value;', 'new': '      total_input_value = input_value + total_input_value;'},
  {'name': 'end folded into the update', 'file': _IU, 'old': '      output_value = end;\n    }\n\n    for (new_satpoint, flotsam, op_return) in new_locations.into_iter() {', 'new': '      output_value += txout.value.to_sat();\n    }\n\n    for (new_satpoint, flotsam, op_return) in new_locations.into_iter() {'},
  {'name': 'lost offset regrouped', 'file': _IU, 'old': '          offset: self.lost_sats + flotsam.offset - output_value,', 'new': '          offset: flotsam.offset - output_value + self.lost_sats,'},
]
