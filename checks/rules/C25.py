"""C25 — runestones round-trip; deciphering is total with the documented flaw order (DESIGN §5 C25).

Decides: R25.1 writer/reader agreement (same tag set, same arity per tag, each tag feeds/reads the same etching/terms field, same flag
set, edicts sorted before delta-encoding and accumulated with RuneId::next); R25.2 flaw priority as dominance order; R25.3 totality of
decipher/encipher (site inventory); R25.4 the payload is taken only from an output that starts with OP_RETURN, MAGIC_NUMBER.
Not decided: round-trip equality of values."""
import re
from ..core import where
from ..facts import origins, describe_operand
from ..intervals import fmt_desc
from ..panics import run_inventory, guard_strings
from ..tables.sites_C25 import TABLE
from .common import deep_origins

R = 'ordinals::runestone::Runestone::'
MSG = 'ordinals::runestone::message::Message::from_integers'
ASSUMPTIONS = ["bitcoin::script::Instructions, HashMap, VecDeque and Vec behave as documented; transactions come from consensus-valid blocks (output count < 2^32)"]


def _variant(body, op):
  d = describe_operand(body, op)
  m = re.match(r'^(Tag|Flag|Flaw)::(\w+)\{\}$', fmt_desc(d))
  return m.group(2) if m else None


def _arity(call):
  m = re.match(r'\[(\d+)_usize', call.f.get('ga') or '')
  return int(m.group(1)) if m else None


def run(ctx):
  F = ctx.facts
  ctx.rule('R25.1', 'encipher and decipher agree: same Tag set (Body aside), same arity per tag, each tag is written from and read into the same etching/terms/runestone field, same Flag set, '
           'edicts are sorted by id before delta-encoding and re-accumulated with RuneId::next')
  ctx.rule('R25.2', 'flaw priority: payload flaws (opcode / invalid script) return before varint decoding, the varint flaw returns before message parsing, message flaws are recorded first-wins with a break after each, '
           'then SupplyOverflow, UnrecognizedFlag, UnrecognizedEvenTag in that dominance order; a cenotaph keeps etching.rune and mint')
  ctx.rule('R25.3', 'site inventory over Runestone::{decipher, encipher, payload, integers}, Message::from_integers, Tag::{take, encode}, Flag::*, Edict::from_integers, RuneId::{next, delta}, Etching::supply')
  ctx.rule('R25.4', 'Runestone::payload yields a payload only from an output whose script starts with OP_RETURN followed by MAGIC_NUMBER (two guards leaving with `continue`)')
  enc = ctx.body('R25.1', R + 'encipher')
  dec = ctx.body('R25.1', R + 'decipher')
  fam = F.family(R + 'decipher')
  # ---------------- R25.1
  if enc is not None and dec is not None:
    ctx.analysed(enc, *fam)
    enc_tags = {}
    for c in enc.calls:
      if c.is_('re:tag::Tag::(encode|encode_option)$'):
        t = _variant(enc, c.args[0])
        ar = _arity(c) if c.is_('re:::encode$') else 1
        flds = set()
        for o in deep_origins(enc, c.args[1], all_args=True):
          if o.kind == 'param' and o.name == 'self':
            fs = [f for i, f in enumerate(o.fields) if not (f == '0' and i > 0 and o.fields[i - 1] in ('etching', 'terms'))]
            flds.add('.'.join(fs))
        enc_tags[t] = (ar, flds, c)
    dec_tags = {}
    for b in fam:
      for c in b.calls:
        if c.is_('re:tag::Tag::take$'):
          dec_tags[_variant(b, c.args[0])] = (_arity(c), c, b)
    ctx.floor('R25.1', 'tags written by encipher', len(enc_tags), 14)
    ctx.ob('R25.1', dec.n, 'tag set written == tag set read', set(enc_tags) == set(dec_tags), f'written only: {sorted(set(enc_tags) - set(dec_tags))}, read only: {sorted(set(dec_tags) - set(enc_tags))}', where(dec, dec.line))
    for t in sorted(set(enc_tags) & set(dec_tags), key=str):
      ctx.ob('R25.1', dec.n, f'Tag::{t}: arity written {enc_tags[t][0]} == arity read', enc_tags[t][0] == dec_tags[t][0], f'{enc_tags[t][0]} vs {dec_tags[t][0]}', where(dec_tags[t][2], dec_tags[t][1].line), nontrivial=False)
    # reader side: which field does each tag feed
    read_field = {}

    def tags_of(b, op, prefix):
      for o in origins(b, op):
        if o.kind == 'call' and o.call.is_('re:tag::Tag::take$'):
          read_field[_variant(b, o.call.args[0])] = prefix
        elif o.kind == 'call' and o.call.is_('re:flag::Flag::take$'):
          read_field['flag:' + str(_variant(b, o.call.args[0]))] = prefix
        elif o.kind == 'call' and o.call.is_('re:bool::then$|<impl bool>::then$'):
          for oo in origins(b, o.call.args[0]):
            if oo.kind == 'call' and oo.call.is_('re:flag::Flag::take$'):
              read_field['flag:' + str(_variant(b, oo.call.args[0]))] = prefix
        elif o.kind == 'agg' and o.agg.get('ak') == 'tuple':
          for i, sub in enumerate(o.agg['ops']):
            tags_of(b, sub, f'{prefix}.{i}')

    pre = {'Etching': 'etching', 'Terms': 'etching.terms', 'Runestone': ''}
    for b in fam:
      for blk in b.blocks:
        for s in blk['s']:
          rv = s.get('rv', {})
          if rv.get('k') == 'agg' and rv.get('ak') == 'adt' and rv['adt'].split('::')[-1] in pre:
            for f, op in zip(rv['fields'], rv['ops']):
              p = pre[rv['adt'].split('::')[-1]]
              tags_of(b, op, (p + '.' if p else '') + f)
    for t, (ar, flds, c) in sorted(enc_tags.items(), key=lambda x: str(x[0])):
      if t in ('Flags', 'Mint'):
        continue
      ctx.ob('R25.1', enc.n, f'Tag::{t} is written from the field it is read into', flds == {read_field.get(t)}, f'written from {sorted(flds)}, read into {read_field.get(t)}', where(enc, c.line))
    ctx.ob('R25.1', dec.n, 'Tag::Mint is read into Runestone.mint', read_field.get('Mint') == 'mint', f'{read_field.get("Mint")}', where(dec, dec.line))
    # flags
    set_flags = {_variant(enc, c.args[0]) for c in enc.calls if c.is_('re:flag::Flag::set$')}
    take_flags = {_variant(b, c.args[0]) for b in fam for c in b.calls if c.is_('re:flag::Flag::take$')}
    ctx.ob('R25.1', dec.n, 'flag set written == flag set read', set_flags == take_flags and len(set_flags) >= 3, f'{sorted(map(str, set_flags))} vs {sorted(map(str, take_flags))}', where(dec, dec.line))
    ctx.ob('R25.1', dec.n, 'Flag::Terms gates etching.terms and Flag::Turbo is read into etching.turbo', read_field.get('flag:Terms') == 'etching.terms' and read_field.get('flag:Turbo') == 'etching.turbo' and read_field.get('flag:Etching') == 'etching',
           f'{ {k: v for k, v in read_field.items() if str(k).startswith("flag:")} }', where(dec, dec.line))
    for c in enc.calls:
      if c.is_('re:flag::Flag::set$'):
        fl = _variant(enc, c.args[0])
        gs = [g for g in guard_strings(enc, c.bb)]
        want = {'Etching': r"^discr\(self\.etching\) in \['1'\]$", 'Terms': r'^Option::is_some\(.*terms\)==True$', 'Turbo': r'turbo==True$'}.get(fl)
        ctx.ob('R25.1', enc.n, f'Flag::{fl} is set exactly under its condition', want is not None and any(re.search(want, g) for g in gs) and len(gs) == {'Etching': 1, 'Terms': 2, 'Turbo': 2}.get(fl), f'{gs}', where(enc, c.line))
    # edict ordering
    srt = enc.calls_to('re:slice::<impl \\[T\\]>::sort_by_key$')
    dl = enc.calls_to('ordinals::rune_id::RuneId::delta')
    ctx.ob('R25.1', enc.n, 'edicts are sorted by id before delta-encoding', len(srt) == 1 and len(dl) == 1 and enc.dominates(srt[0].bb, dl[0].bb), '', where(enc, enc.line))
    if srt:
      keyfn = [F.bodies.get(d) for d in enc.slice_of([srt[0].args[1]], through_calls=False).closures]
      okk = any(kb is not None and any(str(f) == 'id' for f in kb.slice_of([{'l': 0}]).fields) for kb in keyfn)
      ctx.ob('R25.1', enc.n, 'the sort key is edict.id', okk, '', where(enc, srt[0].line))
    mb = ctx.body('R25.1', MSG)
    if mb is not None:
      ctx.ob('R25.1', mb.n, 'edict ids are accumulated with RuneId::next (inverse of delta)', len(mb.calls_to('ordinals::rune_id::RuneId::next')) == 1, '', where(mb, mb.line))
  # ---------------- R25.2
  if dec is not None:
    pay = dec.calls_to(R + 'payload')
    ints = dec.calls_to(R + 'integers')
    msg = dec.calls_to(MSG)
    ctx.anchor('R25.2', 'payload / integers / from_integers calls in decipher', len(pay) == 1 and len(ints) == 1 and len(msg) == 1, dec.n)
    if len(pay) == 1 and len(ints) == 1 and len(msg) == 1:
      ctx.ob('R25.2', dec.n, 'payload → integers → Message::from_integers in dominance order', dec.dominates(pay[0].bb, ints[0].bb) and dec.dominates(ints[0].bb, msg[0].bb), '', where(dec, dec.line))
      gs = guard_strings(dec, msg[0].bb)
      ctx.ob('R25.2', dec.n, 'message parsing happens only for a Valid payload whose varints all decoded', any(re.search(r"discr\(Runestone::integers\(.*\)\) in \['0'\]", g) for g in gs) and any('Runestone::payload' in g for g in gs), f'{gs}', where(dec, msg[0].line))
      goi = [c for c in dec.calls if c.is_('std::option::Option::get_or_insert')]
      order = [_variant(dec, c.args[1]) for c in sorted(goi, key=lambda c: c.bb)]
      ok = len(goi) == 3
      seq = ['SupplyOverflow', 'UnrecognizedFlag', 'UnrecognizedEvenTag']
      bys = {_variant(dec, c.args[1]): c for c in goi}
      ok = ok and set(bys) == set(seq)
      if ok:
        # dominance order: the merge point after each site dominates the next site; use reachability + no reverse reachability
        for a, b_ in zip(seq, seq[1:]):
          ok = ok and dec.reaches(bys[a].bb, bys[b_].bb) and not dec.reaches(bys[b_].bb, bys[a].bb)
        ok = ok and all(dec.dominates(msg[0].bb, c.bb) for c in goi)
      ctx.ob('R25.2', dec.n, 'late flaws are recorded first-wins in the order SupplyOverflow, UnrecognizedFlag, UnrecognizedEvenTag, after the message flaws', ok, f'{order}', where(dec, dec.line))
      # all three write into the flaw that came out of the message
      ctx.ob('R25.2', dec.n, 'the late flaws use get_or_insert on the message flaw (an earlier flaw wins)', all(any(o.kind == 'call' and o.call.is_(MSG) or 'flaw' in o.fields for o in deep_origins(dec, c.args[0])) for c in goi), '', where(dec, dec.line))
    cen = [s for blk in dec.blocks for s in blk['s'] if s.get('rv', {}).get('k') == 'agg' and (s['rv'].get('adt') or '').endswith('::Cenotaph')]
    full = [s for s in cen if any(o.kind == 'call' and o.call.is_('re:tag::Tag::take$') for o in origins(dec, dict(zip(s['rv']['fields'], s['rv']['ops']))['mint']))]
    okc = len(full) == 1 and any(o.kind == 'call' and o.call.is_('std::option::Option::and_then') for o in origins(dec, dict(zip(full[0]['rv']['fields'], full[0]['rv']['ops']))['etching']))
    ctx.ob('R25.2', dec.n, 'the cenotaph built after message parsing keeps mint and etching.rune', okc, f'{len(full)} cenotaph literal(s) carrying the taken mint', where(dec, dec.line))
  mb = F.body(MSG)
  if mb is not None:
    ctx.analysed(mb)
    goi = [c for c in mb.calls if c.is_('std::option::Option::get_or_insert')]
    fl = sorted(str(_variant(mb, c.args[1])) for c in goi)
    ctx.ob('R25.2', mb.n, 'message flaws recorded: EdictOutput, EdictRuneId, TrailingIntegers, TruncatedField', fl == ['EdictOutput', 'EdictRuneId', 'TrailingIntegers', 'TruncatedField'], f'{fl}', where(mb, mb.line))
    for c in goi:
      others = [o for o in goi if o is not c and mb.strictly_reaches(c.bb, o.bb)]
      pushes = [p for p in mb.calls if p.is_('re:(Vec::push|VecDeque::push_back)$') and mb.strictly_reaches(c.bb, p.bb)]
      ctx.ob('R25.2', mb.n, f'Flaw::{_variant(mb, c.args[1])} ends parsing (nothing is parsed or flagged after it)', not others and not pushes, f'after it: {len(others)} flaw sites, {len(pushes)} pushes', where(mb, c.line))
  # ---------------- R25.3
  run_inventory(ctx, 'R25.3', ['re:^ordinals::runestone::Runestone::(decipher|encipher|payload|integers)$'], TABLE, partition=(16 if ctx.tier == 'thorough' else 1),
                floor_fns=30, floor_sites=15, label='runestone decipher/encipher')
  # ---------------- R25.4
  pb = ctx.body('R25.4', R + 'payload')
  if pb is not None:
    val = [bi for bi, blk in enumerate(pb.blocks) for s in blk['s'] if s.get('rv', {}).get('k') == 'agg' and s['rv'].get('variant') in ('Valid', 'Invalid') and bi in pb.reachable_from(0)]
    ctx.floor('R25.4', 'Payload::Valid / Invalid construction sites', len(val), 3)
    for bi in val:
      gs = guard_strings(pb, bi)
      ne = [g for g in gs if g.startswith('Ne(') or g.startswith('PartialEq::ne(') or 'ne(' in g.split('==')[0]]
      okp = len([g for g in ne if g.endswith('==False')]) >= 2
      ctx.ob('R25.4', pb.n, 'a payload (valid or flawed) is produced only after both prefix comparisons succeeded', okp, f'{gs}', where(pb, pb.line))
    nes = [c for c in pb.calls if c.is_('std::cmp::PartialEq::ne')]
    pcs = []
    for c in sorted(nes, key=lambda c: c.bb):
      defs_ = []
      for o in origins(pb, c.args[1]):
        if o.kind == 'const' and isinstance(o.const, dict):
          defs_ += [(x.get('def') or '').split('::')[-1] for x in o.const.get('pc', [])]
      pcs.append((c, defs_))
    okp = len(pcs) == 2 and pcs[0][1] == ['OP_RETURN'] and pcs[1][1] == ['MAGIC_NUMBER'] and pb.dominates(pcs[0][0].bb, pcs[1][0].bb)
    ctx.ob('R25.4', pb.n, 'the first instruction is compared with OP_RETURN, then the second with Runestone::MAGIC_NUMBER', okp, f'{[d for _, d in pcs]}', where(pb, pb.line))
    mn = (F.consts.get('ordinals::runestone::Runestone::MAGIC_NUMBER') or {}).get('v')
    ctx.ob('R25.4', pb.n, 'MAGIC_NUMBER = OP_PUSHNUM_13 (0x5d)', mn == 0x5d, f'{mn}', where(pb, pb.line), nontrivial=False)


# sensitivity pack (thorough tier): each seeded edit must be reported by the named rule instance
MUTANTS = [{'name': 'seeded-C25-a', 'patch': 'C25-a/patch.diff', 'expect': ('R25.1', 'Runestone::encipher', 'sorted by id')},
           {'name': 'seeded-C25-b', 'patch': 'C25-b/patch.diff', 'expect': ('R25.2', 'Runestone::decipher', 'late flaws')},
           {'name': 'height-tags-swapped', 'file': 'crates/ordinals/src/runestone.rs', 'old': 'Tag::HeightStart.encode_option(terms.height.0, &mut payload);\n        Tag::HeightEnd.encode_option(terms.height.1, &mut payload);', 'new': 'Tag::HeightStart.encode_option(terms.height.1, &mut payload);\n        Tag::HeightEnd.encode_option(terms.height.0, &mut payload);', 'expect': ('R25.1', 'encipher', 'Tag::HeightEnd')},
           {'name': 'flaw-does-not-stop-parsing', 'file': 'crates/ordinals/src/runestone/message.rs', 'old': '            flaw.get_or_insert(Flaw::EdictRuneId);\n            break;', 'new': '            flaw.get_or_insert(Flaw::EdictRuneId);\n            continue;', 'expect': ('R25.2', 'from_integers', 'EdictRuneId')}]


# behaviour-preserving edits (thorough tier): the rules must stay silent on every one of them
NEUTRAL = [{'name': 'encipher: two independent tags written in another order', 'file': 'crates/ordinals/src/runestone.rs', 'old': '      Tag::Divisibility.encode_option(etching.divisibility, &mut payload);\n      Tag::Spacers.encode_option(etching.spacers, &mut payload);', 'new': '      Tag::Spacers.encode_option(etching.spacers, &mut payload);\n      Tag::Divisibility.encode_option(etching.divisibility, &mut payload);'}]
