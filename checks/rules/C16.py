"""C16 — indexing a valid chain never fails (DESIGN §5 C16).

Decides the necessary clause "the parsers that sit on the indexing path are total": zero undischarged panic-capable site in the closure of
ParsedEnvelope::from_transaction, Runestone::decipher, Properties::from_cbor, the Inscription accessors the updater calls,
unversioned_leaf_script_from_witness and Index::decode_rune_balance (R16.1); and the two assert!s of RuneUpdater::index_runes are
backed by producer-side guards (R16.2).  NOT decided: failures that depend on index invariants (unwrap() of table lookups, Lot
overflow, the fetcher channel) — the inventory of those sites is reported as information only."""
import re
from ..core import where
from ..facts import describe_operand
from ..intervals import fmt_desc
from ..panics import run_inventory, guard_strings, closure
from ..tables.sites_C16 import TABLE

ASSUMPTIONS = ["only adversarial *chain data* is considered (witnesses, scripts, OP_RETURN payloads, CBOR); index-internal invariants (stored entries decode, table lookups of ids just written succeed) are not decided",
               "transactions come from consensus-valid blocks (input / output counts far below 2^32)"]
ENTRIES = [
    're:^ord::inscriptions::envelope::Envelope.*::from_transaction$', 're:^ordinals::runestone::Runestone::decipher$', 're:^ord::properties::Properties::from_cbor$',
    're:^ord::inscriptions::inscription::Inscription::(pointer|parents|delegate|properties|hidden|content_type|content_encoding|metaprotocol|body|content_length|media|rune|metadata)$',
    're:unversioned_leaf_script_from_witness$', 're:^ord::index::Index::decode_rune_balance$',
]
IR = 'ord::index::updater::rune_updater::RuneUpdater::index_runes'


def run(ctx):
  F = ctx.facts
  ctx.rule('R16.1', 'site inventory over the chain-data parsers on the indexing path (envelopes, runestones, properties, inscription accessors, tapscript extraction, rune balance decoding): every panic-capable site is discharged')
  ctx.rule('R16.2', 'the assert!s of RuneUpdater::index_runes hold by construction: every Edict of a deciphered runestone comes from Edict::from_integers, which returns Some only under ¬(output > tx.output.len()), '
           'and the runestone pointer is kept only under pointer < tx.output.len(); the allocation vector has tx.output.len() elements')
  ctx.rule('R16.3', 'no UTXO entry is built out of protocol (the builder asserts its protocol at run time in debug builds, and a release build would store a misaligned entry that a later block fails to parse): '
           'typestate of every UtxoEntryBuf local, the obligations of C35 R35.5')
  ctx.rule('R16.4', 'the spend path panics when the address-index row of a spent output is missing, so Updater::commit must write that row for every stored entry, guarded by index_addresses only '
           '(and remove it in lockstep with the entry): the obligations of C17 R17.1 / R17.2')
  from .common import Relabel
  from . import C35 as _c35, C17 as _c17
  _c35._r35_5(Relabel(ctx, 'R16.3'))
  _c17.run(Relabel(ctx, 'R16.4', keep=lambda rule, desc: rule in ('R17.1', 'R17.2')))
  out, pred = run_inventory(ctx, 'R16.1', ENTRIES, TABLE, partition=(16 if ctx.tier == 'thorough' else 1), floor_fns=70, floor_sites=25, label='chain-data parsers on the indexing path')
  # the updater really uses these parsers (the closure claimed is the one on the indexing path)
  ib, _ = closure(F, ['ord::index::updater::Updater::index_block'])
  reach = {F.bodies[p].n for p in ib}
  for need in ('ord::inscriptions::envelope::Envelope::from_transaction', 'ordinals::runestone::Runestone::decipher', 'ord::inscriptions::inscription::Inscription::pointer', 'ord::inscriptions::inscription::Inscription::parents'):
    ctx.ob('R16.1', need, 'parser is reachable from Updater::index_block', need in reach, '', nontrivial=False)
  # ---- R16.2
  ef = ctx.body('R16.2', 'ordinals::edict::Edict::from_integers')
  if ef is not None:
    somes = [bi for bi, blk in enumerate(ef.blocks) for s in blk['s'] if s.get('rv', {}).get('k') == 'agg' and s['rv'].get('variant') == 'Some' and s.get('p', {}).get('l') == 0 and bi in ef.reachable_from(0)]
    ctx.anchor('R16.2', 'Some(..) return of Edict::from_integers', len(somes) == 1, ef.n)
    for bi in somes:
      gs = guard_strings(ef, bi, forms=True)
      ctx.ob('R16.2', ef.n, 'Some only under ¬(output > tx.output.len())', any(re.match(r'^Gt\(.*output.*,Result::unwrap\(.*try_from\(Vec::len\(tx\.output\)\)\)\)==False$', g) for g in gs), f'{gs}', where(ef, ef.line))
  dec, _ = closure(F, ['ordinals::runestone::Runestone::decipher'])
  makers = set()
  for p in dec:
    b = F.bodies[p]
    for blk in b.blocks:
      for s in blk['s']:
        if s.get('rv', {}).get('k') == 'agg' and (s['rv'].get('adt') or '').endswith('::Edict'):
          makers.add(b.n)
  ctx.ob('R16.2', 'ordinals::runestone::Runestone::decipher', 'edicts of a deciphered runestone are built only by Edict::from_integers', makers == {'ordinals::edict::Edict::from_integers'}, f'{sorted(makers)}')
  ptr_ok = False
  for b in F.family('ordinals::runestone::Runestone::decipher'):
    for c in b.calls:
      if c.is_('re:<impl bool>::then_some$|bool::then_some$'):
        d = fmt_desc(describe_operand(b, c.args[0]))
        if re.match(r'^Lt\(num::from\(.*\),Result::unwrap\(.*try_from\(Vec::len\(.*transaction\.output\)\)\)\)$', d):
          # the kept value is the very value that was compared
          kept = fmt_desc(describe_operand(b, c.args[1]))
          if kept and kept in d:
            ptr_ok = True
  ctx.ob('R16.2', 'ordinals::runestone::Runestone::decipher', 'the pointer is kept only under pointer < transaction.output.len()', ptr_ok, '')
  ir = ctx.body('R16.2', IR)
  if ir is not None:
    fe = ir.calls_to('std::vec::from_elem')
    okv = any('Vec::len(tx.output)' in fmt_desc(describe_operand(ir, c.args[1])) for c in fe)
    ctx.ob('R16.2', ir.n, 'allocated has tx.output.len() elements', okv, f'{[fmt_desc(describe_operand(ir, c.args[1])) for c in fe]}', where(ir, ir.line))
  if ctx.tier == 'thorough':
    # information only: how many invariant-dependent sites the full indexing path contains
    from ..core import Ctx
    sub = Ctx(ctx.pid, ctx.tier, F)
    run_inventory(sub, 'info', ['ord::index::updater::Updater::index_block'], TABLE, partition=1)
    n_bad = sum(1 for o in sub.obligations if not o['ok'])
    ctx.informational(f'full indexing path (closure of Updater::index_block): {len(sub.obligations)} sites, {n_bad} of them depend on index invariants or configuration and are NOT decided by this check')


# sensitivity pack (thorough tier): each seeded edit must be reported by the named rule instance
MUTANTS = [
  {'name': 'seeded-C16-a', 'patch': 'C16-a/patch.diff', 'expect': ('R16.3', 'index_utxo_entries', 'index_addresses = true')},
  {'name': 'seeded-C16-b', 'patch': 'C16-b/patch.diff', 'expect': ('R16.4', 'Updater::commit', 'lockstep')},
{'name': 'edict-output-guard-dropped', 'file': 'crates/ordinals/src/edict.rs', 'old': '    if output > u32::try_from(tx.output.len()).unwrap() {\n      return None;\n    }\n', 'new': '', 'expect': ('R16.2', 'Edict::from_integers', 'Some only under')}]


# behaviour-preserving edits (thorough tier): the rules must stay silent on every one of them
NEUTRAL = [{'name': 'from_value: flipped comparison and a let binding', 'file': 'src/inscriptions/inscription_id.rs', 'old': '    if value.len() < Txid::LEN {\n      return None;\n    }\n\n    if value.len() > Txid::LEN + 4 {\n      return None;\n    }', 'new': '    let n = value.len();\n    if Txid::LEN > n {\n      return None;\n    }\n\n    if n > Txid::LEN + 4 {\n      return None;\n    }'}]
