"""C34 — displayed rune amounts parse back (DESIGN §5 C34).

Decides: panic / wrap-around freedom of Decimal::{from_str, to_integer, fmt} and Pile::fmt (site inventory), and that
to_integer reports excess precision and overflow through checked operations whose None results leave with an error.
Not decided: the round-trip equality itself."""
from ..core import where
from ..panics import run_inventory
from ..tables.sites_C34 import TABLE
from .common import success_return_blocks

ASSUMPTIONS = ["Pile divisibility <= 38 (the property's domain)", "core::fmt machinery (write!, padding) is total"]
ENTRIES = [
    're:^<ord::decimal::Decimal as std::(str::FromStr>::from_str|fmt::Display>::fmt)$',
    're:^ord::decimal::Decimal::to_integer$',
    're:^<ordinals::pile::Pile as std::fmt::Display>::fmt$',
]
REQUIRED = ['<ord::decimal::Decimal as std::str::FromStr>::from_str', '<ord::decimal::Decimal as std::fmt::Display>::fmt', 'ord::decimal::Decimal::to_integer',
            '<ordinals::pile::Pile as std::fmt::Display>::fmt']


def run(ctx):
  ctx.rule('R34.1', 'panic/wrap-site inventory over Decimal::from_str, Decimal::to_integer, Decimal::fmt and Pile::fmt: every site discharged by range analysis, idiom or reviewed entry')
  ctx.rule('R34.2', 'Decimal::to_integer combines scale, divisibility and value only through checked_sub / checked_pow / checked_mul, and each None result leaves with an error (excess precision / out of range)')
  for e in REQUIRED:
    ctx.body('R34.1', e)
  run_inventory(ctx, 'R34.1', ENTRIES, TABLE, partition=(16 if ctx.tier == 'thorough' else 1), floor_fns=4, floor_sites=8, label='decimal/pile printing and parsing')
  b = ctx.body('R34.2', 'ord::decimal::Decimal::to_integer')
  if b is not None:
    want = {'checked_sub': 'excess precision', 'checked_pow': 'divisibility out of range', 'checked_mul': 'amount out of range'}
    for m, meaning in want.items():
      cs = [c for c in b.calls if (c.name or '').endswith('::' + m)]
      ctx.ob('R34.2', b.n, f'exactly one {m}', len(cs) == 1, f'{len(cs)} calls', where(b, b.line))
      for c in cs:
        # the Option result must decide a branch one of whose sides cannot reach a success return
        from ..guards import all_guards
        okf = False
        for rb in success_return_blocks(b):
          for g in all_guards(b, rb):
            if c in g.slice().calls and b.dominates(g.bb, rb):
              okf = True
        ctx.ob('R34.2', b.n, f'None from {m} cannot reach Ok ({meaning})', okf, 'the checked result does not guard the success return', where(b, c.line))
    # no primitive arithmetic at all
    prim = [s for blk in b.blocks for s in blk['s'] if s.get('rv', {}).get('k') == 'bin' and s['rv']['op'].replace('WithOverflow', '') in ('Add', 'Sub', 'Mul', 'Shl', 'Div', 'Rem')]
    ctx.ob('R34.2', b.n, 'no primitive integer arithmetic', not prim, f'{len(prim)} primitive arithmetic rvalues', where(b, b.line))


# sensitivity pack (thorough tier): each seeded edit must be reported by the named rule instance
MUTANTS = [
  {'name': 'seeded-C34-a', 'patch': 'C34-a/patch.diff', 'expect': ('R34.2', 'Decimal::to_integer', '')},
{'name': 'decimal-scale-unchecked-again', 'file': 'src/decimal.rs', 'old': '        value: 10u128\n          .checked_pow(u32::from(scale))\n          .and_then(|multiplier| integer.checked_mul(multiplier))\n          .and_then(|integer| integer.checked_add(decimal))\n          .context("decimal out of range")?,', 'new': '        value: integer * 10u128.pow(u32::from(scale)) + decimal,', 'expect': ('R34.1', 'Decimal as std::str::FromStr', 'arith:')}]
