"""C11 — only valid etchings create runes, with unique names, IDs and numbers (DESIGN §5 C11)."""
from ..core import where
from ..facts import norm, origins, guards_of
from ..guards import all_guards, find_cmp, names_of, unavoidable_after_enabler, call_polarity
from ..tables_id import TableId
from .common import success_return_blocks, result_is_checked, short, reaches_avoiding

ETCHED = 'ord::index::updater::rune_updater::RuneUpdater::etched'
COMMITS = 'ord::index::updater::rune_updater::RuneUpdater::tx_commits_to_rune'
CREATE = 'ord::index::updater::rune_updater::RuneUpdater::create_rune_entry'
INDEX_BLOCK = 'ord::index::updater::Updater::index_block'
INDEX_RUNES = 'ord::index::updater::rune_updater::RuneUpdater::index_runes'

ASSUMPTIONS = ["uniqueness of names/ids over histories and the minimum-name schedule (C33) are not decided; only the guards under which a rune is created"]


def has(*xs):
  return lambda names: all(x in names for x in xs)


def _some_returns(body):
  """blocks assigning _0 = Ok(Some(..))"""
  out = []
  for d in body.defs().get(0, []):
    if d['kind'] == 'assign' and d['rv']['k'] == 'agg' and d['rv'].get('variant') == 'Ok':
      sl = body.slice_of([d['rv']['ops'][0]], through_calls=False)
      if ('std::option::Option', 'Some') in sl.adts:
        out.append(d['bb'])
  return out


def run(ctx):
  F = ctx.facts
  T = TableId(F)
  ctx.rule('R11.1', 'RuneUpdater::etched returns Some for a named etching only under ¬(rune < self.minimum), ¬rune.is_reserved(), ¬rune_to_id.get(rune).is_some(), tx_commits_to_rune(tx, rune); '
           'in the Cenotaph arm the name is always Some (an unnamed cenotaph etching returns None); the id is {block: self.height, tx: tx_index}')
  ctx.rule('R11.2', 'tx_commits_to_rune returns true only under: pushed bytes == rune.commitment(), the spent output is_p2tr(), confirmations >= Runestone::COMMIT_CONFIRMATIONS')
  ctx.rule('R11.3', 'create_rune_entry writes RUNE_TO_RUNE_ID, TRANSACTION_ID_TO_RUNE, RUNE_ID_TO_RUNE_ENTRY and Statistic::Runes on every success path; number <- self.runes read before its single += 1')
  ctx.rule('R11.4', 'the runes branch of index_block is guarded by index_runes and height >= first_rune_height(); create_rune_entry is called only with the result of etched')

  eb = ctx.body('R11.1', ETCHED)
  if eb is not None:
    sinks = _some_returns(eb)
    ctx.anchor('R11.1', 'Ok(Some(..)) return in etched', len(sinks) == 1, eb.n)
    if len(sinks) == 1:
      sink = sinks[0]
      gs = all_guards(eb, sink)
      lt = find_cmp(gs, 'Lt', lambda n: True, has('minimum'), False)
      ctx.ob('R11.1', eb.n, 'Some requires ¬(rune < self.minimum)', len(lt) == 1, f'guards: {[(g.atom, g.pol) for g in gs]}', where(eb, eb.line))
      req = [('rune.is_reserved()', r'Rune::is_reserved$', False), ('rune_to_id.get(rune).is_some()', r'Option::is_some$', False), ('tx_commits_to_rune(tx, rune)', r'tx_commits_to_rune$', True)]
      found_all = list(lt)
      for label, rx, want in req:
        fs = [g for g in gs if call_polarity(g, rx) == want]
        if rx.startswith('Option'):
          fs = [g for g in fs if any(c.is_('re:ReadableTable>::get$') and 'RUNE_TO_RUNE_ID' in T.of_operand(eb, c.args[0]) for c in eb.slice_of([eb.term(g.bb)['d']]).calls)]
        ctx.ob('R11.1', eb.n, f'Some requires {"" if want else "¬"}{label}', len(fs) == 1, f'guards: {[(g.atom, g.pol) for g in gs]}', where(eb, eb.line))
        found_all += fs
      # the named-path guards are unavoidable once the name is Some
      for g in found_all:
        ctx.ob('R11.1', eb.n, f'named-etching guard at bb{g.bb} cannot be bypassed', unavoidable_after_enabler(eb, g, sink) or _chain_ok(eb, g, found_all, sink), 'a name check can be skipped', where(eb, g.line))
      # all the guards must test the same rune value that is returned
      # Cenotaph arm: rune is always Some
      arts = [bi for bi in eb.reachable_from(0) if eb.term(bi)['k'] == 'switch' and _discr_of_param(eb, bi, 'artifact')]
      ctx.anchor('R11.1', 'match on the artifact kind in etched', len(arts) >= 1, eb.n)
      adt = F.adts.get('ordinals::artifact::Artifact') or F.adts.get('ordinals::Artifact')
      if arts and adt is None:
        # ordinals is another crate: variants by name through downcast projections
        pass
      if arts:
        sw = arts[0]
        cen_t = None
        for lab, tgt in eb.switch_edges(sw):
          if _edge_variant(eb, tgt) == 'Cenotaph':
            cen_t = tgt
        ctx.anchor('R11.1', 'Cenotaph arm of etched', cen_t is not None, eb.n)
        if cen_t is not None:
          # definitions of Option<Rune>-typed locals in blocks dominated by the cenotaph edge that flow to the `rune` decision
          bad = []
          n_defs = 0
          for l, ds in eb.defs().items():
            if 'std::option::Option<ordinals::Rune>' not in eb.local_ty(l) and 'std::option::Option<ordinals::rune::Rune>' not in eb.local_ty(l):
              continue
            for d in ds:
              if d['kind'] == 'assign' and eb.dominates(cen_t, d['bb']) and not eb.dominates(_other_arm(eb, sw, cen_t), d['bb']):
                n_defs += 1
                rv = d['rv']
                if not (rv['k'] == 'agg' and rv.get('variant') == 'Some'):
                  # copies of the matched Some payload are fine only if they are under a Some-edge; a raw copy of cenotaph.etching is not
                  bad.append((l, rv['k']))
          ctx.ob('R11.1', eb.n, 'Cenotaph arm: the etched name is constructed as Some(rune) (unnamed cenotaph etching cannot reach the reserved-name path)',
                 n_defs >= 1 and not bad, f'cenotaph arm may pass a None name on: {bad}', where(eb, eb.line))
          # and the None sub-arm returns Ok(None): from cen_t, every path to the join passes the Some aggregate
      # RuneId aggregate
      ids = [(bi, s) for bi, blk in enumerate(eb.blocks) for s in blk['s'] if s.get('rv', {}).get('k') == 'agg' and norm(s['rv'].get('adt') or '') in ('ordinals::rune_id::RuneId', 'ordinals::RuneId')]
      ctx.anchor('R11.1', 'RuneId literal in etched', len(ids) == 1, eb.n)
      for bi, s in ids:
        fo = dict(zip(s['rv']['fields'], s['rv']['ops']))
        bo = eb.slice_of([fo['block']])
        to = origins(eb, fo['tx'])
        ctx.ob('R11.1', eb.n, 'RuneId{block<-self.height, tx<-tx_index}', 'height' in bo.fields and any(o.kind == 'param' and o.name == 'tx_index' for o in to), f'{bo.describe()} / {to}', where(eb, s['l']))
      # reserved path: name from Rune::reserved(self.height, tx_index) and ReservedRunes counter incremented
      rs = eb.calls_to('re:Rune::reserved$')
      ctx.anchor('R11.1', 'Rune::reserved call', len(rs) == 1, eb.n)
      for c in rs:
        a0, a1 = eb.slice_of([c.args[0]]), origins(eb, c.args[1])
        ctx.ob('R11.1', eb.n, 'Rune::reserved(self.height, tx_index)', 'height' in a0.fields and any(o.kind == 'param' and o.name == 'tx_index' for o in a1), '', where(eb, c.line))

  cb = ctx.body('R11.2', COMMITS)
  if cb is not None:
    trues = [d['bb'] for d in cb.defs().get(0, []) if d['kind'] == 'assign' and d['rv']['k'] == 'agg' and d['rv'].get('variant') == 'Ok' and cb.const_of(d['rv']['ops'][0]) is True]
    ctx.anchor('R11.2', 'Ok(true) return in tx_commits_to_rune', len(trues) == 1, cb.n)
    if len(trues) == 1:
      sink = trues[0]
      gs = [g for g in all_guards(cb, sink) if cb.dominates(g.bb, sink)]
      p2 = [g for g in gs if call_polarity(g, r'is_p2tr$') is True]
      ctx.ob('R11.2', cb.n, 'true requires is_p2tr()', len(p2) == 1, f'{[(g.atom, g.pol) for g in gs]}', where(cb, cb.line))
      ge = find_cmp(gs, 'Ge', lambda n: True, has('ordinals::runestone::Runestone::COMMIT_CONFIRMATIONS'), True) or find_cmp(gs, 'Ge', lambda n: True, lambda n: any(isinstance(x, str) and x.endswith('COMMIT_CONFIRMATIONS') for x in n), True)
      ctx.ob('R11.2', cb.n, 'true requires confirmations >= COMMIT_CONFIRMATIONS', len(ge) == 1, f'{[(g.atom, g.pol) for g in gs]}', where(cb, cb.line))
      for g in ge:
        sl = cb.slice_of([cb.term(g.bb)['d']])
        lhs = [a for o, a, b_, p_ in g.forms() if o == 'Ge' and p_ is True][0]
        exact = isinstance(lhs, tuple) and lhs[0] == 'bin' and lhs[1] == 'Add' and lhs[3] == ('const', 1) and _count_bin(lhs) == 1
        ctx.ob('R11.2', cb.n, 'confirmations = self.height.checked_sub(commit height) + 1', exact and sl.has_call('re:checked_sub$') and 'height' in sl.fields and sl.has_call('re:get_block_header_info$'),
               sl.describe(), where(cb, g.line))
      ne = find_cmp(gs, 'Ne', lambda n: 'as_bytes' in n or 'push_bytes' in n, has('commitment'), False)
      ctx.ob('R11.2', cb.n, 'true requires pushed bytes == rune.commitment()', len(ne) == 1, f'{[(g.atom, g.pol) for g in gs]}', where(cb, cb.line))
      cm = cb.calls_to('re:Rune::commitment$')
      for c in cm:
        ctx.ob('R11.2', cb.n, 'commitment of the rune parameter', any(o.kind == 'param' and o.name == 'rune' for o in origins(cb, c.args[0])), '', where(cb, c.line))
      # the taproot test is about the output spent by this input
      for g in p2:
        sl = cb.slice_of([cb.term(g.bb)['d']])
        ctx.ob('R11.2', cb.n, 'is_p2tr() of tx_info.vout[input.previous_output.vout]', sl.has_call('re:get_raw_transaction_info$') and 'previous_output' in sl.fields and 'vout' in sl.fields, sl.describe(), where(cb, g.line))

  cr = ctx.body('R11.3', CREATE)
  if cr is not None:
    ws = T.writes([cr])
    need = {'RUNE_TO_RUNE_ID': None, 'TRANSACTION_ID_TO_RUNE': None, 'RUNE_ID_TO_RUNE_ENTRY': None, 'STATISTIC_TO_COUNT': None}
    for c, k, t in ws:
      for tb in t:
        if tb in need and k == 'insert':
          need[tb] = c
    srb = success_return_blocks(cr)
    for tb, c in need.items():
      ctx.ob('R11.3', cr.n, f'{tb}.insert on every success path', c is not None and all(cr.dominates(c.bb, rb) for rb in srb) and result_is_checked(cr, c), 'a rune can be created without this table being written', where(cr, c.line if c else cr.line))
    if all(need.values()):
      def pn(op):
        return {o.name for o in origins(cr, op) if o.kind == 'param'} | {o.name for c_ in origins(cr, op) if c_.kind == 'call' for a in c_.call.args for o in origins(cr, a) if o.kind == 'param'}
      c = need['RUNE_TO_RUNE_ID']
      ctx.ob('R11.3', cr.n, 'RUNE_TO_RUNE_ID.insert(rune, id)', pn(c.args[1]) == {'rune'} and pn(c.args[2]) == {'id'}, f'{pn(c.args[1])} {pn(c.args[2])}', where(cr, c.line))
      c = need['TRANSACTION_ID_TO_RUNE']
      ctx.ob('R11.3', cr.n, 'TRANSACTION_ID_TO_RUNE.insert(txid, rune)', pn(c.args[1]) == {'txid'} and pn(c.args[2]) == {'rune'}, f'{pn(c.args[1])} {pn(c.args[2])}', where(cr, c.line))
      c = need['RUNE_ID_TO_RUNE_ENTRY']
      ctx.ob('R11.3', cr.n, 'RUNE_ID_TO_RUNE_ENTRY.insert(id, entry)', pn(c.args[1]) == {'id'}, f'{pn(c.args[1])}', where(cr, c.line))
      c = need['STATISTIC_TO_COUNT']
      ks = cr.slice_of([c.args[1]])
      ctx.ob('R11.3', cr.n, 'Statistic::Runes <- self.runes', ('ord::index::Statistic', 'Runes') in ks.adts and any(o.kind == 'param' and 'runes' in o.fields for o in origins(cr, c.args[2])), ks.describe(), where(cr, c.line))
    # number
    from .C10 import _incs
    incs = _incs(cr, 'runes')
    ctx.ob('R11.3', cr.n, 'self.runes has exactly one += 1', len(incs) == 1, f'{incs}', where(cr, cr.line))
    entries = [(bi, si, s) for bi, blk in enumerate(cr.blocks) for si, s in enumerate(blk['s']) if s.get('rv', {}).get('k') == 'agg' and norm(s['rv'].get('adt') or '') == 'ord::index::entry::RuneEntry']
    ctx.floor('R11.3', 'RuneEntry literals in create_rune_entry', len(entries), 2)
    for ei, (bi, si, s) in enumerate(entries):
      fo = dict(zip(s['rv']['fields'], s['rv']['ops']))
      no = origins(cr, fo['number'])
      pre = False
      for o in no:
        if o.kind == 'param' and 'runes' in o.fields:
          pre = True
      # the read of self.runes into `number` precedes the increment
      reads = _field_reads(cr, 'runes')
      writes_ = _field_writes(cr, 'runes')
      # the read that feeds `number` must come before the (single) write of self.runes
      order = bool(reads) and len(writes_) == 1 and any(_before(cr, r, writes_[0]) for r in reads if r[2] in _locals_feeding(cr, fo['number']))
      ctx.ob('R11.3', cr.n, f'RuneEntry.number <- self.runes before the increment (literal#{ei})', pre and order, f'{no}', where(cr, s['l']))
      ctx.ob('R11.3', cr.n, f'RuneEntry.block <- id.block, etching <- txid (literal#{ei})',
             any(o.kind == 'param' and o.name == 'id' and 'block' in o.fields for o in origins(cr, fo['block'])) and any(o.kind == 'param' and o.name == 'txid' for o in origins(cr, fo['etching'])), '', where(cr, s['l']))
      ctx.ob('R11.3', cr.n, f'RuneEntry.mints = 0, burned = 0 (literal#{ei})', cr.const_of(fo['mints']) == 0 and cr.const_of(fo['burned']) == 0, '', where(cr, s['l']))

  ib = ctx.body('R11.4', INDEX_BLOCK)
  if ib is not None:
    irs = ib.calls_to(INDEX_RUNES)
    ctx.anchor('R11.4', 'index_runes call in index_block', len(irs) == 1, ib.n)
    for c in irs:
      gs = [g for g in all_guards(ib, c.bb) if ib.dominates(g.bb, c.bb)]
      ge = find_cmp(gs, 'Ge', has('height'), has('first_rune_height'), True)
      ctx.ob('R11.4', ib.n, 'runes indexed only when self.height >= first_rune_height()', len(ge) == 1, f'{[(g.atom, g.pol) for g in gs if g.pol is not None]}', where(ib, c.line))
      fl = [g for g in guards_of(ib, c.bb) if 'index_runes' in g.slice().fields]
      ctx.ob('R11.4', ib.n, 'runes indexed only when index.index_runes', len(fl) == 1, '', where(ib, c.line))
  ir = ctx.body('R11.4', INDEX_RUNES)
  if ir is not None:
    crs = ir.calls_to(CREATE)
    ets = ir.calls_to(ETCHED)
    ctx.anchor('R11.4', 'etched / create_rune_entry calls in index_runes', len(crs) == 1 and len(ets) == 1, ir.n)
    if len(crs) == 1 and len(ets) == 1:
      c, e = crs[0], ets[0]
      ok = all(any(o.kind == 'call' and o.call is e for o in origins(ir, c.args[i])) for i in (3, 4))
      ctx.ob('R11.4', ir.n, 'create_rune_entry(id, rune) <- etched(..) result', ok and ir.dominates(e.bb, c.bb), 'a rune entry is created from something other than a validated etching', where(ir, c.line))
      ctx.ob('R11.4', ir.n, 'etched / create_rune_entry results tested', result_is_checked(ir, c) and result_is_checked(ir, e), '', where(ir, c.line))
  sites = F.call_sites(CREATE)
  ctx.ob('R11.4', '', 'create_rune_entry has a single call site', len(sites) == 1, f'{sites}', None)


def _count_bin(d):
  if not isinstance(d, tuple):
    return 0
  n = 1 if d and d[0] == 'bin' else 0
  for x in d[1:]:
    if isinstance(x, tuple):
      n += _count_bin(x)
  return n


def _field_reads(body, field):
  out = []
  for bi, blk in enumerate(body.blocks):
    if blk['cleanup']:
      continue
    for si, st in enumerate(blk['s']):
      rv = st.get('rv')
      if rv and rv['k'] == 'use':
        pl = rv['o'].get('c') or rv['o'].get('m')
        if pl and pl['l'] == 1 and any(isinstance(e, dict) and e.get('n') == field for e in (pl.get('p') or [])):
          out.append((bi, si, st['p']['l']))
  return out


def _field_writes(body, field):
  out = []
  for bi, blk in enumerate(body.blocks):
    if blk['cleanup']:
      continue
    for si, st in enumerate(blk['s']):
      pl = st.get('p')
      if pl and pl['l'] == 1 and any(isinstance(e, dict) and e.get('n') == field for e in (pl.get('p') or [])):
        out.append((bi, si, None))
  return out


def _before(body, a, b):
  if a[0] == b[0]:
    return a[1] < b[1]
  return body.dominates(a[0], b[0]) and not body.strictly_reaches(b[0], a[0])


def _locals_feeding(body, op):
  return body.slice_of([op], through_calls=False).locals


def _chain_ok(body, g, chain, sink):
  """short-circuit `a || b || c`: a later guard is reached through the earlier ones' live edges; accept when the guard's
  block is dominated by another recognised guard of the chain and cannot be bypassed from that guard's live edge"""
  for h in chain:
    if h is g or not body.dominates(h.bb, g.bb):
      continue
    okk = True
    for lab, tgt in body.switch_edges(h.bb):
      if lab in h.live and reaches_avoiding(body, tgt, sink, {g.bb}):
        okk = False
    if okk:
      return True
  return False


def _discr_of_param(body, bb, pname):
  t = body.term(bb)
  l = (t['d'].get('m') or t['d'].get('c') or {}).get('l')
  for d in body.defs().get(l, []):
    if d['kind'] == 'assign' and d['rv']['k'] == 'discr':
      p = d['rv']['p']
      if body.local_name(p['l']) == pname:
        return True
  return False


def _edge_variant(body, tgt):
  """variant name downcast at the start of an arm"""
  seen = set()
  work = [tgt]
  n = 0
  while work and n < 6:
    b = work.pop()
    n += 1
    for s in body.stmts(b):
      rv = s.get('rv')
      if not rv:
        continue
      for pl in ([rv.get('p')] if rv.get('p') else []) + [o.get('c') or o.get('m') for o in ([rv.get('o')] if rv.get('o') else []) if o]:
        if pl:
          for e in pl.get('p') or []:
            if isinstance(e, dict) and 'v' in e and e['v'] in ('Cenotaph', 'Runestone'):
              return e['v']
    work.extend(s for s in body.succ(b) if s not in seen)
    seen.update(body.succ(b))
  return None


def _other_arm(body, sw, cen_t):
  for lab, tgt in body.switch_edges(sw):
    if tgt != cen_t:
      return tgt
  return -1


# sensitivity pack (thorough tier): each seeded edit must be reported by the named rule instance
MUTANTS = [{'name': 'seeded-C11-a', 'patch': 'C11-a/patch.diff', 'expect': ('R11.3', 'create_rune_entry', 'RUNE_TO_RUNE_ID')},
           {'name': 'seeded-C11-b', 'patch': 'C11-b/patch.diff', 'expect': ('R11.2', 'tx_commits_to_rune', 'is_p2tr')}]


# behaviour-preserving pack (thorough tier)
NEUTRAL = [
  {'name': 'commitment comparison commuted', 'file': 'src/index/updater/rune_updater.rs', 'old': '        if pushbytes.as_bytes() != commitment {', 'new': '        if commitment != pushbytes.as_bytes() {'},
  {'name': 'confirmation test commuted', 'file': 'src/index/updater/rune_updater.rs', 'old': '        if confirmations >= u32::from(Runestone::COMMIT_CONFIRMATIONS) {', 'new': '        if u32::from(Runestone::COMMIT_CONFIRMATIONS) <= confirmations {'},
]
