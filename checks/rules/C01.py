"""C01 — clause claim (DESIGN §10.9): the block-level plumbing of the first-in-first-out sat assignment in
Updater::index_utxo_entries: subsidy range first, every non-coinbase transaction feeds its leftovers (fees) to
the coinbase inputs, the coinbase is indexed last and its leftovers are the lost sats, outputs displace cache
entries of the same outpoint, and the lost-sats bookkeeping is a running sum.  The splitter itself is C02 R2.1.
The equality of the resulting ranges with the BIP's over all histories is NOT decided."""
from ..core import where
from ..facts import norm, origins, guards_of
from ..affine import (Analysis, Aff, pkey, smallest_loop, back_edge_states, entry_edge_states, agg_sites, state_after_stmt)
from .common import deep_origins, short

IUE = 'ord::index::updater::Updater::index_utxo_entries'
ITS = 'ord::index::updater::Updater::index_transaction_sats'
STORE_RANGE = 're:<\\(u64, u64\\) as ord::index::entry::Entry>::store$'
LOAD_RANGE = 're:<\\(u64, u64\\) as ord::index::entry::Entry>::load$'

ASSUMPTIONS = [
  "decides the routing of sat ranges between transactions of one block (who feeds whom, in which order) and the lost-sats running sum; "
  "the per-transaction split is C02's clause; agreement with the BIP over all histories is not decided",
]


def _sub(key, *suffix):
  return (key[0], key[1] + tuple(suffix))


def _f(i):
  return ('f', i)


def _names(b, op):
  return {o.name for o in origins(b, op, named_terminal=True) if o.kind in ('var', 'param') and o.name}


def run(ctx):
  F = ctx.facts
  ctx.rule('R1.1', 'index_utxo_entries: when the sat index is on and the subsidy is non-zero, (start, start + subsidy) of Height(self.height) is the first thing appended to coinbase_inputs, before any transaction is indexed')
  ctx.rule('R1.2', 'index_utxo_entries: the transaction loop visits txdata.iter().enumerate().skip(1) chained with .take(1): every other transaction before the coinbase')
  ctx.rule('R1.3', 'index_utxo_entries -> index_transaction_sats: for tx_offset == 0 the inputs are coinbase_inputs and leftovers go to lost_sat_ranges; otherwise the inputs are the spent entries\' ranges and leftovers go to coinbase_inputs')
  ctx.rule('R1.4', 'index_utxo_entries: every output entry is written with utxo_cache.insert((txid, vout)), displacing an unspent output of the same outpoint')
  ctx.rule('R1.5', 'index_utxo_entries: lost ranges are decoded with SatRange::load; each non-common start gets a SAT_TO_SATPOINT row at (null outpoint, lost_sats so far); lost_sats grows by end - start; '
           'the ranges are merged into the null-outpoint entry and LostSats is stored from that sum when the sat index is on')
  b = ctx.body('R1.1', IUE)
  if b is None:
    return
  an = Analysis(b)
  ctx.ob('R1.1', b.n, 'affine analysis converged', an.converged, f'rounds={an.rounds}', where(b, b.line), nontrivial=False)
  its = [c for c in b.calls if c.is_(ITS)]
  if not ctx.anchor('R1.3', 'call to index_transaction_sats', len(its) == 1, b.n):
    return
  ic = its[0]
  th = smallest_loop(an, ic.bb)
  if not ctx.anchor('R1.2', 'transaction loop', th is not None, b.n):
    return

  # ---- R1.3 routing (path-sensitive: one alternative per side of the tx_offset test)
  ib = F.body(ITS)
  pn = [ib.local_name(i) for i in range(1, ib.argc + 1)] if ib is not None else []
  if not ctx.anchor('R1.3', 'parameters input_sat_ranges / leftover_sat_ranges', 'input_sat_ranges' in pn and 'leftover_sat_ranges' in pn, b.n):
    return
  a_in, a_left = ic.args[pn.index('input_sat_ranges')], ic.args[pn.index('leftover_sat_ranges')]
  sts = an.at_term(ic.bb)
  ctx.sites(len(sts))
  # tx_offset symbol: field .0 of the loop's next()
  nx = [c for c in b.calls if c.bb == th and c.is_('re:Iterator>::next$')]
  if not ctx.anchor('R1.2', 'loop head is Chain::next', len(nx) == 1 and 'Chain' in (nx[0].name or ''), b.n):
    return
  N = ('call', th)
  is_off = lambda a: a.single() is not None and a.single()[0] == 'f' and a.single()[1] == N and a.single()[2][-2:] == (_f(0), _f(0))
  zero, nonzero = [], []
  for s in sts:
    g = [x for x in s.guards if x[0] in ('Eq', 'Ne') and ((is_off(x[1]) and x[2] == Aff.const(0)) or (is_off(x[2]) and x[1] == Aff.const(0)))]
    if len(g) != 1:
      zero = nonzero = None
      break
    (zero if g[0][0] == 'Eq' else nonzero).append(s)
  if not ctx.anchor('R1.3', 'every path to the call has tested tx_offset == 0', zero is not None and bool(zero) and bool(nonzero), b.n):
    return

  def left_target(s):
    src = a_left.get('c') or a_left.get('m')
    tg = [tk for tk, m in s.ref.get(src['l'], ()) if m]
    return b.local_name(tg[0][0]) if len(tg) == 1 and not tg[0][1] else None
  lz = {left_target(s) for s in zero}
  ln = {left_target(s) for s in nonzero}
  ctx.ob('R1.3', b.n, 'coinbase (tx_offset == 0): leftovers go to one vector', len(lz) == 1 and None not in lz, f'{lz}', where(b, ic.line))
  ctx.ob('R1.3', b.n, 'other transactions: leftovers go to one other vector', len(ln) == 1 and None not in ln and ln != lz, f'{ln} vs {lz}', where(b, ic.line))
  if not (len(lz) == 1 and len(ln) == 1 and None not in lz | ln and lz != ln):
    return
  lost, coin = next(iter(lz)), next(iter(ln))
  # inputs: in the == 0 alternative the slice vector is built from coin.as_slice(); otherwise from the parsed input entries
  vecs = [c for c in b.calls if c.bb in an.loop[th] and c.is_('re:as_slice$')]
  asl = [c for c in vecs if _names(b, c.args[0]) == {coin}]
  ctx.ob('R1.3', b.n, f'coinbase inputs are {coin}.as_slice()', len(asl) == 1 and _on_side(an, asl[0].bb, is_off) == 'zero', f'{len(asl)} sites', where(b, ic.line))
  sr = [c for cb in F.closures_of(b.n) for c in cb.calls if c.is_('re:ParsedUtxoEntry::sat_ranges$|UtxoEntry::sat_ranges$')]
  cols = [c for c in b.calls if c.bb in an.loop[th] and c.is_('std::iter::Iterator::collect') and _on_side(an, c.bb, is_off) == 'nonzero']
  ctx.ob('R1.3', b.n, 'other transactions: inputs are the sat ranges of the consumed input entries', len(sr) >= 1 and len(cols) >= 1 and any('input_utxo_entries' in _names(b, o.call.args[0]) for c in cols for o in deep_origins(b, c.args[0]) if o.kind == 'call' and o.call.args),
         f'{len(sr)} sat_ranges closures, {len(cols)} collect sites', where(b, ic.line))
  ins = _names(b, a_in)
  ctx.ob('R1.3', b.n, 'the call receives that per-branch input list', 'input_sat_ranges' in ins, f'{ins}', where(b, ic.line))

  # ---- R1.1 subsidy first
  exts = [c for c in b.calls if c.is_('re:Vec.*Extend.*::extend$') and _names(b, c.args[0]) == {coin} and c.bb not in an.loop[th]]
  if ctx.anchor('R1.1', f'{coin}.extend(subsidy range) before the loop', len(exts) == 1, b.n):
    ec = exts[0]
    ctx.ob('R1.1', b.n, 'the subsidy range is appended before the first transaction is indexed', b.dominates(ec.bb, th) or (b.reaches(ec.bb, th) and not b.reaches(th, ec.bb)), '', where(b, ec.line))
    sc = [o.call for o in deep_origins(b, ec.args[1]) if o.kind == 'call' and o.call.is_(STORE_RANGE)]
    if ctx.anchor('R1.1', 'SatRange::store of the subsidy range', len(sc) == 1, b.n):
      tup = [o for o in origins(b, sc[0].args[0]) if o.kind == 'agg']
      ok0 = ok1 = False
      d0 = d1 = ''
      if len(tup) == 1 and len(tup[0].agg.get('ops', [])) == 2:
        o0 = deep_origins(b, tup[0].agg['ops'][0], all_args=True)
        o1 = deep_origins(b, tup[0].agg['ops'][1], all_args=True)
        c0 = {o.call.name for o in o0 if o.kind == 'call'}
        c1 = {o.call.name for o in o1 if o.kind == 'call'}
        d0, d1 = sorted(short(x) for x in c0 if x), sorted(short(x) for x in c1 if x)
        ok0 = any(x and x.endswith('Height::starting_sat') for x in c0) and not any(x and x.endswith('::add') for x in c0)
        ok1 = any(x and (x.endswith('Height::starting_sat') or x.endswith('Height::subsidy')) for x in c1)
        hs = []
        for o in o0 + o1:
          if o.kind == 'agg' and norm(o.agg.get('adt') or '').endswith('Height') and o.agg.get('ops'):
            hs += [x for x in deep_origins(b, o.agg['ops'][0], all_args=True) if x.kind in ('param', 'var') and 'height' in (x.fields or ())]
        ctx.ob('R1.1', b.n, 'both ends are computed from Height(self.height)', bool(hs), f'{[repr(o) for o in (o0 + o1)[:8]]}', where(b, sc[0].line))
      ctx.ob('R1.1', b.n, 'range start = starting_sat()', ok0, f'{d0}', where(b, sc[0].line))
      ctx.ob('R1.1', b.n, 'range end is computed from the same height (starting_sat / subsidy)', ok1, f'{d1}', where(b, sc[0].line))
    gs = [g for g in guards_of(b, ec.bb) if 'index_sats' in g.slice().fields]
    ctx.ob('R1.1', b.n, 'only under index_sats', len(gs) >= 1, '', where(b, ec.line))

  # ---- R1.2 coinbase last
  into = [c for c in b.calls if c.is_('re:IntoIterator>::into_iter$') and c.target is not None and (c.target == th or b.succ(c.target) == [th] or th in b.succ(c.target))]
  chain = [o.call for c in into for o in origins(b, c.args[0], passthrough=()) if o.kind == 'call' and o.call.is_('std::iter::Iterator::chain')]
  if ctx.anchor('R1.2', 'loop iterates a chain(..)', len(chain) == 1, b.n):
    ch = chain[0]
    def side(op, fn):
      cs = [o.call for o in origins(b, op, passthrough=()) if o.kind == 'call' and o.call.is_(fn)]
      if len(cs) != 1:
        return None
      c = cs[0]
      n = b.const_of(c.args[1])
      en = [o.call for o in origins(b, c.args[0], passthrough=()) if o.kind == 'call' and o.call.is_('std::iter::Iterator::enumerate')]
      src = deep_origins(b, en[0].args[0], all_args=True) if len(en) == 1 else []
      return n, any('txdata' in (o.fields or ()) for o in src)
    first = side(ch.args[0], 'std::iter::Iterator::skip')
    second = side(ch.args[1], 'std::iter::Iterator::take')
    ctx.ob('R1.2', b.n, 'first leg: block.txdata.iter().enumerate().skip(1)', first == (1, True), f'{first}', where(b, ch.line))
    ctx.ob('R1.2', b.n, 'second leg: block.txdata.iter().enumerate().take(1)', second == (1, True), f'{second}', where(b, ch.line))

  # ---- R1.4 displacement
  hins = [c for c in b.calls if c.bb in an.loop[th] and c.is_('re:HashMap.*::insert$') and 'utxo_cache' in _names(b, c.args[0])]
  if ctx.anchor('R1.4', 'utxo_cache.insert in the transaction loop', len(hins) == 1, b.n):
    hc = hins[0]
    oh = smallest_loop(an, hc.bb)
    key = [o for o in origins(b, hc.args[1]) if o.kind == 'agg']
    okk = False
    msg = ''
    if len(key) == 1:
      fs = key[0].agg.get('fields') or []
      if 'txid' in fs and 'vout' in fs:
        t_o = deep_origins(b, key[0].agg['ops'][fs.index('txid')], all_args=True)
        v_o = deep_origins(b, key[0].agg['ops'][fs.index('vout')], all_args=True)
        okk = any(o.kind == 'call' and o.call.bb == th for o in t_o) and any(o.kind == 'call' and o.call.bb == oh for o in v_o)
        msg = f'txid <- {[repr(o) for o in t_o[:4]]}; vout <- {[repr(o) for o in v_o[:4]]}'
    ctx.ob('R1.4', b.n, 'key is (txid of this transaction, index of this output)', okk, msg, where(b, hc.line))
    vo = deep_origins(b, hc.args[2], all_args=True)
    ctx.ob('R1.4', b.n, 'value is the entry of that output (same enumerate().next())', any(o.kind == 'call' and o.call.bb == oh for o in vo), f'{[repr(o) for o in vo[:4]]}', where(b, hc.line))
    onx = [c for c in b.calls if c.bb == oh and c.is_('re:Iterator>::next$')] if oh is not None else []
    srcs = [o for c in onx for o in deep_origins(b, c.args[0], all_args=True) if o.kind == 'call' and o.call.is_('re:Vec as .*IntoIterator>::into_iter$') and 'output_utxo_entries' in _names(b, o.call.args[0])]
    ctx.ob('R1.4', b.n, 'the insert loop walks output_utxo_entries', len(srcs) >= 1, '', where(b, hc.line))
    ctx.ob('R1.4', b.n, 'the insert loop runs for every transaction (no path around it back to the loop head)', oh is not None and all(b.dominates(oh, t) for t in an.heads[th]), '', where(b, hc.line))

  _lost_sats(ctx, 'R1.5', b, an, th, lost)
  # ---- R1.6 first-in-first-out order of what a transaction leaves over (the obligations are C02 R2.1's leftover part, stated here
  # because the order — unlike the amounts — is a clause of this property)
  ctx.rule('R1.6', 'index_transaction_sats: what a transaction does not assign is handed on in input order: the tail of the split range first, then the untouched rest of the same input iterator, once each, on every normal exit')
  from .C02 import _r2_1

  class _Only:
    def __init__(self, inner):
      self._c = inner
    def __getattr__(self, k):
      return getattr(self._c, k)
    def ob(self, rule, fn, desc, ok, msg='', where=None, nontrivial=True, detail=None):
      if any(w in desc for w in ('leftover', 'pending is appended', 'the rest is appended', 'appended pending', 'flattened iterator', 'fallback of unwrap_or_else')):
        return self._c.ob('R1.6', fn, desc, ok, msg, where, nontrivial, detail)
      return bool(ok)
    def anchor(self, rule, what, found, fn=''):
      return self._c.anchor('R1.6', what, found, fn)
    def rule(self, *a, **k):
      pass
    def floor(self, *a, **k):
      return True
    def sites(self, n):
      pass
  _r2_1(_Only(ctx), F)


def _lost_sats(ctx, rid, b, an, th, lost):
  F = ctx.facts
  # ---- R1.5 lost sats
  loads = [c for c in b.calls if c.is_(LOAD_RANGE) and c.bb not in an.loop[th]]
  if not ctx.anchor(rid, 'SatRange::load over the lost ranges', len(loads) == 1, b.n):
    return
  lc = loads[0]
  lh = smallest_loop(an, lc.bb)
  if not ctx.anchor(rid, 'lost-range loop', lh is not None, b.n):
    return
  L = ('call', lc.bb)
  start, end = Aff.sym(('f', L, (_f(0),))), Aff.sym(('f', L, (_f(1),)))
  ch = [c for c in b.calls if c.is_('re:chunks_exact$') and b.dominates(c.bb, lh)]
  ctx.ob(rid, b.n, f'the loop walks {lost}.chunks_exact(11)', any(lost in _names(b, c.args[0]) | {x.name for x in deep_origins(b, c.args[0], all_args=True)} and b.const_of(c.args[1]) == 11 for c in ch), '', where(b, lc.line))
  ks = set()
  for s in back_edge_states(an, lh):
    for k, v in s.m.items():
      if v == Aff.sym(('phi', lh, k)) + end - start:
        ks.add(k)
  if not ctx.anchor(rid, 'running lost_sats (lost_sats += end - start)', len(ks) == 1, b.n):
    return
  lk = next(iter(ks))
  lost_phi = Aff.sym(('phi', lh, lk))
  bes = back_edge_states(an, lh)
  ctx.ob(rid, b.n, 'every lost range adds exactly end - start', bool(bes) and all(s.val(lk) == lost_phi + end - start for s in bes), f'{[s.val(lk) for s in bes][:3]}', where(b, lc.line))
  ees = entry_edge_states(an, lh)
  src = set()
  for s in ees:
    src |= {x for x in s.val(lk).syms()}
  st = [c for c in b.calls if c.is_('re:redb::.*Table.*::get$') and c.bb not in an.loop[th]]
  ctx.ob(rid, b.n, 'the sum starts from the stored LostSats statistic (not from zero)', bool(ees) and all(not s.val(lk).is_const() for s in ees), f'{[s.val(lk) for s in ees][:2]}', where(b, lc.line))
  sps = [x for x in agg_sites(b, r'ordinals::sat_point::SatPoint$|ordinals::SatPoint$') if x[0] in an.loop[lh]]
  if ctx.anchor(rid, 'SatPoint literal of the lost-sat row', len(sps) == 1, b.n):
    bb, i, stm = sps[0]
    fs = stm['rv'].get('fields') or []
    dk = pkey(stm['p'])
    sts2 = state_after_stmt(an, bb, i)
    ctx.ob(rid, b.n, 'row offset == lost_sats before this range', bool(sts2) and all(s.val(_sub(dk, _f(fs.index('offset')))) == lost_phi for s in sts2), f"{[s.val(_sub(dk, _f(fs.index('offset')))) for s in sts2][:2]}", where(b, stm['l']))
    oo = deep_origins(b, stm['rv']['ops'][fs.index('outpoint')], all_args=True)
    ctx.ob(rid, b.n, 'row outpoint is OutPoint::null()', any(o.kind == 'call' and o.call.is_('bitcoin::OutPoint::null', 're:OutPoint::null$') for o in oo), f'{[repr(o) for o in oo[:3]]}', where(b, stm['l']))
  rins = [c for c in b.calls if c.is_('re:redb::Table.*::insert$') and c.bb in an.loop[lh]]
  if ctx.anchor(rid, 'SAT_TO_SATPOINT insert in the lost-range loop', len(rins) == 1, b.n):
    rc = rins[0]
    okk = False
    for s in an.at_term(rc.bb):
      srcl = rc.args[1].get('c') or rc.args[1].get('m')
      tg = [tk for tk, m in s.ref.get(srcl['l'], ())]
      okk = len(tg) == 1 and s.val(tg[0]) == start
    ctx.ob(rid, b.n, 'row key is the range start', okk, '', where(b, rc.line))
    gs = [g for g in guards_of(b, rc.bb) if g.slice().has_call('ordinals::sat::Sat::common')]
    ctx.ob(rid, b.n, 'row written under !common', len(gs) == 1, '', where(b, rc.line))
  # merge into the null-outpoint entry
  mg = [c for c in b.calls if c.is_('ord::index::utxo_entry::UtxoEntryBuf::merged')]
  ps = [c for c in b.calls if c.is_('ord::index::utxo_entry::UtxoEntryBuf::push_sat_ranges') and lost in _names(b, c.args[1]) | {x.name for x in deep_origins(b, c.args[1], all_args=True)}]
  ctx.ob(rid, b.n, f'{lost} is pushed into a new entry', len(ps) == 1, f'{len(ps)} sites', where(b, lc.line))
  if ctx.anchor(rid, 'UtxoEntryBuf::merged(existing null entry, new entry)', len(mg) == 1, b.n):
    m = mg[0]
    ent = [c for c in b.calls if c.is_('re:HashMap.*::entry$') and 'utxo_cache' in _names(b, c.args[0])]
    nullk = any(o.kind == 'call' and o.call.is_('re:OutPoint::null$') for c in ent for o in deep_origins(b, c.args[1], all_args=True))
    ctx.ob(rid, b.n, 'the merged entry is utxo_cache[OutPoint::null()]', len(ent) == 1 and nullk, '', where(b, m.line))
    a0 = {x.call.name for x in deep_origins(b, m.args[0], all_args=True) if x.kind == 'call'}
    a1n = _names(b, m.args[1]) | {x.name for x in deep_origins(b, m.args[1], all_args=True) if x.name}
    ctx.ob(rid, b.n, 'merged(existing, new): existing first', any(n and n.endswith('Entry::or_insert') for n in a0), f'{sorted(short(x) for x in a0 if x)}', where(b, m.line))
    newn = _names(b, ps[0].args[0]) if ps else set()
    ctx.ob(rid, b.n, 'merged(existing, new): the entry holding the new lost ranges second', bool(newn) and newn <= a1n, f'{newn} vs {a1n}', where(b, m.line))
  # statistic
  sins = [c for c in b.calls if c.is_('re:redb::Table.*::insert$') and c.bb not in an.loop[th] and c.bb not in an.loop[lh] and 'statistic_to_count' in _names(b, c.args[0])]
  lsi = [c for c in sins if any(o.kind == 'call' and 'Statistic::key' in (o.call.name or '') for o in deep_origins(b, c.args[1], all_args=True)) and _is_lost_key(b, c)]
  if ctx.anchor(rid, 'statistic_to_count.insert(LostSats)', len(lsi) == 1, b.n):
    c = lsi[0]
    on_vals, off_vals = set(), set()
    allowed = {lost_phi} | {s.val(lk) for s in ees}
    for s in an.at_term(c.bb):
      srcl = c.args[2].get('c') or c.args[2].get('m')
      tg = [tk for tk, m in s.ref.get(srcl['l'], ())]
      g = [x for x in s.guards if x[0] in ('Eq', 'Ne') and x[2] == Aff.const(0) and 'index_sats' in an.field_names(x[1])]
      if len(tg) == 1 and g:
        (on_vals if g[-1][0] == 'Ne' else off_vals).add(s.val(tg[0]))
    ctx.ob(rid, b.n, 'LostSats is stored from the running sum when index_sats is on', bool(on_vals) and on_vals <= allowed, f'stored {on_vals}; running sum {allowed}', where(b, c.line))
    ctx.ob(rid, b.n, 'LostSats is stored from the inscription updater\'s count otherwise', bool(off_vals) and all('lost_sats' in an.field_names(v) for v in off_vals), f'stored {off_vals}', where(b, c.line))



def lost_sats_for(ctx, rid):
  """the lost-sats bookkeeping obligations under another rule id (C02 states them as part of 'every sat is in exactly one place')"""
  F = ctx.facts
  b = ctx.body(rid, IUE)
  if b is None:
    return
  an = Analysis(b)
  its = [c for c in b.calls if c.is_(ITS)]
  if not ctx.anchor(rid, 'call to index_transaction_sats', len(its) == 1, b.n):
    return
  ic = its[0]
  th = smallest_loop(an, ic.bb)
  ib = F.body(ITS)
  pn = [ib.local_name(i) for i in range(1, ib.argc + 1)] if ib is not None else []
  if not ctx.anchor(rid, 'transaction loop and leftover parameter', th is not None and 'leftover_sat_ranges' in pn, b.n):
    return
  a_left = ic.args[pn.index('leftover_sat_ranges')]
  N = ('call', th)
  is_off = lambda a: a.single() is not None and a.single()[0] == 'f' and a.single()[1] == N and a.single()[2][-2:] == (_f(0), _f(0))
  lost = set()
  for s in an.at_term(ic.bb):
    g = [x for x in s.guards if x[0] == 'Eq' and ((is_off(x[1]) and x[2] == Aff.const(0)) or (is_off(x[2]) and x[1] == Aff.const(0)))]
    if g:
      src = a_left.get('c') or a_left.get('m')
      tg = [tk for tk, m in s.ref.get(src['l'], ()) if m]
      if len(tg) == 1 and not tg[0][1]:
        lost.add(b.local_name(tg[0][0]))
  if not ctx.anchor(rid, 'vector receiving the coinbase leftovers', len(lost) == 1 and None not in lost, b.n):
    return
  _lost_sats(ctx, rid, b, an, th, next(iter(lost)))


def _is_lost_key(b, c):
  for o in deep_origins(b, c.args[1], all_args=True):
    if o.kind == 'agg' and (o.agg.get('variant') == 'LostSats'):
      return True
    if o.kind == 'const' and 'LostSats' in str(o.const):
      return True
  # unit variants are constants in MIR: look at the Statistic::key call's argument
  for o in deep_origins(b, c.args[1], all_args=True):
    if o.kind == 'call' and 'Statistic::key' in (o.call.name or ''):
      for a in o.call.args:
        cv = b.const_of(a)
        if cv is not None and 'LostSats' in str(cv):
          return True
        for oo in origins(b, a):
          if 'LostSats' in repr(oo) or (oo.kind == 'const' and 'LostSats' in str(oo.const)):
            return True
  return False


def _on_side(an, bb, is_off):
  """which side of the tx_offset test block bb lies on, judged by the guards of the alternatives passing through it"""
  sides = set()
  for s in an.at_term(bb):
    for g in s.guards:
      if g[0] in ('Eq', 'Ne') and ((is_off(g[1]) and g[2] == Aff.const(0)) or (is_off(g[2]) and g[1] == Aff.const(0))):
        sides.add('zero' if g[0] == 'Eq' else 'nonzero')
  return sides.pop() if len(sides) == 1 else None


# sensitivity pack (thorough tier)
_U = 'src/index/updater.rs'
MUTANTS = [
  {'name': 'seeded-C01-a', 'patch': 'C01-a/patch.diff', 'expect': ('R1.6', 'index_transaction_sats', 'pending is appended before the rest')},
  {'name': 'seeded-C01-b', 'patch': 'C01-b/patch.diff', 'expect': ('R1.5', 'index_utxo_entries', 'merged(existing, new)')},

  {'name': 'transactions indexed in block order (coinbase first, before the fees exist)', 'group': 'loop-shape', 'file': _U, 'old': '      .enumerate()\n      .skip(1)\n      .chain(block.txdata.iter().enumerate().take(1))\n', 'new': '      .enumerate()\n', 'expect': ('R1.2', 'index_utxo_entries', '')},
  {'name': 'fees of ordinary transactions routed to the lost sats instead of the coinbase', 'file': _U, 'old': '          leftover_sat_ranges = &mut coinbase_inputs;', 'new': '          leftover_sat_ranges = &mut lost_sat_ranges;', 'expect': ('R1.3', 'index_utxo_entries', '')},
  {'name': 'subsidy range never offered to the coinbase', 'file': _U, 'old': '        coinbase_inputs.extend(SatRange::store((start.n(), (start + h.subsidy()).n())));\n', 'new': '        let _ = start;\n', 'expect': ('R1.1', 'index_utxo_entries', '')},
  {'name': 'duplicate txid keeps the old output', 'file': _U, 'old': '        utxo_cache.insert(OutPoint { txid: *txid, vout }, output_utxo_entry);', 'new': '        utxo_cache.entry(OutPoint { txid: *txid, vout }).or_insert(output_utxo_entry);', 'expect': ('R1.4', 'index_utxo_entries', '')},
  {'name': 'lost-sat rows located after their range', 'file': _U, 'old': '              offset: lost_sats,\n', 'new': '              offset: lost_sats + (end - start),\n', 'expect': ('R1.5', 'index_utxo_entries', 'row offset')},
  {'name': 'new lost ranges overwrite the null entry', 'file': _U, 'old': '      *utxo_entry = UtxoEntryBuf::merged(utxo_entry, &new_utxo_entry, self.index);', 'new': '      *utxo_entry = new_utxo_entry;', 'expect': ('R1.5', 'index_utxo_entries', 'merged')},
  {'name': 'LostSats statistic taken from the wrong counter', 'file': _U, 'old': '      &if self.index.index_sats {\n        lost_sats\n      } else {\n        inscription_updater.lost_sats\n      },', 'new': '      &if !self.index.index_sats {\n        lost_sats\n      } else {\n        inscription_updater.lost_sats\n      },', 'expect': ('R1.5', 'index_utxo_entries', 'LostSats is stored')},
]

# behaviour-preserving pack (thorough tier)
NEUTRAL = [
  {'name': 'subsidy range end computed on integers', 'file': _U, 'old': '(start.n(), (start + h.subsidy()).n())', 'new': '(start.n(), start.n() + h.subsidy())'},
  {'name': 'lost_sats update spelled out', 'file': _U, 'old': '        lost_sats += end - start;', 'new': '        lost_sats = lost_sats + (end - start);'},
  {'name': 'routing test negated with swapped arms', 'file': _U,
   'old': '        if tx_offset == 0 {\n          input_sat_ranges = Some(vec![coinbase_inputs.as_slice()]);\n          leftover_sat_ranges = &mut lost_sat_ranges;\n        } else {\n          input_sat_ranges = Some(\n            input_utxo_entries\n              .iter()\n              .map(|entry| entry.sat_ranges())\n              .collect(),\n          );\n          leftover_sat_ranges = &mut coinbase_inputs;\n        }',
   'new': '        if tx_offset != 0 {\n          input_sat_ranges = Some(\n            input_utxo_entries\n              .iter()\n              .map(|entry| entry.sat_ranges())\n              .collect(),\n          );\n          leftover_sat_ranges = &mut coinbase_inputs;\n        } else {\n          input_sat_ranges = Some(vec![coinbase_inputs.as_slice()]);\n          leftover_sat_ranges = &mut lost_sat_ranges;\n        }'},
]
