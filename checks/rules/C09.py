"""C09 — clause claim (DESIGN §10.12): the documented edict rules of RuneUpdater::index_runes as provenance and control-dependence
facts — not the allocation's value behaviour.

  cap        every amount handed to the allocation step is the whole remaining balance, min(requested, balance), or the even share
             balance / n (+ 1 for the first balance % n outputs); nothing else reaches it
  zero       "amount 0 = all remaining" / "output == number of outputs = every non-OP_RETURN output" select those forms under exactly those tests
  step       the allocation step debits the balance and credits allocated[output][id] by the same amount, only if amount > 0
  0:0        an edict for id 0:0 uses the id etched in this transaction or is skipped
  leftovers  unallocated runes go to the pointer output, else the first non-OP_RETURN output, else they are burned; a cenotaph burns all

NOT decided: that these compose to the documented allocation for every transaction (interaction of several edicts, split arithmetic)."""
import re
from ..core import where
from ..facts import norm, origins
from ..guards import all_guards, expand
from ..intervals import fmt_desc
from .common import deep_origins

IR = 'ord::index::updater::rune_updater::RuneUpdater::index_runes'
ASSUMPTIONS = ["decides where each allocated amount comes from and what selects it; the arithmetic outcome over whole transactions is not decided",
               "Lot's operators are checked (C08 R8.2)"]


def _guards(b, bb):
  return [(fmt_desc(g.atom), g.pol) for g in expand(b, all_guards(b, bb)) if not fmt_desc(g.atom).startswith('discr(')]


def run(ctx):
  F = ctx.facts
  ctx.rule('R9.1', 'index_runes: the amount of every call of the allocation step originates only from *balance (the unallocated entry of the edict\'s rune), Ord::min(requested, *balance), or Lot::div(*balance, destinations.len()) optionally + 1 selected by i < *balance % destinations.len()')
  ctx.rule('R9.2', 'index_runes: *balance is passed whole only under amount == 0; the split call site only under output == tx.output.len() ∧ amount == 0 ∧ !destinations.is_empty(); the distribute site under output == tx.output.len() ∧ amount != 0; the single-output site under output != tx.output.len()')
  ctx.rule('R9.3', 'allocation step (closure): balance -= amount and allocated[output].entry(id) += amount with the same amount / output parameters and the captured id, both exactly under amount > 0')
  ctx.rule('R9.4', 'index_runes: destinations are the indices of the outputs whose script is not OP_RETURN; an edict with id 0:0 takes the etched id or is skipped; an edict whose rune has no unallocated balance is skipped')
  ctx.rule('R9.5', 'index_runes: after the edicts, a cenotaph burns every unallocated balance; otherwise balances > 0 go to allocated[pointer] or else allocated[first non-OP_RETURN output] or else burned; balances allocated to an OP_RETURN output are burned')
  b = ctx.body('R9.1', IR)
  if b is None:
    return
  cls = [cb for cb in F.closures_of(b.n) if any(c.is_('re:Lot as std::ops::SubAssign>::sub_assign$') for c in cb.calls)]
  if not ctx.anchor('R9.3', 'allocation closure (balance -= amount)', len(cls) == 1, b.n):
    return
  al = cls[0]
  ctx.analysed(al)
  sites = [c for c in b.calls if c.name == al.n]
  ctx.floor('R9.1', 'allocation call sites', len(sites), 3)
  gm = [c for c in b.calls if c.is_('re:HashMap.*::get_mut$')]
  ctx.anchor('R9.1', 'unallocated.get_mut(&id)', len(gm) == 1, b.n)
  dest_len = None
  forms = {}
  for c in sites:
    tup = [o for o in origins(b, c.args[1]) if o.kind == 'agg']
    if not ctx.anchor('R9.1', f'argument tuple of the allocation call at line {c.line}', len(tup) == 1 and len(tup[0].agg.get('ops', [])) == 3, b.n):
      continue
    bal, amt, out = tup[0].agg['ops']
    ok_bal = any(o.kind == 'call' and gm and o.call is gm[0] for o in origins(b, bal, passthrough=()))
    ctx.ob('R9.1', b.n, f'call at the {_site_name(b, c)} site: the balance debited is unallocated.get_mut(&id)', ok_bal, '', where(b, c.line))
    kinds = set()
    bad = []
    for o in origins(b, amt, passthrough=()):
      k = _classify(b, o, gm[0] if gm else None)
      if k is None:
        bad.append(repr(o))
      else:
        kinds.add(k)
    forms[c] = kinds
    ctx.ob('R9.1', b.n, f'call at the {_site_name(b, c)} site: the amount is capped by the balance ({", ".join(sorted(kinds)) or "?"})', not bad and bool(kinds),
           f'amount also comes from {bad}: an edict could move more than the unallocated balance (or a different quantity)', where(b, c.line))
  # ---- R9.2 selection
  for c in sites:
    eq_out, eq_amt, nonempty = _tests(b, c.bb)
    name = _site_name(b, c)
    if name == 'split':
      ok = nonempty == [False]
    elif name == 'distribute':
      ok = nonempty == [False]
    elif name == 'single':
      ok = not nonempty
    else:
      ok = False
    ctx.ob('R9.2', b.n, f'the {name} site is selected by exactly the documented tests', ok, f'output==len: {eq_out}, amount==0: {eq_amt}, destinations.is_empty: {nonempty}', where(b, c.line))
    want_forms = {'split': {'share', 'share+1'}, 'distribute': {'min'}, 'single': {'all', 'min'}}.get(name)
    ctx.ob('R9.2', b.n, f'the {name} site passes the amount form documented for it', want_forms is not None and forms.get(c, set()) == want_forms, f'{sorted(forms.get(c, set()))} (expected {sorted(want_forms or [])})', where(b, c.line))
    if name == 'single':
      # inside: *balance only under amount == 0
      tup = [o for o in origins(b, c.args[1]) if o.kind == 'agg'][0]
      for o in origins(b, tup.agg['ops'][1], passthrough=()):
        k = _classify(b, o, gm[0] if gm else None)
        if k in ('all', 'min'):
          # the assignment site of this alternative
          defs = [(bi, st_) for bi in b.reachable_from(0) for st_ in b.blocks[bi]['s'] if st_.get('rv') and st_['rv']['k'] == 'use' and any(x.key() == o.key() for x in origins(b, st_['rv']['o'], passthrough=())) and st_['p'] and not st_['p'].get('p')
                  and b.local_name(st_['p']['l']) == 'amount']
          pols = set()
          for bi, st_ in defs:
            pols |= set(_tests(b, bi)[1])
          want = {True} if k == 'all' else {False}
          if defs:
            ctx.ob('R9.2', b.n, f'single site: the {"whole balance" if k == "all" else "capped amount"} is chosen under amount {"==" if k == "all" else "!="} 0', pols == want, f'{pols}', where(b, c.line))
    if name == 'split':
      tup = [o for o in origins(b, c.args[1]) if o.kind == 'agg'][0]
      adds = [o.call for o in origins(b, tup.agg['ops'][1], passthrough=()) if o.kind == 'call' and o.call.is_('re:Lot as std::ops::Add>::add$')]
      okp = False
      msg = ''
      if len(adds) == 1:
        gsa = _guards(b, adds[0].bb)
        lt = [(d, p) for d, p in gsa if d.startswith('Lt(') and 'Rem::rem' in d or (d.startswith('Lt(') and 'rem(' in d)]
        msg = f'{[d[:80] for d, p in gsa][-3:]}'
        rem = [x for x in b.calls if x.is_('re:Lot as std::ops::Rem>::rem$')]
        div = [x for x in b.calls if x.is_('re:Lot as std::ops::Div>::div$')]
        same_args = len(rem) == 1 and len(div) == 1 and fmt_desc(_d(b, rem[0].args[1])) == fmt_desc(_d(b, div[0].args[1])) and 'Vec::len' in fmt_desc(_d(b, div[0].args[1]))
        one = b.const_of(adds[0].args[1]) == 1 or any(o.kind == 'const' and o.const.get('v') == 1 for o in origins(b, adds[0].args[1]))
        # the left operand is the destination's rank (the enumerate index), not the output number it stands for
        rank = len(lt) == 1 and bool(re.match(r'^Lt\(.*enumerate.*\.v:Some\.0\.0,', lt[0][0]))
        okp = len(lt) == 1 and lt[0][1] is True and same_args and one and rank
        if len(lt) == 1 and not rank:
          msg = f'the extra unit is selected by {lt[0][0][:120]}: not the rank among the destinations'
      ctx.ob('R9.2', b.n, 'split: share + 1 exactly for i < balance % n, with the same n = destinations.len() as the share', okp, msg, where(b, c.line))
  # ---- R9.3 closure
  sub = [c for c in al.calls if c.is_('re:Lot as std::ops::SubAssign>::sub_assign$')]
  add = [c for c in al.calls if c.is_('re:Lot as std::ops::AddAssign>::add_assign$')]
  if ctx.anchor('R9.3', 'one debit and one credit in the allocation step', len(sub) == 1 and len(add) == 1, al.n):
    pa = lambda op: {(o.kind, o.name) for o in origins(al, op, named_terminal=True)}
    ctx.ob('R9.3', al.n, 'debit: *balance -= amount', pa(sub[0].args[0]) == {('param', 'balance')} and pa(sub[0].args[1]) == {('param', 'amount')}, f'{pa(sub[0].args[0])} -= {pa(sub[0].args[1])}', where(al, sub[0].line))
    tgt = deep_origins(al, add[0].args[0], all_args=True)
    okc = any(o.kind == 'upvar' and o.name == 'allocated' for o in tgt) and any(o.kind == 'param' and o.name == 'output' for o in tgt) and any(o.kind == 'upvar' and o.name == 'id' for o in tgt) and pa(add[0].args[1]) == {('param', 'amount')}
    ctx.ob('R9.3', al.n, 'credit: allocated[output].entry(id) += amount', okc, f'{[repr(o) for o in tgt][:6]}', where(al, add[0].line))
    for c, w in ((sub[0], 'debit'), (add[0], 'credit')):
      gs = _guards(al, c.bb)
      ctx.ob('R9.3', al.n, f'{w} happens exactly under amount > 0', len(gs) == 1 and gs[0][1] is True and (gs[0][0].startswith('PartialOrd::gt(amount') or gs[0][0] == 'Gt(amount,0)'), f'{gs}', where(al, c.line))
  # ---- R9.4
  fm = [cb for cb in F.closures_of(b.n) if any(c.is_('re:Script::is_op_return$') for c in cb.calls) and any(c.is_('re:bool>::then_some$') for c in cb.calls)]
  okd = False
  for cb in fm:
    ts = [c for c in cb.calls if c.is_('re:bool>::then_some$')]
    d = fmt_desc(_d(cb, ts[0].args[0]))
    v = {(o.kind, tuple(o.fields)[-1:]) for o in origins(cb, ts[0].args[1])}
    okd = d.startswith('Not(') and 'is_op_return' in d and v == {('param', ('0',))}
  ctx.ob('R9.4', b.n, 'destinations = indices of outputs with !script_pubkey.is_op_return()', okd and len(fm) == 1, '', where(b, b.line))
  if gm:
    key = deep_origins(b, gm[0].args[1], all_args=True)
    et = [c for c in b.calls if c.is_('ord::index::updater::rune_updater::RuneUpdater::etched')]
    ok0 = any(o.kind == 'call' and et and o.call is et[0] for o in key) and any(o.kind == 'call' and 'Iterator>::next' in (o.call.name or '') for o in key)
    gs = _guards(b, gm[0].bb)
    ctx.ob('R9.4', b.n, 'the rune looked up is the edict\'s id, or the etched id when the edict says 0:0', ok0, f'{[repr(o) for o in key][:5]}', where(b, gm[0].line))
  # ---- R9.5 leftovers
  adds = [c for c in b.calls if c.is_('re:Lot as std::ops::AddAssign>::add_assign$')]
  rows = []
  for c in adds:
    tgt = deep_origins(b, c.args[0], all_args=True)
    names = set()
    for o in tgt:
      if o.kind == 'call' and o.call.is_('re:HashMap.*::entry$'):
        for x in origins(b, o.call.args[0], named_terminal=True):
          if x.name:
            names.add(x.name)
          if x.kind == 'call' and x.call.is_('re:IndexMut>::index_mut$'):
            names |= {y.name for y in origins(b, x.call.args[0], named_terminal=True) if y.name}
    # what is credited: an element of the consumed unallocated map (`for (id, x) in unallocated`), an element of an allocated map, or something else
    src = set()
    for o in deep_origins(b, c.args[1], all_args=True):
      if o.kind == 'call' and o.call.is_('ord::index::updater::rune_updater::RuneUpdater::unallocated'):
        src.add('unallocated-element')
      if o.kind == 'call' and o.call.is_('re:hash_map::Iter as std::iter::Iterator>::next$'):
        src.add('allocated-element')
    if not src:
      src = {o.name for o in origins(b, c.args[1], named_terminal=True)}
    rows.append((c, 'burned' if 'burned' in names else 'allocated' if 'allocated' in names else 'unallocated' if 'unallocated' in names else '?', src, _guards(b, c.bb)))
  burn_all = [r for r in rows if r[1] == 'burned' and r[2] == {'unallocated-element'} and not any(d.startswith('Gt(') for d, p in r[3]) and not any('is_op_return' in d for d, p in r[3])]
  to_out = [r for r in rows if r[1] == 'allocated' and r[2] == {'unallocated-element'}]
  burn_left = [r for r in rows if r[1] == 'burned' and r[2] == {'unallocated-element'} and any(d.startswith('Gt(') and p is True for d, p in r[3])]
  burn_opret = [r for r in rows if r[1] == 'burned' and any('is_op_return' in d and p is True for d, p in r[3])]
  ctx.ob('R9.5', b.n, 'four leftover credits: cenotaph burn, default output, no-output burn, OP_RETURN burn', len(burn_all) == 1 and len(to_out) == 1 and len(burn_left) == 1 and len(burn_opret) == 1,
         f'{len(burn_all)}/{len(to_out)}/{len(burn_left)}/{len(burn_opret)}', where(b, b.line))
  if len(to_out) == 1:
    c = to_out[0][0]
    tgt = deep_origins(b, c.args[0], all_args=True)
    calls = {o.call.name for o in tgt if o.kind == 'call'}
    ctx.ob('R9.5', b.n, 'default output = pointer, or else the first non-OP_RETURN output', any(n and n.endswith('Option::or_else') for n in calls) and any(n and n.endswith('Option::map') for n in calls), f'{sorted(n.split("::")[-1] for n in calls if n)}', where(b, c.line))
    oe = [cb for cb in F.closures_of(b.n) if any(x.is_('re:Iterator::find$') for x in cb.calls)]
    fc = [cb for cb in F.closures_of(b.n) if any(x.is_('re:Script::is_op_return$') for x in cb.calls) and not any(x.is_('re:bool>::then_some$') for x in cb.calls) and cb.argc == 2]
    okf = False
    for cb in fc:
      d = fmt_desc(_d(cb, {'c': {'l': 0}}))
      okf = okf or (d.startswith('Not(') and 'is_op_return' in d)
    ctx.ob('R9.5', b.n, 'the fallback finds the first output with !is_op_return()', len(oe) >= 1 and okf, '', where(b, c.line))
    gs = to_out[0][3]
    ctx.ob('R9.5', b.n, 'only balances > 0 are credited to the default output', any(d.startswith('Gt(') and p is True for d, p in gs), f'{[d[:60] for d, p in gs]}', where(b, c.line))


def _d(b, op):
  from ..facts import describe_operand
  return describe_operand(b, op)


def _classify(b, o, gm):
  if o.kind == 'call' and gm is not None and o.call is gm:
    return 'all'
  if o.kind == 'call' and o.call.is_('std::cmp::Ord::min'):
    a = [x for arg in o.call.args for x in origins(b, arg, passthrough=())]
    if any(x.kind == 'call' and gm is not None and x.call is gm for x in a):
      return 'min'
    return None
  if o.kind == 'call' and o.call.is_('re:Lot as std::ops::Div>::div$'):
    a0 = origins(b, o.call.args[0], passthrough=())
    d1 = fmt_desc(_d(b, o.call.args[1]))
    if any(x.kind == 'call' and gm is not None and x.call is gm for x in a0) and 'Vec::len' in d1:
      return 'share'
    return None
  if o.kind == 'call' and o.call.is_('re:Lot as std::ops::Add>::add$'):
    inner = [_classify(b, x, gm) for x in origins(b, o.call.args[0], passthrough=())]
    one = any(x.kind == 'const' and x.const.get('v') == 1 for x in origins(b, o.call.args[1]))
    if inner == ['share'] and one:
      return 'share+1'
    return None
  return None


def _tests(b, bb):
  """(output == outputs?, amount == 0?, destinations empty?) as decided on the way to block bb; Ne(..) is read as the negated Eq(..)"""
  eq_out, eq_amt, empty = [], [], []
  for d, p in _guards(b, bb):
    if p is None:
      continue
    if d.startswith('Ne('):
      d, p = 'Eq(' + d[3:], not p
    if d.startswith('Eq(Lot{') and d.endswith(',0)'):
      eq_amt.append(p)
    elif d.startswith('Eq(') and '.output' in d:
      eq_out.append(p)
    elif d.startswith('Vec::is_empty('):
      empty.append(p)
  return eq_out, eq_amt, empty


def _site_name(b, c):
  """which documented case a call of the allocation step belongs to, judged by the tests that select it (not by what it passes)"""
  eq_out, eq_amt, empty = _tests(b, c.bb)
  if eq_out == [True] and eq_amt == [True]:
    return 'split'
  if eq_out == [True] and eq_amt == [False]:
    return 'distribute'
  if eq_out == [False]:
    return 'single'
  return 'unclassified'


# sensitivity pack (thorough tier)
_RU = 'src/index/updater/rune_updater.rs'
MUTANTS = [
  {'name': 'seeded-C09-a', 'patch': 'C09-a/patch.diff', 'expect': ('R9.5', 'index_runes', 'four leftover credits')},
  {'name': 'seeded-C09-b', 'patch': 'C09-b/patch.diff', 'expect': ('R9.2', 'index_runes', 'split: share + 1')},

  {'name': 'distribute: requested amount not capped by the balance', 'file': _RU, 'old': '                  allocate(balance, amount.min(*balance), output);', 'new': '                  allocate(balance, amount, output);', 'expect': ('R9.1', 'index_runes', 'distribute site: the amount is capped')},
  {'name': 'single: zero amount allocates nothing', 'file': _RU, 'old': '            let amount = if amount == 0 {\n              *balance\n            } else {\n              amount.min(*balance)\n            };', 'new': '            let amount = amount.min(*balance);', 'expect': ('R9.2', 'index_runes', '')},
  {'name': 'split: extra unit for the wrong outputs', 'file': _RU, 'old': 'if i < remainder { amount + 1 } else { amount },', 'new': 'if i > remainder { amount + 1 } else { amount },', 'expect': ('R9.2', 'index_runes', 'split: share + 1')},
  {'name': 'allocation step credits even a zero amount', 'file': _RU, 'old': '            if amount > 0 {\n              *balance -= amount;\n              *allocated[output].entry(id).or_default() += amount;\n            }', 'new': '            *balance -= amount;\n            *allocated[output].entry(id).or_default() += amount;', 'expect': ('R9.3', 'closure', 'exactly under amount > 0')},
  {'name': 'destinations include OP_RETURN outputs', 'file': _RU, 'old': '                (!tx_out.script_pubkey.is_op_return()).then_some(output)', 'new': '                (!tx_out.script_pubkey.is_empty()).then_some(output)', 'expect': ('R9.4', 'index_runes', 'destinations')},
]

# behaviour-preserving pack (thorough tier)
NEUTRAL = [
  {'name': 'cenotaph burn loop: element renamed', 'file': 'src/index/updater/rune_updater.rs', 'old': '      for (id, balance) in unallocated {\n        *burned.entry(id).or_default() += balance;\n      }\n    } else {', 'new': '      for (id, left) in unallocated {\n        *burned.entry(id).or_default() += left;\n      }\n    } else {'},

  {'name': 'min written the other way round', 'file': _RU, 'old': '                  allocate(balance, amount.min(*balance), output);', 'new': '                  allocate(balance, (*balance).min(amount), output);'},
  {'name': 'single: arms swapped', 'file': _RU, 'old': '            let amount = if amount == 0 {\n              *balance\n            } else {\n              amount.min(*balance)\n            };', 'new': '            let amount = if amount != 0 {\n              amount.min(*balance)\n            } else {\n              *balance\n            };'},
]
