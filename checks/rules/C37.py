"""C37 — index events replay to the indexed state: emission completeness as pairing — every state change of the kinds the
property lists has an emission on every path, carrying the same values (DESIGN §5 C37)."""
from ..core import where
from ..facts import norm, origins, guards_of
from ..effects import always_with, paired, guard_field_names
from ..tables_id import TableId
from .common import success_return_blocks, result_is_checked, short, reaches_avoiding

UIL = 'ord::index::updater::inscription_updater::InscriptionUpdater::update_inscription_location'
IR = 'ord::index::updater::rune_updater::RuneUpdater::index_runes'
CREATE = 'ord::index::updater::rune_updater::RuneUpdater::create_rune_entry'
MINT = 'ord::index::updater::rune_updater::RuneUpdater::mint'
EVENT = 'ord::index::event::Event'
SEND = 're:tokio::sync::mpsc::Sender.*::blocking_send$'
ADD_ASSIGN = 're:<ord::index::lot::Lot as std::ops::AddAssign.*>::add_assign$'

ASSUMPTIONS = ["that replaying the events reproduces the state is a value statement and is not decided; only emission completeness and field provenance"]


def event_sends(body):
  out = []
  for c in body.calls:
    if c.is_(SEND) and EVENT in (c.f.get('ga') or ''):
      for o in origins(body, c.args[1]):
        if o.kind == 'agg' and norm(o.agg.get('adt') or '') == EVENT:
          out.append((c, o.agg['variant'], dict(zip(o.agg['fields'], o.agg['ops']))))
  return out


def sender_guard(g):
  """`if let Some(sender) = <..>.event_sender`: the tested Option is the event_sender field itself — not the result of a call on it
  (a `.filter(..)` would let a condition of its own decide whether the event is sent)"""
  import re as _re
  from ..intervals import fmt_desc
  a = g.atom() if callable(g.atom) else g.atom
  d = a if isinstance(a, str) else fmt_desc(a)
  return bool(_re.match(r'^discr\(([A-Za-z_0-9]+\.)+event_sender\)$', d))


def names(body, op):
  return body.slice_of([op]).var_names()


def pnames(body, op):
  """precise: named locals / params / fields on the origin chain"""
  out = set()
  for o in origins(body, op):
    if o.name:
      out.add(o.name)
    out |= set(o.fields)
    if o.kind == 'call':
      out.add((o.call.name or '').split('::')[-1])
      for a in o.call.args[:1]:
        for o2 in origins(body, a):
          if o2.name:
            out.add(o2.name)
          out |= set(o2.fields)
  return out


def run(ctx):
  F = ctx.facts
  T = TableId(F)
  ctx.rule('R37.1', 'each state change is paired with its event on every path, guarded only by event_sender being Some, with fields from the same values: '
           'InscriptionCreated↔Origin::New entry insert; InscriptionTransferred↔Origin::Old arm; RuneMinted↔mint()=Some credit; RuneEtched↔create_rune_entry insert; '
           'RuneTransferred↔each encoded output balance; RuneBurned↔each self.burned credit')
  ctx.rule('R37.2', 'the result of every blocking_send(Event) is tested (a closed channel aborts indexing instead of losing events)')
  ctx.rule('R37.3', 'mint counts: RuneUpdater::mint returns Some exactly on the path that stores mints + 1, and in index_runes the RuneMinted send is controlled by nothing but that result being Some '
           '(and the sender being attached): no further condition (e.g. on the amount) may drop the event of a counted mint')
  ctx.rule('R37.4', 'charms at creation: once InscriptionCreated has been sent for a new inscription, update_inscription_location does not write SEQUENCE_NUMBER_TO_INSCRIPTION_ENTRY again on that path')

  all_sends = []
  for b in F.bodies.values():
    if b.file.startswith('src/index/updater'):
      es = event_sends(b)
      all_sends += [(b, c, v, f) for c, v, f in es]
  ctx.sites(len(all_sends))
  ctx.floor('R37.1', 'event emission sites', len(all_sends), 6)
  seen_variants = {v for _, _, v, _ in all_sends}
  ev = F.adts.get(EVENT)
  ctx.anchor('R37.1', 'Event enum', ev is not None)
  if ev is not None:
    for v in ev['variants']:
      ctx.ob('R37.1', EVENT, f'variant {v["n"]} is emitted somewhere', v['n'] in seen_variants, 'an event kind is never emitted', f"{ev['file']}:{ev['line']}", nontrivial=False)
  for b, c, v, f in all_sends:
    ctx.analysed(b)
    ctx.ob('R37.2', b.n, f'blocking_send({v}) result tested', result_is_checked(b, c), 'send failure ignored: events can be lost while the index advances', where(b, c.line))
    bad = [g for g in guards_of(b, c.bb) if not sender_guard(g) and _guard_between(b, g, c, v)]
    # block_height <- self.height
    if 'block_height' in f:
      ctx.ob('R37.1', b.n, f'{v}.block_height <- self.height', 'height' in pnames(b, f['block_height']), '', where(b, c.line))

  def sends_of(body, variant):
    return [(c, f) for bb, c, v, f in all_sends if bb is body and v == variant]

  # ---- inscriptions
  ub = ctx.body('R37.1', UIL)
  if ub is not None:
    ws = T.writes([ub])
    ent = [c for c, k, t in ws if 'SEQUENCE_NUMBER_TO_INSCRIPTION_ENTRY' in t and k == 'insert']
    # the New-arm insert is the one whose value aggregate has all fields (not a functional update of a loaded entry)
    created = sends_of(ub, 'InscriptionCreated')
    transferred = sends_of(ub, 'InscriptionTransferred')
    ctx.anchor('R37.1', 'InscriptionCreated / InscriptionTransferred sends', len(created) == 1 and len(transferred) == 1, ub.n)
    new_ins = [c for c in ent if 'inscription_number' in ub.slice_of([c.args[2]], through_calls=True).var_names() or _entry_agg_is_fresh(ub, c)]
    ctx.anchor('R37.1', 'Origin::New entry insert', len(new_ins) == 1, ub.n)
    if len(created) == 1 and len(new_ins) == 1:
      sc, f = created[0]
      ins = new_ins[0]
      ctx.ob('R37.1', ub.n, 'entry insert ⇒ InscriptionCreated (modulo event_sender)', paired(ub, ins.bb, sc.bb, allowed_guard=sender_guard), 'an inscription can be created without an event', where(ub, sc.line))
      ctx.ob('R37.1', ub.n, 'InscriptionCreated ⇒ entry insert', always_with(ub, sc.bb, ins.bb), 'an event can be emitted for an inscription that is not stored', where(ub, sc.line))
      later = [c for c in ent if c is not ins and (ub.strictly_reaches(sc.bb, c.bb) or ub.strictly_reaches(ins.bb, c.bb))]
      ctx.ob('R37.4', ub.n, 'no second entry write after the creation insert / event', not later, f'the stored entry is rewritten at line(s) {[c.line for c in later]} after the event carried the earlier charms', where(ub, sc.line))
      eo = [o for o in origins(ub, ins.args[2])]
      agg = None
      for c2 in ub.slice_of([ins.args[2]]).calls:
        if c2.is_('<ord::index::entry::InscriptionEntry as ord::index::entry::Entry>::store'):
          for o in origins(ub, c2.args[0]):
            if o.kind == 'agg':
              agg = dict(zip(o.agg['fields'], o.agg['ops']))
      ctx.anchor('R37.1', 'InscriptionEntry literal stored in the New arm', agg is not None, ub.n)
      if agg is not None:
        for ef, sf in (('charms', 'charms'), ('inscription_id', 'id'), ('sequence_number', 'sequence_number')):
          a, bnames = _loc(ub, f[ef]), _loc(ub, agg[sf])
          ctx.ob('R37.1', ub.n, f'InscriptionCreated.{ef} is the same value as entry.{sf}', bool(a & bnames), f'{a} vs {bnames}', where(ub, sc.line))
        # parents: ids and sequence numbers pushed in the same loop (see C07); here: event field <- parent_inscription_ids vector
        ctx.ob('R37.1', ub.n, 'InscriptionCreated.parent_inscription_ids <- the vector filled in the parent loop', _vec_push_sibling(ub, f['parent_inscription_ids'], agg['parents']), '', where(ub, sc.line))
      lo = ub.slice_of([f['location']])
      ctx.ob('R37.1', ub.n, 'InscriptionCreated.location = (!unbound).then_some(new_satpoint)', lo.has_call('re:bool>::then_some$') and 'new_satpoint' in lo.var_names() and 'Not' in lo.unops, lo.describe(), where(ub, sc.line))
    if len(transferred) == 1:
      sc, f = transferred[0]
      # Old arm: the switch on flotsam.origin's discriminant
      arm = None
      for bi in ub.reachable_from(0):
        t = ub.term(bi)
        if t['k'] == 'switch':
          for d in ub.defs().get((t['d'].get('m') or t['d'].get('c') or {}).get('l'), []):
            if d['kind'] == 'assign' and d['rv']['k'] == 'discr' and any(isinstance(e, dict) and e.get('n') == 'origin' for e in (d['rv']['p'].get('p') or [])):
              for lab, tgt in ub.switch_edges(bi):
                if ub.reaches(tgt, sc.bb) and ub.dominates(tgt, sc.bb):
                  arm = tgt
      ctx.anchor('R37.1', 'Origin::Old arm', arm is not None, ub.n)
      if arm is not None:
        ctx.ob('R37.1', ub.n, 'Origin::Old ⇒ InscriptionTransferred (modulo event_sender)', always_with(ub, arm, sc.bb, allowed_guard=sender_guard), 'a transfer can happen without an event', where(ub, sc.line))
      ctx.ob('R37.1', ub.n, 'InscriptionTransferred.new_location <- new_satpoint, old_location <- origin.old_satpoint',
             'new_satpoint' in pnames(ub, f['new_location']) and 'old_satpoint' in pnames(ub, f['old_location']) | _loc_names(ub, f['old_location']), f"{pnames(ub, f['new_location'])} {pnames(ub, f['old_location'])}", where(ub, sc.line))
      ctx.ob('R37.1', ub.n, 'InscriptionTransferred.sequence_number <- origin.sequence_number, inscription_id <- flotsam.inscription_id',
             'sequence_number' in (pnames(ub, f['sequence_number']) | _loc_names(ub, f['sequence_number'])) and 'inscription_id' in (pnames(ub, f['inscription_id']) | _loc_names(ub, f['inscription_id'])), '', where(ub, sc.line))

  # ---- runes
  ir = ctx.body('R37.1', IR)
  if ir is not None:
    minted = sends_of(ir, 'RuneMinted')
    mc = ir.calls_to(MINT)
    ctx.anchor('R37.1', 'RuneMinted send and mint call', len(minted) == 1 and len(mc) == 1, ir.n)
    if len(minted) == 1 and len(mc) == 1:
      sc, f = minted[0]
      credit = [a for a in ir.calls_to(ADD_ASSIGN) if any(o.kind == 'call' and o.call is mc[0] for o in origins(ir, a.args[1]))]
      ctx.anchor('R37.1', 'unallocated += minted amount', len(credit) == 1, ir.n)
      if len(credit) == 1:
        ctx.ob('R37.1', ir.n, 'mint credit ⇒ RuneMinted (modulo event_sender)', always_with(ir, credit[0].bb, sc.bb, allowed_guard=sender_guard), 'a mint can be credited without an event', where(ir, sc.line))
        ctx.ob('R37.1', ir.n, 'RuneMinted ⇒ mint credit', ir.dominates(credit[0].bb, sc.bb) or always_with(ir, sc.bb, credit[0].bb), '', where(ir, sc.line))
      from ..guards import all_guards, expand
      from ..intervals import fmt_desc
      extra = [(fmt_desc(g.atom)[:120], g.pol) for g in expand(ir, all_guards(ir, sc.bb)) if not fmt_desc(g.atom).startswith('discr(')]
      ctx.ob('R37.3', ir.n, 'RuneMinted is controlled only by Option/Result tests (mint() = Some, sender attached)', not extra, f'the event of a counted mint is dropped depending on {extra}', where(ir, sc.line))
      mb = F.body(MINT)
      if ctx.anchor('R37.3', 'RuneUpdater::mint body', mb is not None, MINT):
        ctx.analysed(mb)
        wins = [c for c, k, t in T.writes() if c.body is mb and k == 'insert']
        somes = [bi for bi in mb.reachable_from(0) for st_ in mb.blocks[bi]['s'] if st_.get('rv', {}).get('k') == 'agg' and st_['rv'].get('variant') == 'Some']
        ctx.ob('R37.3', mb.n, 'one entry write (mints + 1) and one Some(..) return', len(wins) == 1 and len(somes) == 1, f'{len(wins)} writes / {len(somes)} Some returns', where(mb, mb.line))
        if len(wins) == 1 and len(somes) == 1:
          ctx.ob('R37.3', mb.n, 'Some(..) is returned only after the write, and the write is followed by Some(..) on every non-error path', mb.dominates(wins[0].bb, somes[0]) and always_with(mb, wins[0].bb, somes[0]), '', where(mb, wins[0].line))
          inc = [st_ for blk in mb.blocks for st_ in blk['s'] if st_.get('rv', {}).get('k') == 'bin' and st_['rv']['op'].startswith('Add') and any(isinstance(e, dict) and e.get('n') == 'mints' for e in (((st_['rv']['a'].get('c') or st_['rv']['a'].get('m') or {}).get('p')) or []))]
          ctx.ob('R37.3', mb.n, 'the stored entry has mints + 1', len(inc) == 1 and mb.const_of(inc[0]['rv']['b']) == 1, f'{len(inc)} increments', where(mb, wins[0].line))
      ao = ir.slice_of([f['amount']])
      ctx.ob('R37.1', ir.n, 'RuneMinted.amount <- the Lot returned by mint()', mc[0] in ao.calls and not ao.binops - {'Eq', 'Ne'}, ao.describe(), where(ir, sc.line))
      io = ir.slice_of([f['rune_id']], through_calls=True)
      ctx.ob('R37.1', ir.n, 'RuneMinted.rune_id <- artifact.mint()', io.has_call('re:Artifact::mint$'), io.describe(), where(ir, sc.line))
    tr = sends_of(ir, 'RuneTransferred')
    enc = ir.calls_to('ord::index::Index::encode_rune_balance')
    ctx.anchor('R37.1', 'RuneTransferred send and encode_rune_balance', len(tr) == 1 and len(enc) == 1, ir.n)
    if len(tr) == 1 and len(enc) == 1:
      sc, f = tr[0]
      e = enc[0]
      ctx.ob('R37.1', ir.n, 'encoded balance ⇒ RuneTransferred (modulo event_sender)', always_with(ir, e.bb, sc.bb, allowed_guard=sender_guard, escape_at=[e.bb]), 'an output balance can be written without an event', where(ir, sc.line))
      ctx.ob('R37.1', ir.n, 'RuneTransferred ⇒ encoded balance', ir.dominates(e.bb, sc.bb), '', where(ir, sc.line))
      same_el = _same_next(ir, f['rune_id'], e.args[0]) and _same_next(ir, f['amount'], e.args[1])
      ctx.ob('R37.1', ir.n, 'RuneTransferred.{rune_id, amount} are the encoded (id, balance) of the same loop element', same_el, '', where(ir, sc.line))
      ins = [c for c, k, t in T.writes([ir]) if 'OUTPOINT_TO_RUNE_BALANCES' in t and k == 'insert']
      if ins:
        a, bnames = _loc(ir, f['outpoint']), ir.slice_of([ins[0].args[1]]).locals
        ctx.ob('R37.1', ir.n, 'RuneTransferred.outpoint is the key the balances are stored under', bool(a & bnames), '', where(ir, sc.line))
    bu = sends_of(ir, 'RuneBurned')
    ctx.anchor('R37.1', 'RuneBurned send', len(bu) == 1, ir.n)
    if len(bu) == 1:
      sc, f = bu[0]
      credit = [a for a in ir.calls_to(ADD_ASSIGN) if any(o.kind == 'param' and 'burned' in o.fields for o in _deep(ir, a.args[0]))]
      ctx.anchor('R37.1', 'self.burned credit', len(credit) == 1, ir.n)
      if len(credit) == 1:
        ctx.ob('R37.1', ir.n, 'burn credit ⇒ RuneBurned (modulo event_sender)', always_with(ir, credit[0].bb, sc.bb, allowed_guard=sender_guard, escape_at=[credit[0].bb]), 'a burn can be recorded without an event', where(ir, sc.line))
        ctx.ob('R37.1', ir.n, 'RuneBurned ⇒ burn credit', ir.dominates(credit[0].bb, sc.bb), '', where(ir, sc.line))
        ctx.ob('R37.1', ir.n, 'RuneBurned.{rune_id, amount} are the credited (id, amount) of the same loop element',
               _same_next(ir, f['amount'], credit[0].args[1]) and bool(_nexts(ir, f['rune_id']) & _nexts(ir, credit[0].args[0])), '', where(ir, sc.line))
  cr = ctx.body('R37.1', CREATE)
  if cr is not None:
    et = sends_of(cr, 'RuneEtched')
    ins = [c for c, k, t in T.writes([cr]) if 'RUNE_ID_TO_RUNE_ENTRY' in t and k == 'insert']
    ctx.anchor('R37.1', 'RuneEtched send and entry insert', len(et) == 1 and len(ins) == 1, cr.n)
    if len(et) == 1 and len(ins) == 1:
      sc, f = et[0]
      ctx.ob('R37.1', cr.n, 'entry insert ⇒ RuneEtched (modulo event_sender)', always_with(cr, ins[0].bb, sc.bb, allowed_guard=sender_guard), 'a rune can be created without an event', where(cr, sc.line))
      ctx.ob('R37.1', cr.n, 'RuneEtched ⇒ entry insert', cr.dominates(ins[0].bb, sc.bb), '', where(cr, sc.line))
      ctx.ob('R37.1', cr.n, 'RuneEtched.rune_id <- id, txid <- txid', 'id' in pnames(cr, f['rune_id']) and 'txid' in pnames(cr, f['txid']), '', where(cr, sc.line))


def _guard_between(b, g, c, v):
  return False


def _entry_agg_is_fresh(body, c):
  return False


def _loc(body, op):
  """locals on the copy chain of an operand (no calls)"""
  return body.slice_of([op], through_calls=False).locals


def _loc_names(body, op):
  return body.slice_of([op], through_calls=False).var_names() | {str(f) for f in body.slice_of([op], through_calls=False).fields}


def _deep(body, op, depth=0):
  out = []
  for o in origins(body, op):
    out.append(o)
    if o.kind == 'call' and o.call.args and depth < 4:
      out.extend(_deep(body, o.call.args[0], depth + 1))
  return out


def _nexts(body, op):
  return {c for c in body.slice_of([op]).calls if c.is_('re:Iterator>::next$', 're:Iterator::next$')}


def _same_next(body, a, b):
  """both operands derive from the same Iterator::next call (same loop element)"""
  na = {o.call for o in _deep(body, a) if o.kind == 'call' and o.call.is_('re:Iterator>::next$', 're:Iterator::next$')}
  nb = {o.call for o in _deep(body, b) if o.kind == 'call' and o.call.is_('re:Iterator>::next$', 're:Iterator::next$')}
  return bool(na & nb)


def _vec_push_sibling(body, ev_op, entry_op):
  """the two vectors are filled by pushes in the same basic-block region (same loop): every push onto one is
  accompanied by a push onto the other"""
  from ..effects import always_with
  la, lb = _loc(body, ev_op), _loc(body, entry_op)
  pa = [c for c in body.calls if c.is_('std::vec::Vec::push') and (_loc(body, c.args[0]) & la)]
  pb = [c for c in body.calls if c.is_('std::vec::Vec::push') and (_loc(body, c.args[0]) & lb)]
  if len(pa) != 1 or len(pb) != 1:
    return False
  return always_with(body, pa[0].bb, pb[0].bb, escape_at=[pa[0].bb]) and (always_with(body, pb[0].bb, pa[0].bb, escape_at=[pb[0].bb]) or body.dominates(pa[0].bb, pb[0].bb))


# sensitivity pack (thorough tier)
MUTANTS = [{'name': 'seeded-C37-a', 'patch': 'C37-a/patch.diff', 'expect': ('R37.4', 'update_inscription_location', '')},
           {'name': 'seeded-C37-b', 'patch': 'C37-b/patch.diff', 'expect': ('R37.3', 'index_runes', 'RuneMinted is controlled')},
           {'name': 'burn event dropped', 'file': 'src/index/updater/rune_updater.rs', 'old': '      if let Some(sender) = self.event_sender {\n        sender.blocking_send(Event::RuneBurned {\n          block_height: self.height,\n          txid,\n          rune_id: id,\n          amount: amount.n(),\n        })?;\n      }\n', 'new': '', 'expect': ('R37.1', '', 'RuneBurned')},
           {'name': 'mint event send failure ignored', 'file': 'src/index/updater/rune_updater.rs', 'old': '            amount: amount.n(),\n          })?;\n        }\n      }\n', 'new': '            amount: amount.n(),\n          }).ok();\n        }\n      }\n', 'expect': ('R37.2', '', 'RuneMinted')},
           {'name': 'etched event before the entry is stored and only for non-reserved', 'file': 'src/index/updater/rune_updater.rs', 'old': '    if let Some(sender) = self.event_sender {\n      sender.blocking_send(Event::RuneEtched {', 'new': '    if let Some(sender) = self.event_sender.filter(|_| id.block % 2 == 0) {\n      sender.blocking_send(Event::RuneEtched {', 'expect': ('R37.1', '', 'RuneEtched')}]


# behaviour-preserving pack (thorough tier)
NEUTRAL = [
  {'name': 'inscription number: arms swapped under !cursed', 'file': 'src/index/updater/inscription_updater.rs', 'old': '        let inscription_number = if cursed {\n          let number: i32 = self.cursed_inscription_count.try_into().unwrap();\n          self.cursed_inscription_count += 1;\n          -(number + 1)\n        } else {\n          let number: i32 = self.blessed_inscription_count.try_into().unwrap();\n          self.blessed_inscription_count += 1;\n          number\n        };', 'new': '        let inscription_number = if !cursed {\n          let number: i32 = self.blessed_inscription_count.try_into().unwrap();\n          self.blessed_inscription_count += 1;\n          number\n        } else {\n          let number: i32 = self.cursed_inscription_count.try_into().unwrap();\n          self.cursed_inscription_count += 1;\n          -(number + 1)\n        };'},
{'name': 'event fields reordered', 'file': 'src/index/updater/rune_updater.rs', 'old': '        sender.blocking_send(Event::RuneBurned {\n          block_height: self.height,\n          txid,\n', 'new': '        sender.blocking_send(Event::RuneBurned {\n          txid,\n          block_height: self.height,\n'}]
