"""C19 — inscription content is served faithfully and sandboxed: CSP layer placement, CSP source allow-list, the hidden check
for the very id whose body is served (incl. delegates), cache immutability only for non-negative sat indices, and the
content-encoding decision (DESIGN §5 C19)."""
import re
from ..core import where
from ..facts import norm, origins, guards_of
from ..guards import all_guards, call_polarity, find_cmp, names_of
from .common import success_return_blocks, result_is_checked, short, reaches_avoiding, deep_origins, origin_fields

CR = 'ord::subcommand::server::r::content_response'
RUN_CLOSURE = 'ord::subcommand::server::Server::run::{closure#0}'
SPAWN = 'ord::subcommand::server::Server::spawn'
GET = 'ord::index::Index::get_inscription_by_id'
HIDDEN = 'ord::settings::Settings::is_hidden'

# layers that never produce a response of their own (reviewed, one reason each)
TRANSPARENT_LAYERS = {
    'axum::Extension': 'only inserts a request extension',
    'tower_http::set_header::SetResponseHeaderLayer': 'only adds a header to the inner response',
    'tower_http::compression::CompressionLayer': 'only re-encodes the inner response body',
}
# CSP source expressions allowed in explorer responses
ALLOWED_SOURCES = {
    "'self'", "'unsafe-eval'", "'unsafe-inline'", 'data:', 'blob:',
    '*:*/content/', '*:*/blockheight', '*:*/blockhash', '*:*/blockhash/', '*:*/blocktime', '*:*/r/',
    '{origin}/content/', '{origin}/blockheight', '{origin}/blockhash', '{origin}/blockhash/', '{origin}/blocktime', '{origin}/r/',
    '{origin}',  # the configured proxy origin in Server::proxy
    'https://cdn.jsdelivr.net', 'https://ajax.googleapis.com',  # the two script CDNs used by preview pages (script-src-elem only)
}
CDN_ONLY_IN = 'script-src-elem'
DIRECTIVES = {'default-src', 'script-src', 'script-src-elem', 'style-src', 'img-src', 'font-src', 'media-src', 'connect-src', 'frame-src', 'object-src', 'worker-src', 'child-src', 'frame-ancestors', 'base-uri', 'form-action'}
# raw-transaction views, not content routes (reviewed exceptions, DESIGN §7 O3)
RAW_TX_VIEWS = ['ord::subcommand::server::Server::decode', 'ord::subcommand::server::Server::transaction', 'ord::subcommand::server::r::tx']

ASSUMPTIONS = ["byte-exactness of served bodies is a value statement and is not decided",
               "tower-http layer behaviour as documented: Extension / SetResponseHeader / Compression never answer a request themselves; ValidateRequestHeader answers 401 and CorsLayer answers preflight requests themselves"]


def decode_fmt(arr):
  """decode the byte template of core::fmt::Arguments::new: <len><bytes> literal pieces, 0xC0 = next argument,
  0xC8 lo hi = positional argument; returns a string with {origin} placeholders"""
  out = []
  i = 0
  n = len(arr)
  while i < n:
    b = arr[i]
    if b == 0:
      break
    if b < 0x80:
      out.append(bytes(arr[i + 1:i + 1 + b]).decode('utf-8', 'replace'))
      i += 1 + b
    elif b == 0xC0:
      out.append('{origin}')
      i += 1
    elif b == 0xC8:
      out.append('{origin}')
      i += 3
    else:
      out.append('{?}')
      i += 1
  return ''.join(out)


def body_consts(b):
  for blk in b.blocks:
    if blk['cleanup']:
      continue
    ops = []
    for s in blk['s']:
      rv = s.get('rv')
      if rv:
        for k in ('o', 'a', 'b'):
          if isinstance(rv.get(k), dict):
            ops.append((rv[k], s.get('l')))
        for o in rv.get('ops', []):
          ops.append((o, s.get('l')))
    t = blk['t']
    for o in t.get('args', []):
      ops.append((o, t.get('l')))
    for o, l in ops:
      k = o.get('k')
      if k and isinstance(k.get('v'), dict):
        v = k['v']
        if 's' in v:
          yield v['s'], l
        elif 'arr' in v and all(isinstance(x, int) and 0 <= x < 256 for x in v['arr']):
          yield decode_fmt(v['arr']), l


def csp_policies(F):
  out = []
  for b in F.bodies.values():
    if not b.file.startswith('src/subcommand/server'):
      continue
    for s, l in body_consts(b):
      if re.search(r'(^|[ ;])[a-z-]+-src(-elem)? ', s):
        out.append((b, l, s))
  return out


def run(ctx):
  F = ctx.facts
  ctx.rule('R19.1', 'on the explorer router the layer SetResponseHeaderLayer::if_not_present(CONTENT_SECURITY_POLICY, ..) is applied, and every layer applied after (outside) it is one that never produces a response of its own; '
           'every other Router served is the redirect-only router')
  ctx.rule('R19.2', 'every constant Content-Security-Policy in the server uses only allowed source expressions (no bare *, no bare scheme, no foreign host; CDNs only in script-src-elem); content_response always sets a policy')
  ctx.rule('R19.3', 'content_response is the only body that moves an inscription body into a response; for every call of content_response and every get_inscription_by_id(ID) that can supply its inscription, '
           'a ¬Settings::is_hidden(ID\') guard with ID\' of the same origin as ID lies on every path to the call')
  ctx.rule('R19.6', 'content_inner (the body-serving handler behind the proxy layer, which replaces every local 404 by the upstream answer): every not-found exit is dominated by the '
           '¬is_hidden test of the requested id, so a hidden id is answered with the placeholder, never with 404')
  ctx.rule('R19.4', 'content addressed by sat index is immutable only for non-negative indices: content_inner(cache <- inscription_index >= 0); content_response emits `immutable` only under cache')
  ctx.rule('R19.5', 'content_response: Content-Encoding passed through only if acceptable; decompressed only if server_config.decompress ∧ encoding == BROTLI; otherwise NotAcceptable; content type falls back to application/octet-stream')

  # ---------------- R19.1
  rb = ctx.body('R19.1', RUN_CLOSURE)
  if rb is not None:
    layers = [c for c in rb.calls if c.is_('axum::Router::layer')]
    # keep the chain that ends in the router handed to spawn: follow receivers
    by_recv = {}
    for c in layers:
      for o in origins(rb, c.args[0]):
        if o.kind == 'call':
          by_recv.setdefault(id(o.call), []).append(c)
    def layer_type(c):
      ga = c.f.get('ga') or ''
      # second generic argument is the layer type
      inner = ga.strip('[]')
      depth = 0
      parts, cur = [], ''
      for ch in inner:
        if ch in '<([':
          depth += 1
        elif ch in '>)]':
          depth -= 1
        if ch == ',' and depth == 0:
          parts.append(cur.strip())
          cur = ''
        else:
          cur += ch
      parts.append(cur.strip())
      return norm(parts[1]) if len(parts) > 1 else '?'
    # find the CSP layer
    csp = []
    for c in layers:
      if layer_type(c) == 'tower_http::set_header::SetResponseHeaderLayer':
        sl = rb.slice_of([c.args[1]])
        if any(cd.endswith('CONTENT_SECURITY_POLICY') for cd in sl.constdefs) and sl.has_call('re:SetResponseHeaderLayer.*::if_not_present$'):
          csp.append(c)
    ctx.ob('R19.1', rb.n, 'the explorer router has exactly one default-CSP layer (if_not_present)', len(csp) == 1, f'{len(csp)} CSP layers', where(rb, rb.line))
    if len(csp) == 1:
      # layers applied after the CSP layer: those whose receiver chain passes through the CSP layer call
      cur = csp[0]
      outer = []
      seen = set()
      frontier = [cur]
      while frontier:
        x = frontier.pop()
        for c in layers + [c for c in rb.calls if c.is_('axum::Router::with_state', 'axum::Router::merge', 'axum::Router::fallback', 'axum::Router::route')]:
          if id(c) in seen:
            continue
          if any(o.kind == 'call' and o.call is x for o in origins(rb, c.args[0])):
            seen.add(id(c))
            frontier.append(c)
            if c.is_('axum::Router::layer'):
              outer.append(c)
            elif not c.is_('axum::Router::with_state'):
              ctx.ob('R19.1', rb.n, f'{short(c.name)} after the CSP layer', False, 'routes added after the CSP layer are not covered by it', where(rb, c.line))
      ctx.extra['layers_outside_csp'] = [layer_type(c) for c in outer]
      for c in outer:
        lt = layer_type(c)
        ctx.ob('R19.1', rb.n, f'layer outside the CSP layer: {lt}', lt in TRANSPARENT_LAYERS,
               'this layer can answer a request by itself (401 / preflight) and its response bypasses the default Content-Security-Policy layer', where(rb, c.line))
      # every route / merge precedes the CSP layer: the CSP layer's receiver chain includes the fallback and merge calls
      chain = [o.call.name for o in deep_origins(rb, csp[0].args[0]) if o.kind == 'call']
      ctx.ob('R19.1', rb.n, 'CSP layer is applied after fallback(..) and merge(proxiable_routes)', 'axum::Router::fallback' in chain and 'axum::Router::merge' in chain, f'{[short(x) for x in chain[:8]]}', where(rb, csp[0].line))
    # the router handed to spawn is the end of that chain
    sp = rb.calls_to(SPAWN)
    ctx.floor('R19.1', 'Server::spawn call sites', len(sp), 2)
    for c in sp:
      names = {o.name for o in deep_origins(rb, c.args[2], named_terminal=True) if o.name} | {o.name for a in c.args for o in deep_origins(rb, a, named_terminal=True) if o.name}
      ctx.ob('R19.1', rb.n, 'spawn(.., router <- the layered explorer router)', 'router' in names, f'{names}', where(rb, c.line), nontrivial=False)
  # into_make_service sites
  ims = F.call_sites('re:axum::Router.*::into_make_service$')
  ctx.floor('R19.1', 'into_make_service sites', len(ims), 3)
  for c in ims:
    b = c.body
    ro = origins(b, c.args[0])
    fresh = [o for o in deep_origins(b, c.args[0]) if o.kind == 'call' and o.call.is_('re:axum::Router.*::new$')]
    if fresh:
      fb = [o.call for o in deep_origins(b, c.args[0]) if o.kind == 'call' and o.call.is_('axum::Router::fallback')]
      ok = len(fb) == 1 and any(k.get('fn', '').endswith('redirect_http_to_https') for a in fb[0].args for k in [a.get('k') or {}]) or any('redirect_http_to_https' in str(fn) for x in fb for fn in b.slice_of(x.args[1:]).fnrefs)
      routes = [o.call for o in deep_origins(b, c.args[0]) if o.kind == 'call' and o.call.is_('axum::Router::route', 'axum::Router::merge')]
      ctx.ob('R19.1', b.n, 'a Router built in place is the redirect-only router (single fallback handler redirect_http_to_https, no routes)', ok and not routes,
             'a second router serves content without the CSP layer', where(b, c.line))
    else:
      ctx.ob('R19.1', b.n, 'served router is the one passed in by Server::run', b.n.startswith(SPAWN), '', where(b, c.line), nontrivial=False)

  # ---------------- R19.2
  pols = csp_policies(F)
  ctx.floor('R19.2', 'constant CSP strings in the server', len(pols), 12)
  for b, l, s in pols:
    ctx.analysed(b)
    for part in s.split(';'):
      toks = part.split()
      if not toks:
        continue
      d = toks[0]
      okd = d in DIRECTIVES
      ctx.ob('R19.2', b.n, f'directive `{d}`', okd, f'unknown CSP directive in {s!r}', where(b, l), nontrivial=False)
      for t in toks[1:]:
        ok = t in ALLOWED_SOURCES and (not t.startswith('https://') or d == CDN_ONLY_IN)
        ctx.ob('R19.2', b.n, f'{d} source `{t}`', ok, f'CSP source expression {t!r} is not on the allow-list (policy {s!r})', where(b, l), nontrivial=not t.startswith("'"))
  crb = ctx.body('R19.2', CR)
  if crb is not None:
    sets = [c for c in crb.calls if c.is_('re:HeaderMap.*::(insert|append)$') and any(cd.endswith('CONTENT_SECURITY_POLICY') for cd in crb.slice_of([c.args[1]]).constdefs)]
    ins = [c for c in sets if c.name.endswith('::insert')]
    for rb_ in success_return_blocks(crb):
      somes = True
      ok = not reaches_avoiding(crb, 0, rb_, {c.bb for c in ins})
      ctx.ob('R19.2', crb.n, 'every success return of content_response passed an insert(CONTENT_SECURITY_POLICY, ..)', ok, 'content can be returned without its sandboxing policy', where(crb, crb.line))

  # ---------------- R19.3
  users = F.call_sites('ord::inscriptions::inscription::Inscription::into_body')
  ctx.floor('R19.3', 'Inscription::into_body call sites', len(users), 2)
  for c in users:
    ctx.ob('R19.3', c.body.n, 'Inscription::into_body caller', c.body.n == CR, 'an inscription body is moved into a response outside content_response', where(c.body, c.line), nontrivial=False)
  # body() borrowers under the server: reviewed
  sites = F.call_sites(CR)
  ctx.sites(len(sites))
  ctx.floor('R19.3', 'content_response call sites', len(sites), 3)
  n_defs = 0
  for c in sites:
    b = c.body
    ctx.analysed(b)
    gets = [o.call for o in deep_origins(b, c.args[0]) if o.kind == 'call' and o.call.is_(GET)]
    ctx.anchor('R19.3', f'get_inscription_by_id feeding content_response in {b.n}', len(gets) >= 1, b.n)
    gs = all_guards(b, c.bb)
    hid = [g for g in gs if call_polarity(g, r'Settings::is_hidden$') is False]
    for g_ in gets:
      n_defs += 1
      ido = _origin_keys(b, g_.args[1])
      ok = False
      # idiom: `opt_id.is_some_and(|id| settings.is_hidden(id))` — a hidden test on the payload of the Option the id was taken from
      for h in gs:
        if call_polarity(h, r'Option::is_some_and$') is not False:
          continue
        for x in [x for x in h.slice().calls if x.is_('std::option::Option::is_some_and')]:
          tests_payload = False
          for cdef in b.slice_of([x.args[1]], through_calls=False).closures:
            cbody = F.bodies.get(cdef)
            if cbody is None:
              continue
            for hc_ in cbody.calls_to(HIDDEN):
              if any(o.kind == 'param' and o.local == 2 for o in deep_origins(cbody, hc_.args[1])):
                tests_payload = True
          if tests_payload and (_origin_keys(b, x.args[0]) & ido) and (b.dominates(h.bb, g_.bb) or not reaches_avoiding(b, g_.bb, c.bb, {h.bb})):
            ok = True
      for h in hid:
        hc = [x for x in h.slice().calls if x.is_(HIDDEN)]
        for x in hc:
          if _origin_keys(b, x.args[1]) & ido:
            # the guard must be on every path from the fetch to the response (or before the fetch)
            # the guard is evaluated before the fetch (it dominates it), or lies on every path from the fetch to the response
            if b.dominates(h.bb, g_.bb) or not reaches_avoiding(b, g_.bb, c.bb, {h.bb}):
              ok = True
      label = 'content_response<-get_inscription_by_id(id<-' + '|'.join(sorted(ido)) + ')'
      ctx.ob('R19.3', b.n, label, ok, 'the body of this inscription is served without testing Settings::is_hidden for its id (a hidden inscription is served through a delegating one)', where(b, g_.line))
  ctx.floor('R19.3', 'get_inscription_by_id definitions reaching content_response', n_defs, 5)
  for v in RAW_TX_VIEWS:
    ctx.note(f'reviewed exception (raw transaction view, not a content route): {v}')

  # ---------------- R19.4
  sb = F.body('ord::subcommand::server::r::sat_at_index_content::{closure#0}')
  ctx.anchor('R19.4', 'sat_at_index_content body', sb is not None)
  if sb is not None:
    ci = sb.calls_to('ord::subcommand::server::r::content_inner')
    ctx.anchor('R19.4', 'content_inner call in sat_at_index_content', len(ci) == 1, sb.n)
    for c in ci:
      from ..facts import describe_cond
      d = describe_cond(sb, c.args[5])
      ok = isinstance(d, tuple) and d[0] == 'cmp' and d[1] == 'Ge' and d[3] == ('const', 0) and 'inscription_index' in str(names_of(d[2]) | _n(sb, c.args[5]))
      ctx.ob('R19.4', sb.n, 'content_inner(cache <- inscription_index >= 0)', ok, f'cache flag is {d}', where(sb, c.line))
  n_ci = 0
  for fb in F.family('ord::subcommand::server::r::content_inner'):
    for c in fb.calls_to(CR):
      n_ci += 1
      os_ = deep_origins(fb, c.args[3])
      okc = bool(os_) and all(o.kind in ('upvar', 'param') and o.name == 'cache' for o in os_)
      ctx.ob('R19.4', fb.n, 'content_inner forwards its own cache flag to content_response', okc,
             f'the cache argument is {os_}: content addressed relative to the newest inscription on a sat would be marked immutable', where(fb, c.line))
  ctx.floor('R19.4', 'content_response calls in content_inner', n_ci, 1)
  cb = F.body('ord::subcommand::server::r::content::{closure#0}')
  if cb is not None:
    for c in cb.calls_to('ord::subcommand::server::r::content_inner'):
      ctx.ob('R19.4', cb.n, 'content by id is cacheable (cache = true)', cb.const_of(c.args[5]) is True, '', where(cb, c.line), nontrivial=False)
  if crb is not None:
    # the cache-control value: "immutable" only on the cache==true edge
    imm = [(bi, s) for bi, blk in enumerate(crb.blocks) for s in blk['s'] if 'immutable' in str(s.get('rv', ''))]
    imm += [(bi, None) for bi, blk in enumerate(crb.blocks) if blk['t']['k'] == 'call' and 'immutable' in str(blk['t']['args'])]
    ctx.anchor('R19.4', '"immutable" cache-control constant', len(imm) >= 1, crb.n)
    for bi, s in imm:
      gs = [g for g in guards_of(crb, bi) if any(o.kind == 'param' and o.name == 'cache' for o in origins(crb, g.term['d'])) and g.cond_true_live() is True]
      ctx.ob('R19.4', crb.n, '`immutable` emitted only under cache == true', len(gs) == 1, 'immutable cache-control is emitted regardless of the cache flag', where(crb, crb.line))
    cc = [c for c in crb.calls if c.is_('re:HeaderMap.*::insert$') and any(cd.endswith('CACHE_CONTROL') for cd in crb.slice_of([c.args[1]]).constdefs)]
    ctx.ob('R19.4', crb.n, 'Cache-Control is set exactly once, on every path', len(cc) == 1 and all(crb.dominates(cc[0].bb, r_) for r_ in success_return_blocks(crb) if crb.reaches(cc[0].bb, r_)), '', where(crb, crb.line))
  sa = F.body('ord::subcommand::server::r::sat_at_index::{closure#0}') or F.body('ord::subcommand::server::r::sat_at_index::{closure#0}::{closure#0}')
  for sa in F.family('ord::subcommand::server::r::sat_at_index'):
    ns = [(bi, blk) for bi, blk in enumerate(sa.blocks) if 'no-store' in str(blk)]
    for bi, blk in ns:
      gs = find_cmp([g for g in all_guards(sa, bi) if sa.dominates(g.bb, bi)], 'Lt', lambda n: 'inscription_index' in n or True, lambda n: ('const', 0) in n, True)
      ctx.ob('R19.4', sa.n, 'sat_at_index: no-store under inscription_index < 0', len(gs) == 1, '', where(sa, sa.line))

  # ---------------- R19.6
  n_nf = 0
  for fb in F.family('ord::subcommand::server::r::content_inner'):
    nf = []
    for bi, blk in enumerate(fb.blocks):
      if bi not in fb.reachable_from(0) or blk['cleanup']:
        continue
      for s_ in blk['s']:
        if s_.get('rv', {}).get('k') == 'agg' and s_['rv'].get('variant') == 'NotFound' and norm(s_['rv'].get('adt') or '').endswith('ServerError'):
          nf.append((bi, s_.get('l'), 'ServerError::NotFound'))
      t = blk['t']
    for c in fb.calls:
      if c.is_('re:OptionExt.*::ok_or_not_found$') and fb.reaches(0, c.bb):
        nf.append((c.bb, c.line, 'ok_or_not_found'))
    for bi, line, what in nf:
      n_nf += 1
      gs6 = [g for g in all_guards(fb, bi) if fb.dominates(g.bb, bi) and call_polarity(g, r'Settings::is_hidden$') is False]
      okh = False
      for g in gs6:
        for x in [x for x in g.slice().calls if x.is_(HIDDEN)]:
          if any(k for k in _origin_keys(fb, x.args[1]) if not k.startswith('call:')):
            okh = True
      ctx.ob('R19.6', fb.n, f'{what} exit is preceded by the hidden test of the requested id', okh,
             'a hidden inscription that is missing locally answers 404, which the proxy layer replaces by the upstream body', where(fb, line))
  ctx.floor('R19.6', 'not-found exits in content_inner', n_nf, 3)

  # ---------------- R19.5
  if crb is not None:
    ce = [c for c in crb.calls if c.is_('re:HeaderMap.*::insert$') and any(cd.endswith('CONTENT_ENCODING') for cd in crb.slice_of([c.args[1]]).constdefs)]
    ctx.anchor('R19.5', 'insert(CONTENT_ENCODING, ..)', len(ce) == 1, crb.n)
    for c in ce:
      gs = all_guards(crb, c.bb)
      acc = [g for g in gs if call_polarity(g, r'AcceptEncoding::is_acceptable$') is True]
      ctx.ob('R19.5', crb.n, 'Content-Encoding header only if accept_encoding.is_acceptable(..)', len(acc) == 1, '', where(crb, c.line))
      vo = deep_origins(crb, c.args[2])
      ctx.ob('R19.5', crb.n, 'the header value is the inscription\'s content_encoding()', any(o.kind == 'call' and o.call.is_('re:Inscription::content_encoding$') for o in vo), '', where(crb, c.line))
    dec = [c for c in crb.calls if c.is_('re:brotli.*Decompressor.*::new$')]
    ctx.anchor('R19.5', 'brotli decompressor', len(dec) == 1, crb.n)
    for c in dec:
      gs = all_guards(crb, c.bb)
      dcm = [g for g in gs if any(o.kind == 'param' and 'decompress' in o.fields for o in origins(crb, g.body.term(g.bb)['d'])) and g.pol is True]
      br = [g for g in gs if any(o == 'Eq' and p is True and ('content_encoding' in names_of(a) | names_of(b_)) and _is_brotli(crb, F, a, b_) for o, a, b_, p in g.forms())]
      nacc = [g for g in gs if call_polarity(g, r'AcceptEncoding::is_acceptable$') is False]
      ctx.ob('R19.5', crb.n, 'decompression only under ¬acceptable ∧ server_config.decompress ∧ encoding == BROTLI', len(dcm) == 1 and len(br) == 1 and len(nacc) == 1, f'{len(dcm)} {len(br)} {len(nacc)}', where(crb, c.line))
    na = [(bi, s) for bi, blk in enumerate(crb.blocks) for s in blk['s'] if s.get('rv', {}).get('k') == 'agg' and s['rv'].get('variant') == 'NotAcceptable']
    ctx.ob('R19.5', crb.n, 'otherwise Err(NotAcceptable)', len(na) == 1, '', where(crb, crb.line), nontrivial=False)
    # body with an encoding the client did not accept is never returned raw: the plain-body return is unreachable from the ¬acceptable edge without passing decompression
    ct = [c for c in crb.calls if c.is_('re:HeaderMap.*::insert$') and any(cd.endswith('CONTENT_TYPE') for cd in crb.slice_of([c.args[1]]).constdefs)]
    ctx.anchor('R19.5', 'insert(CONTENT_TYPE, ..)', len(ct) == 1, crb.n)
    for c in ct:
      sl = crb.slice_of([c.args[2]])
      ctx.ob('R19.5', crb.n, 'Content-Type <- inscription.content_type() parsed, else application/octet-stream', sl.has_call('re:Inscription::content_type$') and any(isinstance(v, dict) and v.get('s') == 'application/octet-stream' for v in sl.consts), sl.describe(), where(crb, c.line))


def _is_brotli(body, F, a, b_):
  """one side of the comparison is the constant BROTLI (by definition path, or by its evaluated value)"""
  want = (F.consts.get('ord::subcommand::server::r::BROTLI') or F.consts.get('ord::subcommand::server::BROTLI') or {}).get('v')
  vals = []
  for x in (a, b_):
    from ..facts import flat_names
    n = flat_names(x)
    if any(cd.endswith('::BROTLI') for cd in n['constdefs']):
      return True
    vals += [c for c in n['consts'] if isinstance(c, dict)]
  return any(v == want or v == {'s': 'br'} for v in vals)


def _n(body, op):
  return body.slice_of([op], through_calls=False).var_names()


def _origin_keys(body, op):
  """stable names for where an id comes from: upvar/param names, or the callee that produced it"""
  out = set()
  for o in deep_origins(body, op):
    if o.kind in ('upvar', 'param') and o.name:
      out.add(o.name + ('.' + '.'.join(o.fields) if o.fields else ''))
    elif o.kind == 'call':
      out.add('call:' + (o.call.name or '').split('::')[-1])
      break
  return out


# sensitivity pack (thorough tier): each seeded edit must be reported by the named rule instance
MUTANTS = [{'name': 'seeded-C19-a', 'patch': 'C19-a/patch.diff', 'expect': ('R19.4', 'content_inner', 'forwards its own cache flag')}]
