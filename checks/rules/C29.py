"""C29 — sat numbering matches block heights and derived attributes (DESIGN §5 C29).

Decides: R29.1 the constant tables are their closed forms (epoch starting sats, post-subsidy epoch, supply, rarity supplies, the
Sat::common fast-path constants); R29.2 Epoch::from(Sat) is the exhaustive increasing ladder over that table; R29.3 totality / no
overflow of the height↔sat functions for every u32 height and every sat below the supply (site inventory under that precondition).
Not decided: the bijection and the derived attributes as value statements."""
import math
import re
from ..core import where
from ..panics import run_inventory, guard_strings
from ..tables.sites_C29 import TABLE
from ..facts import norm, describe_operand
from ..intervals import fmt_desc, iv
from .common import match_table, string_consts

SUPPLY = 2099999997690000
HALVING = 210_000
DIFFCHANGE = 2016
COIN = 100_000_000
ASSUMPTIONS = ["domain precondition of the Sat methods: sat < Sat::SUPPLY (the property quantifies over sats below the supply); heights are arbitrary u32",
               "bitcoin::constants::{SUBSIDY_HALVING_INTERVAL = 210000, DIFFCHANGE_INTERVAL = 2016} (external crate constants)"]

SAT_FNS = ['height', 'epoch', 'epoch_position', 'third', 'cycle', 'period', 'nineball', 'percentile', 'degree', 'decimal', 'rarity', 'common', 'coin', 'palindrome', 'name', 'charms', 'n']
ENTRIES = [
    're:^ordinals::height::Height::(subsidy|starting_sat|period_offset|n)$',
    're:^ordinals::epoch::Epoch::(subsidy|starting_sat)$',
    're:^<ordinals::epoch::Epoch as std::convert::From<ordinals::(sat::Sat|height::Height)>>::from$',
    're:^ordinals::sat::Sat::(' + '|'.join(SAT_FNS) + ')$',
    're:^<ordinals::(degree::Degree|rarity::Rarity|decimal_sat::DecimalSat) as std::convert::From<ordinals::sat::Sat>>::from$',
    're:^ordinals::rarity::Rarity::supply$',
]
EPOCH_FROM_SAT = '<ordinals::epoch::Epoch as std::convert::From<ordinals::sat::Sat>>::from'


def run(ctx):
  F = ctx.facts
  ctx.rule('R29.1', 'Epoch::STARTING_SATS[0] = 0, [k+1] − [k] = 210000·(50·10^8 >> k) for k < 33, [33] = Sat::SUPPLY, FIRST_POST_SUBSIDY = 33, Sat::LAST = SUPPLY − 1; '
           'Rarity::supply equals the counts implied by the constants; the Sat::common fast path uses an epoch bound E and a divisor subsidy(D) with subsidy(k) mod subsidy(D) = 0 for all k < E')
  ctx.rule('R29.2', 'Epoch::from(Sat) returns Epoch(k) exactly under sat < STARTING_SATS[k+1] after all smaller comparisons failed, for k = 0..32 in increasing order, else Epoch(33)')
  ctx.rule('R29.3', 'site inventory over Height::{subsidy, starting_sat, period_offset}, Epoch::{subsidy, starting_sat, from}, Sat::{height, epoch, epoch_position, third, cycle, period, common, name, charms, …}, '
           'Degree/Rarity/DecimalSat::from(Sat) for every u32 height and every sat < SUPPLY')
  # ---- R29.1
  ss = (F.consts.get('ordinals::epoch::Epoch::STARTING_SATS') or {}).get('v')
  if ctx.anchor('R29.1', 'Epoch::STARTING_SATS value', isinstance(ss, dict) and 'arr' in ss):
    arr = ss['arr']
    ctx.floor('R29.1', 'STARTING_SATS entries', len(arr), 34)
    ctx.ob('R29.1', 'ordinals::epoch::Epoch', 'STARTING_SATS[0] = 0', arr[0] == 0, str(arr[0]), nontrivial=False)
    for k in range(len(arr) - 1):
      want = HALVING * ((50 * COIN) >> k)
      ctx.ob('R29.1', 'ordinals::epoch::Epoch', f'STARTING_SATS[{k + 1}] − STARTING_SATS[{k}] = 210000·(50·10^8 >> {k})', arr[k + 1] - arr[k] == want, f'{arr[k + 1] - arr[k]} != {want}', nontrivial=False)
    ctx.ob('R29.1', 'ordinals::epoch::Epoch', 'STARTING_SATS[33] = Sat::SUPPLY', arr[-1] == (F.consts.get('ordinals::sat::Sat::SUPPLY') or {}).get('v') == SUPPLY, str(arr[-1]), nontrivial=False)
    ctx.ob('R29.1', 'ordinals::epoch::Epoch', 'the subsidy of epoch 33 is zero (50·10^8 >> 33 = 0) and of epoch 32 is not', ((50 * COIN) >> 33) == 0 and ((50 * COIN) >> 32) > 0, '', nontrivial=False)
  ctx.ob('R29.1', 'ordinals::epoch::Epoch', 'FIRST_POST_SUBSIDY = Epoch(33)', (F.consts.get('ordinals::epoch::Epoch::FIRST_POST_SUBSIDY') or {}).get('v') == 33, '', nontrivial=False)
  ctx.ob('R29.1', 'ordinals::sat::Sat', 'Sat::LAST = SUPPLY − 1', (F.consts.get('ordinals::sat::Sat::LAST') or {}).get('v') == SUPPLY - 1, '', nontrivial=False)
  ctx.ob('R29.1', 'ordinals', 'COIN_VALUE = 10^8, CYCLE_EPOCHS = 6 = lcm(210000, 2016)/210000', (F.consts.get('ordinals::COIN_VALUE') or {}).get('v') == COIN and (F.consts.get('ordinals::CYCLE_EPOCHS') or {}).get('v') == math.lcm(HALVING, DIFFCHANGE) // HALVING, '', nontrivial=False)
  rs = ctx.body('R29.1', 'ordinals::rarity::Rarity::supply')
  if rs is not None:
    tab = match_table(F, rs) or {}
    B = 33 * HALVING
    P = -(-B // DIFFCHANGE)
    H = 33
    Y = -(-B // math.lcm(HALVING, DIFFCHANGE))
    want = {'Mythic': 1, 'Legendary': Y - 1, 'Epic': H - Y, 'Rare': P - Y, 'Uncommon': B - P - H + Y, 'Common': SUPPLY - B}
    for v, w in want.items():
      ctx.ob('R29.1', rs.n, f'supply({v}) = {w}', tab.get(v) == w, f'{tab.get(v)}', where(rs, rs.line), nontrivial=False)
    ctx.ob('R29.1', rs.n, 'the supplies add up to Sat::SUPPLY', sum(v for v in tab.values() if isinstance(v, int)) == SUPPLY, '', where(rs, rs.line), nontrivial=False)
  cm = ctx.body('R29.1', 'ordinals::sat::Sat::common')
  if cm is not None:
    def epoch_arg(c):
      d = describe_operand(cm, c.args[0])
      m = re.match(r'^Epoch\{(\d+)\}$', fmt_desc(d))
      return int(m.group(1)) if m else None
    E = [epoch_arg(c) for c in cm.calls_to('ordinals::epoch::Epoch::starting_sat') if epoch_arg(c) is not None]
    D = [epoch_arg(c) for c in cm.calls_to('ordinals::epoch::Epoch::subsidy') if epoch_arg(c) is not None]
    ctx.anchor('R29.1', 'fast-path constants Epoch(E).starting_sat() / Epoch(D).subsidy() in Sat::common', len(E) == 1 and len(D) == 1, cm.n)
    if len(E) == 1 and len(D) == 1:
      sub = lambda k: (50 * COIN) >> k
      ctx.ob('R29.1', cm.n, f'fast path: every subsidy of an epoch below {E[0]} is a multiple of subsidy({D[0]})', sub(D[0]) > 0 and all(sub(k) % sub(D[0]) == 0 for k in range(E[0])), '', where(cm, cm.line))
      gs = [g for c in cm.calls_to('ordinals::epoch::Epoch::subsidy') if epoch_arg(c) is not None for g in guard_strings(cm, c.bb)]
      ctx.ob('R29.1', cm.n, 'the divisibility shortcut is taken only under self < Epoch(E).starting_sat()', any(re.match(r'^Lt\(self,Epoch::starting_sat\(Epoch\{\d+\}\)\)==True$', g) for g in gs), f'{gs}', where(cm, cm.line))
      # the shortcut is one-sided: it may only answer `true`; every other answer is the exact epoch computation (seeded C29-a)
      from .common import deep_origins as _deep
      consts, computed = [], []
      for bi in cm.reachable_from(0):
        for st_ in cm.blocks[bi]['s']:
          if st_.get('p') and st_['p']['l'] == 0 and not st_['p'].get('p') and st_.get('rv'):
            rv = st_['rv']
            if rv['k'] == 'use' and 'k' in rv['o']:
              consts.append(rv['o']['k'].get('v'))
            else:
              ops = [rv.get('o'), rv.get('a'), rv.get('b')]
              names = set()
              for o_ in ops:
                if o_:
                  names |= {x.call.name for x in _deep(cm, o_, all_args=True) if x.kind == 'call'}
              computed.append(names)
      ctx.ob('R29.1', cm.n, 'the shortcut only ever answers true', consts == [True], f'constant results {consts}', where(cm, cm.line))
      full = {'ordinals::sat::Sat::epoch', 'ordinals::epoch::Epoch::starting_sat', 'ordinals::epoch::Epoch::subsidy'}
      ctx.ob('R29.1', cm.n, 'every computed answer is the exact calculation: (n - epoch().starting_sat()) not a multiple of epoch().subsidy()', len(computed) == 1 and full <= computed[0],
             f'{[sorted(x.split("::")[-1] for x in c if x) for c in computed]}', where(cm, cm.line))
  _r29_4(ctx, F)
  # ---- R29.2
  ef = F.bodies.get(EPOCH_FROM_SAT)
  if ctx.anchor('R29.2', EPOCH_FROM_SAT, ef is not None):
    ctx.analysed(ef)
    rets = {}
    for bi, blk in enumerate(ef.blocks):
      for s in blk['s']:
        if s.get('p', {}).get('l') == 0 and s['rv']['k'] == 'agg' and bi in ef.reachable_from(0):
          k = ef.const_of(s['rv']['ops'][0])
          rets.setdefault(k, []).append(bi)
    ctx.floor('R29.2', 'Epoch(k) return sites', len(rets), 34)
    for k in range(34):
      bs = rets.get(k, [])
      if not ctx.ob('R29.2', ef.n, f'exactly one return of Epoch({k})', len(bs) == 1, f'{len(bs)}', where(ef, ef.line), nontrivial=False):
        continue
      gs = guard_strings(ef, bs[0])
      if k < 33:
        want = [f'Lt(sat,lit.[{j}])==False' for j in range(1, k + 1)] + [f'Lt(sat,lit.[{k + 1}])==True']
      else:
        want = [f'Lt(sat,lit.[{j}])==False' for j in range(1, 34)]
      ctx.ob('R29.2', ef.n, f'Epoch({k}) ⇔ ' + (f'STARTING_SATS[{k}] <= sat < STARTING_SATS[{k + 1}]' if k < 33 else 'sat >= STARTING_SATS[33]'), gs == want, f'guards {gs[-3:]}', where(ef, ef.line))
    # the compared table is STARTING_SATS
    cds = set()
    for c in ef.calls_to('std::cmp::PartialOrd::lt'):
      cds |= ef.slice_of([c.args[1]], through_calls=False).constdefs
    arrs = [s for blk in ef.blocks for s in blk['s'] if s.get('rv', {}).get('k') == 'use' and isinstance(s['rv']['o'].get('k', {}).get('v'), dict) and 'arr' in s['rv']['o']['k']['v']]
    same = all(a['rv']['o']['k']['v']['arr'] == (ss or {}).get('arr') for a in arrs) if arrs else False
    ctx.ob('R29.2', ef.n, 'the ladder compares against Epoch::STARTING_SATS', same and len(arrs) >= 33, f'{len(arrs)} table references', where(ef, ef.line))
  # ---- R29.3
  pred_pre = {}
  for b in F.bodies.values():
    if b.crate == 'ordinals' and b.argc >= 1 and b.local_ty(1) in ('ordinals::sat::Sat',) and (
        re.match(r'^ordinals::sat::Sat::(' + '|'.join(SAT_FNS) + ')$', b.n) or re.match(r'^<ordinals::(degree::Degree|rarity::Rarity|decimal_sat::DecimalSat|epoch::Epoch) as std::convert::From>::from$', b.n)):
      pred_pre[b.path] = {(1, ('0',)): iv(0, SUPPLY - 1)}
  ctx.floor('R29.3', 'Sat-taking functions analysed under sat < SUPPLY', len(pred_pre), 18)
  run_inventory(ctx, 'R29.3', ENTRIES, TABLE, partition=(16 if ctx.tier == 'thorough' else 1), floor_fns=25, floor_sites=25, label='sat/height/epoch arithmetic', pre=pred_pre)
  nm = ctx.body('R29.3', 'ordinals::sat::Sat::name')
  if nm is not None:
    lits = set()
    for cc in nm.calls_to('core::str::<impl str>::chars'):
      lits |= set(string_consts(nm, cc.args[0]))
    ctx.ob('R29.3', nm.n, 'alphabet literal is abcdefghijklmnopqrstuvwxyz', 'abcdefghijklmnopqrstuvwxyz' in lits, f'{lits}', where(nm, nm.line))


# sensitivity pack (thorough tier): each seeded edit must be reported by the named rule instance
MUTANTS = [
  {'name': 'seeded-C29-a', 'patch': 'C29-a/patch.diff', 'expect': ('R29.1', 'Sat::common', 'shortcut only ever answers true')},
  {'name': 'seeded-C29-b', 'patch': 'C29-b/patch.diff', 'expect': ('R29.4', 'Sat::nineball', 'accepted numbers are exactly')},
{'name': 'epoch-ladder-off-by-one', 'file': 'crates/ordinals/src/epoch.rs', 'old': '    if sat < Self::STARTING_SATS[1] {\n      Epoch(0)\n    } else if sat < Self::STARTING_SATS[2] {', 'new': '    if sat < Self::STARTING_SATS[1] {\n      Epoch(0)\n    } else if sat < Self::STARTING_SATS[3] {', 'expect': ('R29.2', 'From>::from', 'Epoch(1)')},
           {'name': 'rarity-supply-wrong', 'file': 'crates/ordinals/src/rarity.rs', 'old': 'Self::Rare => 3_432,', 'new': 'Self::Rare => 3_437,', 'expect': ('R29.1', 'Rarity::supply', 'supply(Rare)')}]


# behaviour-preserving edits (thorough tier): the rules must stay silent on every one of them
NEUTRAL = [{'name': 'Sat::height: intermediate bindings', 'file': 'crates/ordinals/src/sat.rs', 'old': '    self.epoch().starting_height()\n      + u32::try_from(self.epoch_position() / self.epoch().subsidy()).unwrap()', 'new': '    let epoch = self.epoch();\n    let blocks = self.epoch_position() / epoch.subsidy();\n    epoch.starting_height() + u32::try_from(blocks).unwrap()'}]


def _r29_4(ctx, F):
  """Sat::nineball() <=> height 9: the set of accepted numbers, derived from the guards / comparison (or a Range(Inclusive)::contains) on
  the paths that can answer true, is exactly [9 * subsidy(0), 10 * subsidy(0))"""
  from ..affine import Analysis, Aff, pkey, le_forms
  ctx.rule('R29.4', 'Sat::nineball accepts exactly the sats of block 9: the numbers n with 9·50·10^8 <= n < 10·50·10^8 (derived from the comparisons on the accepting paths, or from a Range / RangeInclusive::contains)')
  b = ctx.body('R29.4', 'ordinals::sat::Sat::nineball')
  if b is None:
    return
  an = Analysis(b, adts=F.adts)
  rets = b.return_blocks()
  lo_want, hi_want = 9 * 50 * COIN, 10 * 50 * COIN - 1
  acc = []
  unknown = []
  nsyms = {('call', c.bb) for c in b.calls if c.is_('ordinals::sat::Sat::n')} | {('pure', c.name, ()) for c in b.calls if c.is_('ordinals::sat::Sat::n')}

  def is_n(a):
    sy = a.single()
    if sy is None:
      return False
    if isinstance(sy, tuple) and sy[0] == 'pure' and sy[1].endswith('Sat::n'):
      return True
    return sy in nsyms or (isinstance(sy, tuple) and sy[0] in ('init', 'f') and True and (sy[0] == 'init' and sy[1][0] == 1))

  for rb in rets:
    for s in an.at_term(rb):
      v = s.val((0, ()))
      conds = list(s.guards)
      if v == Aff.const(0):
        continue
      if v != Aff.const(1):
        c = s.cmp.get((0, ()))
        sy = v.single()
        if c is not None and c[0] != 'discr':
          conds.append(c)
        elif isinstance(sy, tuple) and sy[0] == 'call':
          t = b.blocks[sy[1]]['t']
          nm = norm(t['f'].get('res') or t['f'].get('fn') or '')
          if nm.endswith('::contains') and ('ops::Range' in nm or 'range::Range' in nm):
            st0 = an.at_term(sy[1])
            rk = None
            for s0 in st0:
              src = t['args'][0].get('c') or t['args'][0].get('m')
              tg = [tk for tk, m in s0.ref.get(src['l'], ())] if src and not src.get('p') else []
              if len(tg) == 1:
                a0, a1 = s0.val((tg[0][0], tg[0][1] + (('f', 0),))), s0.val((tg[0][0], tg[0][1] + (('f', 1),)))
                inclusive = 'RangeInclusive' in nm
                if a0.is_const() and a1.is_const():
                  acc.append((a0.c, a1.c if inclusive else a1.c - 1))
                  rk = True
            if not rk:
              # the range is a promoted constant `&(A..B)`: its fields were evaluated by the extractor
              for s0 in st0:
                src = t['args'][0].get('c') or t['args'][0].get('m')
                for tk, m in (s0.ref.get(src['l'], ()) if src and not src.get('p') else ()):
                  for d in b.defs().get(tk[0], []):
                    kv = ((d.get('rv') or {}).get('o') or {}).get('k') or {}
                    stv = (kv.get('v') or {}).get('st') if isinstance(kv.get('v'), dict) else None
                    if stv and 'start' in stv and 'end' in stv and not rk:
                      acc.append((int(stv['start']), int(stv['end']) if 'RangeInclusive' in nm else int(stv['end']) - 1))
                      rk = True
            if rk:
              continue
          unknown.append(str(v))
          continue
        else:
          unknown.append(str(v))
          continue
      lo, hi = 0, (1 << 64) - 1
      okp = True
      for op, x, y in conds:
        # bounds of the form n (op) const / const (op) n
        if is_n(x) and y.is_const():
          k = y.c
          if op == 'Ge': lo = max(lo, k)
          elif op == 'Gt': lo = max(lo, k + 1)
          elif op == 'Lt': hi = min(hi, k - 1)
          elif op == 'Le': hi = min(hi, k)
          else: okp = False
        elif is_n(y) and x.is_const():
          k = x.c
          if op == 'Le': lo = max(lo, k)
          elif op == 'Lt': lo = max(lo, k + 1)
          elif op == 'Gt': hi = min(hi, k - 1)
          elif op == 'Ge': hi = min(hi, k)
          else: okp = False
        else:
          okp = False
      if okp:
        acc.append((lo, hi))
      else:
        unknown.append(str(conds))
  ctx.ob('R29.4', b.n, 'the accepting condition is a range test on n with constant bounds', not unknown and bool(acc), f'{unknown[:2]}', where(b, b.line))
  if acc and not unknown:
    lo, hi = min(a for a, _ in acc), max(h for _, h in acc)
    contiguous = len(set(acc)) == 1
    ctx.ob('R29.4', b.n, f'accepted numbers are exactly [{lo_want}, {hi_want}] = the sats of block 9', contiguous and (lo, hi) == (lo_want, hi_want), f'accepted [{lo}, {hi}]', where(b, b.line))
