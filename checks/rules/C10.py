"""C10 — mint terms are enforced: the set of comparisons under which a mint succeeds, as atoms (DESIGN §5 C10)."""
from ..core import where
from ..facts import norm, origins, guards_of
from ..guards import all_guards, find_cmp, names_of, unavoidable_after_enabler
from ..tables_id import TableId
from .common import success_return_blocks, result_is_checked, short

MINTABLE = 'ord::index::entry::RuneEntry::mintable'
START = 'ord::index::entry::RuneEntry::start'
END = 'ord::index::entry::RuneEntry::end'
MINT = 'ord::index::updater::rune_updater::RuneUpdater::mint'
INDEX_RUNES = 'ord::index::updater::rune_updater::RuneUpdater::index_runes'

ASSUMPTIONS = ["interaction of the comparisons with chain history (which height a mint lands in) is not decided"]


def has(*xs):
  return lambda names: all(x in names for x in xs)


def run(ctx):
  F = ctx.facts
  T = TableId(F)
  ctx.rule('R10.1', 'RuneEntry::mintable returns Ok only under: terms is Some; ¬(height < start()) when start is Some; ¬(height >= end()) when end is Some; ¬(mints >= cap) with cap = terms.cap.unwrap_or_default(); '
           'start() combines relative (block.saturating_add(offset.0)) and absolute (height.0) with max, end() uses offset.1/height.1 with min')
  ctx.rule('R10.2', 'in RuneUpdater::mint, mints += 1 and the entry write-back are dominated by the entry lookup guard and by mintable(self.height) returning Ok; the amount returned is mintable\'s; '
           'the call self.mint(id) in index_runes is guarded by nothing but artifact.mint() being Some (cenotaph mints count)')

  mb = ctx.body('R10.1', MINTABLE)
  if mb is not None:
    oks = success_return_blocks(mb)
    ctx.anchor('R10.1', 'Ok return in mintable', len(oks) == 1, mb.n)
    if len(oks) == 1:
      ok_bb = oks[0]
      gs = all_guards(mb, ok_bb)
      # terms is Some
      tg = [g for g in guards_of(mb, ok_bb) if 'terms' in g.slice().fields and g.live == [1]]
      ctx.ob('R10.1', mb.n, 'Ok only if self.terms is Some', bool(tg), 'mint allowed without terms', where(mb, mb.line))
      req = [
          ('height < start()', 'Lt', has('height'), has('start'), False),
          ('height >= end()', 'Ge', has('height'), has('end'), False),
          ('mints >= cap', 'Ge', has('mints'), has('cap', 'unwrap_or_default'), False),
      ]
      for label, op, pa, pb, pol in req:
        found = find_cmp(gs, op, pa, pb, pol)
        ctx.ob('R10.1', mb.n, f'Ok requires ¬({label})', len(found) == 1, f'comparison guard missing or altered; guards present: {[ (g.atom, g.pol) for g in gs]}', where(mb, mb.line))
        for g in found:
          ctx.ob('R10.1', mb.n, f'¬({label}) cannot be bypassed once its operand exists', unavoidable_after_enabler(mb, g, ok_bb), 'the window/cap test can be skipped', where(mb, g.line))
      # no additional way to Ok: every switch on the way is one of the recognised ones (3 cmps, 3 option discriminants)
      ctx.ob('R10.1', mb.n, 'exactly 4 guards decide Ok (terms is Some, height<start, height>=end, mints>=cap)', len(gs) == 4, f'{len(gs)} guards: {gs}', where(mb, mb.line))
      # returned amount
      ro = mb.slice_of([{'l': 0}])
      ctx.ob('R10.1', mb.n, 'Ok value <- terms.amount.unwrap_or_default()', 'amount' in ro.fields and ro.has_call('std::option::Option::unwrap_or_default'), ro.describe(), where(mb, mb.line))
  for fn, which, idx in ((START, 'max', '0'), (END, 'min', '1')):
    fam = F.family(fn)
    ctx.anchor('R10.1', fn, bool(fam), fn)
    if not fam:
      continue
    for b in fam:
      ctx.analysed(b)
    calls = [c for b in fam for c in b.calls]
    has_which = any(c.is_(f're:cmp::Ord::{which}$', f're:cmp::Ord>::{which}$', f're:::{which}$') for c in calls)
    other = 'min' if which == 'max' else 'max'
    has_other = any(c.is_(f're:cmp::Ord::{other}$', f're:cmp::Ord>::{other}$') for c in calls)
    sat = any(c.is_('re:core::num::<impl u64>::saturating_add$') for c in calls)
    ctx.ob('R10.1', fn, f'combines relative and absolute with {which}', has_which and not has_other, f'{which}/{other} swapped or missing', where(fam[0], fam[0].line))
    ctx.ob('R10.1', fn, 'relative = block.saturating_add(offset)', sat, 'relative bound no longer saturates (overflowing offsets)', where(fam[0], fam[0].line))
    # tuple indices
    idxs = set()
    b0 = fam[0]
    for blk in b0.blocks:
      for s in blk['s']:
        rv = s.get('rv')
        if not rv:
          continue
        for pl in _places(rv):
          pr = [str(e.get('n', e['f'])) for e in (pl.get('p') or []) if isinstance(e, dict) and 'f' in e]
          for i, nme in enumerate(pr):
            if nme in ('offset', 'height') and i + 1 < len(pr):
              idxs.add((nme, pr[i + 1]))
    ctx.ob('R10.1', fn, f'reads terms.offset.{idx} and terms.height.{idx}', idxs == {('offset', idx), ('height', idx)}, f'reads {sorted(idxs)}', where(b0, b0.line))

  _r10_3(ctx)
  # ---------------- R10.2
  m = ctx.body('R10.2', MINT)
  if m is not None:
    mc = m.calls_to(MINTABLE)
    ins = [c for c, k, t in T.writes([m]) if 'RUNE_ID_TO_RUNE_ENTRY' in t and k == 'insert']
    ctx.anchor('R10.2', 'mintable call and entry insert in mint', len(mc) == 1 and len(ins) == 1, m.n)
    incs = _incs(m, 'mints')
    ctx.anchor('R10.2', 'rune_entry.mints += 1', len(incs) == 1, m.n)
    if len(mc) == 1 and len(ins) == 1 and len(incs) == 1:
      c, i, (ibb, iline) = mc[0], ins[0], incs[0]
      ho = origins(m, c.args[1])
      ctx.ob('R10.2', m.n, 'mintable(height<-self.height)', any(o.kind == 'param' and 'height' in o.fields for o in m_deep(m, c.args[1])), f'{ho}', where(m, c.line))
      for what, bb in (('mints += 1', ibb), ('entry write-back', i.bb)):
        gs = [g for g in guards_of(m, bb) if c in g.slice().calls]
        okg = [g for g in gs if g.live == [0]]  # Result discriminant 0 = Ok
        ctx.ob('R10.2', m.n, f'{what} only after mintable returned Ok', bool(okg), 'the counter can advance although the mint is not allowed', where(m, iline if what.startswith('mints') else i.line))
      ctx.ob('R10.2', m.n, 'increment precedes the write-back', m.dominates(ibb, i.bb), '', where(m, i.line))
      vs = m.slice_of([i.args[2]], through_calls=True)
      ctx.ob('R10.2', m.n, 'written entry is the incremented rune_entry', 'rune_entry' in vs.var_names(), '', where(m, i.line))
      ctx.ob('R10.2', m.n, 'write-back result tested', result_is_checked(m, i), '', where(m, i.line))
      # returned amount derives from mintable
      for rb in success_return_blocks(m):
        pass
      r0 = m.slice_of([{'l': 0}])
      ctx.ob('R10.2', m.n, 'returned Lot <- mintable amount', c in r0.calls, '', where(m, c.line))
      # the Some(..) return is dominated by the insert
      somes = [d for d in m.defs().get(0, []) if d['kind'] == 'assign' and d['rv']['k'] == 'agg' and d['rv'].get('variant') == 'Ok' and any(a == ('std::option::Option', 'Some') for a in m.slice_of([d['rv']['ops'][0]], through_calls=False).adts)]
      ctx.ob('R10.2', m.n, 'Ok(Some(amount)) only after the write-back', bool(somes) and all(m.dominates(i.bb, d['bb']) for d in somes), 'runes are credited without counting the mint', where(m, i.line))
  ir = ctx.body('R10.2', INDEX_RUNES)
  if ir is not None:
    sites = ir.calls_to(MINT)
    ctx.anchor('R10.2', 'self.mint(id) in index_runes', len(sites) == 1, ir.n)
    for c in sites:
      gs = guards_of(ir, c.bb)
      kinds = []
      for g in gs:
        sl = g.slice()
        if sl.has_call('ordinals::artifact::Artifact::mint') or sl.has_call('ordinals::Artifact::mint') or sl.has_call('re:Artifact::mint$'):
          kinds.append('artifact.mint() is Some')
        elif sl.has_call('ordinals::runestone::Runestone::decipher') or sl.has_call('re:Runestone::decipher$'):
          kinds.append('artifact is Some')
        elif sl.has_call('re:RuneUpdater::unallocated$'):
          kinds.append('unallocated()?')
        else:
          kinds.append('OTHER:' + sl.describe())
      bad = [k for k in kinds if k.startswith('OTHER')]
      ctx.ob('R10.2', ir.n, 'self.mint(id) guarded only by the artifact having a mint (cenotaph mints count)', not bad, f'extra guard on the mint call: {bad}', where(ir, c.line))
      ctx.ob('R10.2', ir.n, 'self.mint result tested', result_is_checked(ir, c), '', where(ir, c.line))


def m_deep(body, op):
  out = list(origins(body, op))
  # look through `.into()` style conversions
  for o in list(out):
    if o.kind == 'call' and o.call.args:
      out.extend(origins(body, o.call.args[0]))
  return out


def _places(rv):
  k = rv['k']
  out = []
  def opp(o):
    p = o.get('c') or o.get('m')
    if p:
      out.append(p)
  if k in ('use', 'cast', 'un', 'repeat'):
    opp(rv['o'])
  elif k == 'bin':
    opp(rv['a']); opp(rv['b'])
  elif k in ('ref', 'discr', 'rawptr'):
    out.append(rv['p'])
  elif k == 'agg':
    for o in rv['ops']:
      opp(o)
  return out


def _incs(body, field):
  """(bb, line) of statements assigning <place>.field from an Add of itself"""
  out = []
  for bi, blk in enumerate(body.blocks):
    if blk['cleanup']:
      continue
    for s in blk['s']:
      p = s.get('p')
      if p and any(isinstance(e, dict) and e.get('n') == field for e in (p.get('p') or [])):
        rv = s['rv']
        if rv['k'] == 'bin' and rv['op'].startswith('Add'):
          out.append((bi, s.get('l')))
        elif rv['k'] == 'use':
          sl = body.slice_of([rv['o']], through_calls=False)
          if any(o.startswith('Add') for o in sl.binops) and field in sl.fields:
            out.append((bi, s.get('l')))
  return out


def _r10_3(ctx):
  """a mint of a rune that is not yet etched has no effect: the entry of the rune etched by this very transaction is created after the mint step"""
  from ..core import where
  F = ctx.facts
  ctx.rule('R10.3', 'RuneUpdater::index_runes: no call of RuneUpdater::mint is reachable from a call of create_rune_entry (never-after) — a transaction cannot mint the rune it etches itself, because its entry does not exist yet when the mint is processed')
  b = ctx.body('R10.3', 'ord::index::updater::rune_updater::RuneUpdater::index_runes')
  if b is None:
    return
  ctx.analysed(b)
  mints = b.calls_to('ord::index::updater::rune_updater::RuneUpdater::mint')
  creates = b.calls_to('ord::index::updater::rune_updater::RuneUpdater::create_rune_entry')
  ctx.anchor('R10.3', 'mint and create_rune_entry calls in index_runes', len(mints) >= 1 and len(creates) >= 1, b.n)
  for c in creates:
    for m in mints:
      ctx.ob('R10.3', b.n, 'create_rune_entry is never followed by mint', not b.strictly_reaches(c.bb, m.bb) and c.bb != m.bb,
             'the entry of the rune etched by this transaction exists before its own mint is processed: an etching that names its own future id mints immediately', where(b, c.line))


# sensitivity pack (thorough tier): each seeded edit must be reported by the named rule instance
MUTANTS = [{'name': 'seeded-C10-a', 'patch': 'C10-a/patch.diff', 'expect': ('R10.1', 'RuneEntry::start', 'saturating_add')},
           {'name': 'seeded-C10-b', 'patch': 'C10-b/patch.diff', 'expect': ('R10.3', 'index_runes', 'never followed by mint')}]


# behaviour-preserving pack (thorough tier)
NEUTRAL = [
  {'name': 'mintable: cap and start tests commuted', 'file': 'src/index/entry.rs', 'old': '    if self.mints >= cap {', 'new': '    if cap <= self.mints {'},
  {'name': 'mintable: start test commuted', 'file': 'src/index/entry.rs', 'old': '      && height < start\n', 'new': '      && start > height\n'},
]
