"""Helpers shared by the rule modules."""
from ..facts import guards_of, norm, op_place, op_local, place_is_local, describe_operand, describe_cond, flat_names
from ..core import where


def guards_with_call(body, sink_bb, *names):
  """dominating guards of sink_bb whose condition depends on the result of a call to one of names"""
  out = []
  for g in guards_of(body, sink_bb):
    if g.slice().has_call(*names):
      out.append(g)
  return out


def guards_depending_on(body, sink_bb, call):
  """dominating guards of sink_bb whose condition depends on this particular call site"""
  return [g for g in guards_of(body, sink_bb) if call in g.slice().calls]


def result_is_checked(body, call):
  """the call's result reaches the discriminant of some switch (e.g. through `?`), or is returned.
  Used for error-discipline rules: a dropped Result is not checked."""
  if call.dest is None:
    return False
  # forward: find locals derived from dest within a few steps, then look for switch discriminants / return place
  derived = forward_locals(body, call.dest['l'])
  for bi in body.reachable_from(call.bb):
    t = body.term(bi)
    if t['k'] == 'switch':
      l = op_local(t['d'])
      if l in derived:
        return True
  return 0 in derived


def forward_locals(body, l0, limit=400):
  """locals whose value is (transitively) computed from l0 (flow-insensitive forward closure)"""
  uses = forward_index(body)
  seen = {l0}
  work = [l0]
  while work and len(seen) < limit:
    l = work.pop()
    for d in uses.get(l, ()):
      if d not in seen:
        seen.add(d)
        work.append(d)
  return seen


def forward_index(body):
  if getattr(body, '_fwd', None) is None:
    from collections import defaultdict
    fwd = defaultdict(set)

    def ops_of_rv(rv):
      k = rv['k']
      if k in ('use', 'repeat', 'cast', 'un'):
        return [rv['o']]
      if k == 'bin':
        return [rv['a'], rv['b']]
      if k == 'agg':
        return rv['ops']
      return []

    for b in body.blocks:
      if b['cleanup']:
        continue
      for s in b['s']:
        if 'p' not in s:
          continue
        dst = s['p']['l']
        rv = s['rv']
        for o in ops_of_rv(rv):
          p = op_place(o)
          if p:
            fwd[p['l']].add(dst)
        if rv['k'] in ('ref', 'rawptr', 'discr'):
          fwd[rv['p']['l']].add(dst)
    for c in body.calls:
      if c.dest is not None:
        for a in c.args:
          p = op_place(a)
          if p:
            fwd[p['l']].add(c.dest['l'])
    body._fwd = fwd
  return body._fwd


def string_consts(body, op, depth=6):
  """string constants that may flow into operand (through copies / refs / single defs)"""
  sl = body.slice_of([op], through_calls=False)
  out = []
  for v in sl.consts:
    if isinstance(v, dict) and 's' in v:
      out.append(v['s'])
  return out


def short(name):
  if not name:
    return '?'
  parts = name.split('::')
  return '::'.join(parts[-2:])


def success_return_blocks(body):
  """blocks in which the return place _0 receives a non-error value
  (anything but an `Err(..)` aggregate or a `from_residual` call)"""
  out = []
  live = body.reachable_from(0)
  for d in body.defs().get(0, []):
    if d['bb'] not in live:
      continue
    if d['kind'] == 'assign':
      rv = d['rv']
      if rv['k'] == 'agg' and rv.get('variant') == 'Err':
        continue
      out.append(d['bb'])
    elif d['kind'] == 'call':
      c = d['call']
      if c.is_('re:FromResidual.*::from_residual$'):
        continue
      out.append(d['bb'])
  return sorted(set(out))


def table_writers(F, T):
  """set of raw body paths that (transitively) write an index table"""
  direct = set()
  for c, kind, tabs in T.writes():
    direct.add(c.body.path)
  # reverse closure over callers
  out = set(direct)
  work = list(direct)
  while work:
    x = work.pop()
    for y in F.callers(x):
      if y in F.bodies and y not in out:
        out.add(y)
        work.append(y)
  return out, direct


def reaches_avoiding(body, a, b, avoid):
  """is there a path a -> b (length >= 0) that does not pass through any block in `avoid` (a itself may be in avoid only if a == b is not wanted)"""
  if a in avoid:
    return False
  seen = {a}
  work = [a]
  while work:
    x = work.pop()
    if x == b:
      return True
    for s in body.succ(x):
      if s not in seen and s not in avoid:
        seen.add(s)
        work.append(s)
  return False


def deep_origins(body, op, depth=0, all_args=False, named_terminal=False):
  """origins, continuing through the first argument (or all arguments) of every call on the chain"""
  from ..facts import origins
  out = []
  for o in origins(body, op, named_terminal=named_terminal, depth=1 if named_terminal else 0):
    out.append(o)
    if o.kind == 'call' and o.call.args and depth < 8:
      for a in (o.call.args if all_args else o.call.args[:1]):
        out.extend(deep_origins(body, a, depth + 1, all_args, named_terminal))
    if o.kind == 'bin' and depth < 8:
      out.extend(deep_origins(body, o.agg['a'], depth + 1, all_args, named_terminal))
      out.extend(deep_origins(body, o.agg['b'], depth + 1, all_args, named_terminal))
  return out


def origin_fields(os_):
  s = set()
  for o in os_:
    s |= set(map(str, o.fields))
    if o.name:
      s.add(o.name)
  return s


def match_table(F, body):
  """for a function of the shape `match self { Variant => CONST, .. }`: {variant name: constant} (None if the shape differs).
  Several variants may share one arm."""
  t0 = None
  for bi in sorted(body.reachable_from(0)):
    t = body.term(bi)
    if t['k'] == 'switch':
      t0 = (bi, t)
      break
  if t0 is None:
    return None
  bi, t = t0
  # the discriminant must be discr(self)
  from ..facts import single_def, op_local
  l = op_local(t['d'])
  d = single_def(body, l) if l is not None else None
  if d is None or d['kind'] != 'assign' or d['rv']['k'] != 'discr':
    return None
  ty = body.local_ty(d['rv']['p']['l'])
  while ty.startswith('&'):
    ty = ty[1:].lstrip()
  adt = F.adts.get(ty)
  if adt is None:
    return None
  by_discr = {}
  for i, v in enumerate(adt['variants']):
    by_discr[v['discr'] if v.get('discr') is not None else i] = v['n']

  def const_in(bb, depth=0):
    """the constant assigned to _0 in block bb (following gotos)"""
    seen = 0
    while bb is not None and seen < 6:
      for s in body.blocks[bb]['s']:
        if s.get('p', {}).get('l') == 0 and not s['p'].get('p') and s['rv']['k'] == 'use':
          return body.const_of(s['rv']['o'])
      tt = body.term(bb)
      bb = tt.get('t') if tt['k'] == 'goto' else None
      seen += 1
    return None

  out = {}
  covered = set()
  for v, tgt in t['vals']:
    if v in by_discr:
      out[by_discr[v]] = const_in(tgt)
      covered.add(v)
  if not body._is_unreachable(t['o']):
    c = const_in(t['o'])
    for dv, name in by_discr.items():
      if dv not in covered:
        out[name] = c
  return out


class Relabel:
  """Run another property's rule code under this property's rule id: obligations, anchors and floors are recorded as `rid`
  (optionally only those that `keep(rule, instance)` accepts); rule texts of the borrowed module are not re-declared."""

  def __init__(self, ctx, rid, keep=None):
    self._c = ctx
    self._rid = rid
    self._keep = keep or (lambda rule, desc: True)

  def __getattr__(self, k):
    return getattr(self._c, k)

  def ob(self, rule, fn, desc, ok, msg='', where=None, nontrivial=True, detail=None):
    if self._keep(rule, desc):
      return self._c.ob(self._rid, fn, desc, ok, msg, where, nontrivial, detail)
    return bool(ok)

  def anchor(self, rule, what, found, fn=''):
    if self._keep(rule, what):
      return self._c.anchor(self._rid, what, found, fn)
    return bool(found)

  def body(self, rule, npath):
    b = self._c.facts.body(npath)
    if self._keep(rule, npath):
      self._c.anchor(self._rid, npath, b is not None, npath)
    if b is not None:
      self._c.functions.add(b.n)
    return b

  def floor(self, rule, what, count, floor):
    if self._keep(rule, what):
      return self._c.floor(self._rid, what, count, floor)
    return count >= floor

  def rule(self, *a, **k):
    pass

  def sites(self, n):
    pass
