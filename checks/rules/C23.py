"""C23 — node-funded wallet transactions never spend inscribed or runic outputs (DESIGN §5 C23)."""
from ..core import where
from ..facts import norm
from .common import guards_depending_on, string_consts, short

FUND = 'ord::fund_raw_transaction::fund_raw_transaction'
LOCK = 'ord::wallet::Wallet::lock_non_cardinal_outputs'
RPC_CALL = 'bitcoincore_rpc::RpcApi::call'
FUNDING_RPC_METHODS = {'fundrawtransaction', 'walletcreatefundedpsbt', 'send', 'sendall', 'sendtoaddress', 'sendmany', 'bumpfee', 'psbtbumpfee'}
# typed wrappers of the RPC crate that let the node choose inputs
FUNDING_RPC_WRAPPERS = ['fund_raw_transaction', 'wallet_create_funded_psbt', 'send_to_address']
FUND_MODULE_FILE = 'src/fund_raw_transaction.rs'

ASSUMPTIONS = [
    "Bitcoin Core honours lockunspent when it adds inputs (trusted)",
    "the RPC method of a bitcoincore_rpc::RpcApi::call is its first argument; a non-constant method name is reported",
]


def run(ctx):
  F = ctx.facts
  ctx.rule('R23.1', 'every call of fund_raw_transaction::fund_raw_transaction is dominated by a call of '
           'Wallet::lock_non_cardinal_outputs whose result is tested by a guard that also dominates the funding call (error leaves the function)')
  ctx.rule('R23.2', 'no body outside src/fund_raw_transaction.rs asks the node to add inputs: no typed RPC wrapper '
           f'{FUNDING_RPC_WRAPPERS} and no raw RpcApi::call whose constant method name is in {sorted(FUNDING_RPC_METHODS)}; method names must be constants')
  ctx.rule('R23.3', 'Wallet::lock_non_cardinal_outputs passes to lock_unspent a set derived from both self.inscriptions() and '
           'self.get_runic_outputs(), and its boolean result is tested with an error exit')

  # ---- R23.1
  sites = F.call_sites(FUND)
  ctx.sites(len(sites))
  ctx.floor('R23.1', 'fund_raw_transaction call sites', len(sites), 6)
  for c in sites:
    b = c.body
    ctx.analysed(b)
    locks = [l for l in b.calls_to(LOCK) if b.dominates(l.bb, c.bb) and l.bb != c.bb]
    ok = False
    why = 'no dominating lock_non_cardinal_outputs call'
    for l in locks:
      gs = guards_depending_on(b, c.bb, l)
      if gs:
        ok = True
        why = f'lock at line {l.line} dominates; its result is tested at line {gs[0].line}'
        break
      why = f'lock at line {l.line} dominates but its result is not tested before funding'
    ctx.ob('R23.1', b.n, f'fund_raw_transaction<-lock_non_cardinal_outputs', ok, why, where(b, c.line))

  # ---- R23.2 raw call sites
  raw = F.call_sites(RPC_CALL)
  ctx.sites(len(raw))
  ctx.floor('R23.2', 'raw RpcApi::call sites', len(raw), 11)
  methods = []
  for c in raw:
    b = c.body
    ctx.analysed(b)
    names = string_consts(b, c.args[1]) if len(c.args) > 1 else []
    if not names:
      ctx.ob('R23.2', b.n, 'RpcApi::call(method=<non-constant>)', False, 'RPC method name is not a compile-time constant', where(b, c.line))
      continue
    for m in names:
      methods.append(m)
      inside = b.file.endswith(FUND_MODULE_FILE)
      bad = (m in FUNDING_RPC_METHODS) and not inside
      ctx.ob('R23.2', b.n, f'RpcApi::call("{m}")', not bad,
             'node-funding RPC outside fund_raw_transaction.rs' if bad else ('the designated funding call' if m in FUNDING_RPC_METHODS else 'not a funding RPC'),
             where(b, c.line), nontrivial=(m in FUNDING_RPC_METHODS))
  ctx.extra['rpc_methods_seen'] = sorted(methods)
  # typed wrappers
  n_typed = 0
  for b in F.bodies.values():
    for c in b.calls:
      if c.raw and (c.f.get('rcr') == 'bitcoincore_rpc' or c.f.get('cr') == 'bitcoincore_rpc'):
        n_typed += 1
        last = (c.name or '').split('::')[-1]
        if last in FUNDING_RPC_WRAPPERS:
          ctx.ob('R23.2', b.n, f'bitcoincore_rpc::{last}', False, 'typed node-funding RPC wrapper called directly', where(b, c.line))
  ctx.sites(n_typed)
  ctx.extra['bitcoincore_rpc_call_sites'] = n_typed
  ctx.floor('R23.2', 'bitcoincore_rpc call sites inspected', n_typed, 40)

  _r23_4(ctx)
  # ---- R23.3
  b = ctx.body('R23.3', LOCK)
  if b is not None:
    lus = b.calls_to('re:RpcApi::lock_unspent$')
    ctx.anchor('R23.3', 'lock_unspent call in lock_non_cardinal_outputs', len(lus) >= 1, b.n)
    for lu in lus:
      sl = b.slice_of(lu.args[1:])
      # closures on the chain (filter / map predicates) may consult the wallet too
      cl_calls = []
      seen_cl = set()
      work_cl = list(sl.closures)
      while work_cl:
        cd = work_cl.pop()
        if cd in seen_cl or cd not in F.bodies:
          continue
        seen_cl.add(cd)
        cl_calls += F.bodies[cd].calls
        work_cl += [x for x in F.callees(cd) if '{closure' in x]
      has_i = sl.has_call('ord::wallet::Wallet::inscriptions') or any(c.is_('ord::wallet::Wallet::inscriptions') for c in cl_calls)
      has_r = sl.has_call('ord::wallet::Wallet::get_runic_outputs') or any(c.is_('ord::wallet::Wallet::get_runic_outputs') for c in cl_calls)
      ctx.ob('R23.3', b.n, 'lock_unspent(outputs<-inscriptions)', has_i, 'locked set does not derive from self.inscriptions()' if not has_i else '', where(b, lu.line))
      ctx.ob('R23.3', b.n, 'lock_unspent(outputs<-get_runic_outputs)', has_r, 'locked set does not derive from self.get_runic_outputs()' if not has_r else '', where(b, lu.line))
      # result tested: a guard depending on lu dominates every normal return that yields Ok
      tested = False
      for rb in b.return_blocks():
        pass
      from .common import result_is_checked
      tested = result_is_checked(b, lu)
      ctx.ob('R23.3', b.n, 'lock_unspent result tested', tested, 'result of lock_unspent is dropped' if not tested else '', where(b, lu.line))


INSCRIPTIONS = 'ord::wallet::Wallet::inscriptions'
RUNIC = 'ord::wallet::Wallet::get_runic_outputs'
FUND = 'ord::fund_raw_transaction::fund_raw_transaction'


def _r23_4(ctx):
  """sibling rule: every body that hands preset runic inputs to a node-funded transaction filters out inscribed outputs;
  and the inscribed-output set is always built by projecting every inscription satpoint to its outpoint"""
  from ..facts import origins
  from .common import deep_origins
  F = ctx.facts
  ctx.rule('R23.4', 'every body that both selects runic outputs (get_runic_outputs) as preset inputs and lets the node fund the transaction filters those outputs with '
           '¬inscribed_outputs.contains(output), inscribed_outputs being derived from Wallet::inscriptions() (sibling agreement between rune send/burn and split)')
  ctx.rule('R23.5', 'where the wallet decides which outputs are inscribed (lock set, preset-input filters), Wallet::inscriptions() is consumed through keys() projected to .outpoint — '
           'never through an exact SatPoint lookup (contains_key / get), which sees only one offset')
  sites = 0
  for b in F.bodies.values():
    if not (b.n.startswith('ord::wallet') or b.n.startswith('ord::subcommand::wallet')) or '{closure' in b.n:
      continue
    if not (b.calls_to(RUNIC) and b.calls_to(FUND)):
      continue
    sites += 1
    ctx.analysed(b)
    fam = F.family(b.n)
    ok = False
    for cb in fam:
      if cb is b:
        continue
      for c in cb.calls:
        if not c.is_('re:(HashSet|BTreeSet).*::contains$'):
          continue
        ups = [o.name for o in origins(cb, c.args[0]) if o.kind == 'upvar']
        # negated result is what the closure returns
        neg = any(s.get('rv', {}).get('k') == 'un' and s['rv']['op'] == 'Not' for blk in cb.blocks for s in blk['s'])
        for u in ups:
          for l in b.locals_named(u):
            os_ = deep_origins(b, {'l': l}, all_args=True)
            if neg and any(o.kind == 'call' and o.call.is_(INSCRIPTIONS) for o in os_) and any(o.kind == 'call' and o.call.is_('re:BTreeMap.*::keys$') for o in os_):
              # the closure must be the predicate of a filter over the runic outputs
              for fc in b.calls_to('std::iter::Iterator::filter'):
                if cb.path in b.slice_of([fc.args[1]], through_calls=False).closures and any(o.kind == 'call' and o.call.is_(RUNIC) for o in deep_origins(b, fc.args[0])):
                  ok = True
    ctx.ob('R23.4', b.n, 'preset runic inputs are filtered by ¬inscribed_outputs.contains(output)', ok,
           'runic outputs that also hold an inscription become inputs of a node-funded transaction (the sibling command filters them out)', f'{b.file}:{b.line}')
  ctx.floor('R23.4', 'bodies that combine get_runic_outputs with fund_raw_transaction', sites, 2)
  # R23.5
  n = 0
  scope = [x for x in F.bodies.values() if x.n.startswith('ord::wallet::Wallet::lock_non_cardinal_outputs') or x.n.startswith('ord::wallet::Wallet::create_unsigned_send_or_burn_runes_transaction')
           or x.n.startswith('ord::subcommand::wallet::split::Split::run') or x.n.startswith('ord::subcommand::wallet::cardinals::')]
  for b in scope:
    ctx.analysed(b)
    for c in b.calls:
      if c.is_(INSCRIPTIONS):
        n += 1
      if c.is_('re:BTreeMap.*::(contains_key|get|get_mut|get_key_value)$') and any(o.kind == 'call' and o.call.is_(INSCRIPTIONS) for o in deep_origins(b, c.args[0])):
        ctx.ob('R23.5', b.n, 'Wallet::inscriptions() consulted by exact SatPoint lookup', False,
               'an output is treated as inscribed only if an inscription sits at the looked-up offset; inscriptions at other offsets of the same output are missed', f'{b.file}:{c.line}')
  ctx.floor('R23.5', 'Wallet::inscriptions() uses in the lock / preset-input bodies', n, 3)
  ctx.ob('R23.5', 'ord::wallet', 'no exact-satpoint lookup into Wallet::inscriptions() in the lock / preset-input bodies', True, '', nontrivial=False)


# sensitivity pack (thorough tier): each seeded edit must be reported by the named rule instance
MUTANTS = [{'name': 'seeded-C23-a', 'patch': 'C23-a/patch.diff', 'expect': ('R23.5', 'lock_non_cardinal_outputs', 'exact SatPoint lookup')},
           {'name': 'seeded-C23-b', 'patch': 'C23-b/patch.diff', 'expect': ('R23.4', 'create_unsigned_send_or_burn_runes_transaction', 'preset runic inputs')}]


# behaviour-preserving edits (thorough tier): the rules must stay silent on every one of them
NEUTRAL = [{'name': 'rune send: local renamed', 'file': 'src/wallet.rs', 'old': '    let inscribed_outputs = self\n      .inscriptions()\n      .keys()\n      .map(|satpoint| satpoint.outpoint)\n      .collect::<HashSet<OutPoint>>();\n\n    let balances = self\n      .get_runic_outputs()?\n      .unwrap_or_default()\n      .into_iter()\n      .filter(|output| !inscribed_outputs.contains(output))', 'new': '    let inscribed = self\n      .inscriptions()\n      .keys()\n      .map(|satpoint| satpoint.outpoint)\n      .collect::<HashSet<OutPoint>>();\n\n    let balances = self\n      .get_runic_outputs()?\n      .unwrap_or_default()\n      .into_iter()\n      .filter(|output| !inscribed.contains(output))'}]
