"""C32 — rune names correspond one-to-one with integers (DESIGN §5 C32).

Decides: R32.1 the constant tables behind the modified base-26 encoding are their closed forms (STEPS[i] = Σ_{k=1..i} 26^k, RESERVED = STEPS[26]
= first 27-letter name, UNLOCK_INTERVAL = 210000/12); R32.2 totality of Rune::{fmt, from_str, commitment, reserved} and
SpacedRune::{fmt, from_str} (site inventory) and from_str uses checked arithmetic only; R32.3 commitment strips only trailing zero
bytes, is_reserved ⇔ n >= RESERVED.  Not decided: bijectivity / print-parse equality as value statements."""
import re
from ..core import where
from ..panics import run_inventory, guard_strings
from ..tables.sites_C32 import TABLE
from ..facts import describe_operand
from ..intervals import fmt_desc

R = 'ordinals::rune::Rune'
ASSUMPTIONS = ["core::fmt machinery and String/char iteration are total"]
ENTRIES = ['re:^<ordinals::rune::Rune as std::(str::FromStr>::from_str|fmt::Display>::fmt)$', 're:^ordinals::rune::Rune::(commitment|reserved|is_reserved|n)$',
           're:^<ordinals::spaced_rune::SpacedRune as std::(str::FromStr>::from_str|fmt::Display>::fmt)$']


def run(ctx):
  F = ctx.facts
  ctx.rule('R32.1', 'Rune::STEPS[i] = Σ_{k=1..i} 26^k for every entry and the table is maximal below 2^128; RESERVED = STEPS[26] (the first 27-letter name); UNLOCKED = 12; UNLOCK_INTERVAL = SUBSIDY_HALVING_INTERVAL / 12')
  ctx.rule('R32.2', 'site inventory over Rune::{fmt, from_str, commitment, reserved, is_reserved} and SpacedRune::{fmt, from_str}; Rune::from_str combines digits only through checked_add / checked_mul')
  ctx.rule('R32.3', 'Rune::commitment shortens the little-endian bytes only while the last remaining byte is zero; Rune::is_reserved is exactly n >= RESERVED; the alphabet literal of Rune::fmt is A..Z')
  # ---- R32.1
  steps = (F.consts.get(R + '::STEPS') or {}).get('v')
  if ctx.anchor('R32.1', 'Rune::STEPS constant value', isinstance(steps, dict) and 'arr' in steps):
    arr = steps['arr']
    acc = 0
    okf = True
    for i, v in enumerate(arr):
      if i > 0:
        acc += 26**i
      ctx.ob('R32.1', R, f'STEPS[{i}] = Σ_(k=1..{i}) 26^k', v == acc, f'{v} != {acc}', nontrivial=False)
    ctx.ob('R32.1', R, 'STEPS is maximal: the next sum exceeds u128::MAX', acc + 26**len(arr) > (1 << 128) - 1 and acc <= (1 << 128) - 1, '', nontrivial=False)
    ctx.floor('R32.1', 'STEPS entries', len(arr), 28)
    res = (F.consts.get(R + '::RESERVED') or {}).get('v')
    ctx.ob('R32.1', R, 'RESERVED = STEPS[26] (first 27-letter name)', len(arr) > 26 and res == arr[26], f'{res}', nontrivial=False)
  ctx.ob('R32.1', R, 'UNLOCKED = 12', (F.consts.get(R + '::UNLOCKED') or {}).get('v') == 12, '', nontrivial=False)
  shi = 210_000  # bitcoin::constants::SUBSIDY_HALVING_INTERVAL (external crate constant; the protocol's halving interval)
  ctx.ob('R32.1', R, 'UNLOCK_INTERVAL = SUBSIDY_HALVING_INTERVAL / 12 = 17500', (F.consts.get(R + '::UNLOCK_INTERVAL') or {}).get('v') == shi // 12, f"{(F.consts.get(R + '::UNLOCK_INTERVAL') or {}).get('v')}", nontrivial=False)

  # ---- R32.2
  run_inventory(ctx, 'R32.2', ENTRIES, TABLE, partition=(16 if ctx.tier == 'thorough' else 1), floor_fns=7, floor_sites=10, label='rune name printing/parsing')
  fs = ctx.body('R32.2', '<ordinals::rune::Rune as std::str::FromStr>::from_str')
  if fs is not None:
    prim = [s for blk in fs.blocks for s in blk['s'] if s.get('rv', {}).get('k') == 'bin' and s['rv']['op'].replace('WithOverflow', '') in ('Add', 'Mul', 'Shl') and s['rv'].get('ty') == 'u128']
    ctx.ob('R32.2', fs.n, 'no primitive u128 Add/Mul/Shl (only checked_add / checked_mul)', not prim, f'{len(prim)} primitive operations on the accumulator', where(fs, fs.line))
    n_chk = len([c for c in fs.calls if re.search(r'impl u128>::checked_(add|mul)$', c.name or '')])
    ctx.floor('R32.2', 'checked_add/checked_mul calls in Rune::from_str', n_chk, 3)

  # ---- R32.3
  c = ctx.body('R32.3', R + '::commitment')
  if c is not None:
    ends = c.locals_named('end')
    ctx.anchor('R32.3', 'local `end` in commitment', len(ends) == 1, c.n)
    dec = []
    for bi, blk in enumerate(c.blocks):
      for s in blk['s']:
        if ends and s.get('p', {}).get('l') == ends[0] and not s['p'].get('p'):
          dec.append((bi, s))
    # one initialisation (len) and one decrement
    decs = [(bi, s) for bi, s in dec if 'Sub' in fmt_desc(describe_operand(c, {'c': {'l': ends[0]}})) or True]
    shrink = []
    for bi, s in dec:
      if s['rv']['k'] == 'use':
        d = fmt_desc(describe_operand(c, s['rv']['o']))
      elif s['rv']['k'] == 'bin' and s['rv']['op'].startswith('Sub'):
        d = 'Sub(' + fmt_desc(describe_operand(c, s['rv']['a'])) + ',' + fmt_desc(describe_operand(c, s['rv']['b'])) + ')'  # release-like MIR: no overflow-check temporary
      else:
        d = s['rv']['k']
      if d.startswith('Sub('):
        shrink.append((bi, s, d))
    inits = [d for d in c.defs().get(ends[0], []) if d['kind'] == 'call' and not d['proj']] if ends else []
    ctx.ob('R32.3', c.n, '`end` starts as bytes.len()', len(inits) == 1 and inits[0]['call'].is_('re:::len$'), f'{inits}', where(c, c.line))
    ctx.ob('R32.3', c.n, 'exactly one shrinking assignment to `end` (end - 1)', len(shrink) == 1 and len(dec) == 1, f'{len(dec)} assignments', where(c, c.line))
    for bi, s, d in shrink:
      gs = guard_strings(c, bi, forms=True)
      okf = 'Gt(end,0)==True' in gs and any(re.match(r'^Eq\(num::to_le_bytes\(self\.0\)\.\[\],0\)==True$', g) for g in gs)
      ctx.ob('R32.3', c.n, 'end is decremented only under end > 0 ∧ bytes[end-1] == 0', okf, f'{gs}', where(c, s['l']))
    ir = c.calls_to('re:array::<impl std::ops::Index for \\[T; N\\]>::index$')
    ctx.ob('R32.3', c.n, 'the result is bytes[..end]', len(ir) == 1 and (c.local_ty(ir[0].args[1].get('m', ir[0].args[1].get('c', {})).get('l', 0)) or '').startswith('std::ops::RangeTo<'), '', where(c, c.line))
  ir = ctx.body('R32.3', R + '::is_reserved')
  if ir is not None:
    d = fmt_desc(describe_operand(ir, {'c': {'l': 0}}))
    ctx.ob('R32.3', ir.n, 'is_reserved = (self.0 >= RESERVED)', d == 'Ge(self.0,RESERVED)', d, where(ir, ir.line))
  fm = ctx.body('R32.3', '<ordinals::rune::Rune as std::fmt::Display>::fmt')
  if fm is not None:
    from .common import string_consts
    lits = set()
    for cc in fm.calls_to('core::str::<impl str>::chars'):
      lits |= set(string_consts(fm, cc.args[0]))
    ctx.ob('R32.3', fm.n, 'alphabet literal is ABCDEFGHIJKLMNOPQRSTUVWXYZ', 'ABCDEFGHIJKLMNOPQRSTUVWXYZ' in lits, f'{lits}', where(fm, fm.line))


# sensitivity pack (thorough tier): each seeded edit must be reported by the named rule instance
MUTANTS = [
  {'name': 'seeded-C32-a', 'patch': 'C32-a/patch.diff', 'expect': ('R32.3', 'Display>::fmt', '')},
  {'name': 'seeded-C32-b', 'patch': 'C32-b/patch.diff', 'expect': ('R32.2', 'FromStr>::from_str', '')},
{'name': 'commitment-strips-without-zero-test', 'file': 'crates/ordinals/src/rune.rs', 'old': 'while end > 0 && bytes[end - 1] == 0 {', 'new': 'while end > 1 {', 'expect': ('R32.3', 'commitment', 'end is decremented only under')}]
