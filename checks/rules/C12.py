"""C12 — index content does not depend on how indexing was scheduled: the per-block path reads and writes index
state only through the batch's own write transaction and carries no per-block object across blocks (DESIGN §5 C12)."""
from ..core import where
from ..facts import norm, origins
from ..tables_id import TableId
from .common import result_is_checked, short, success_return_blocks

INDEX_BLOCK = 'ord::index::updater::Updater::index_block'
UPDATE_INDEX = 'ord::index::updater::Updater::update_index'
COMMIT = 'ord::index::updater::Updater::commit'
DETECT = 'ord::index::reorg::Reorg::detect_reorg'
READ_OPENERS = ['ord::index::Index::begin_read', 'redb::Database::begin_read']
WRITE_OPENERS = ['ord::index::Index::begin_write', 'redb::Database::begin_write']
UPDATER_FIELDS = {'height', 'index', 'outputs_cached', 'outputs_traversed', 'sat_ranges_since_flush'}
# reviewed exception (one line of reason): detect_reorg compares the *committed* tip with the first block of a batch;
# it affects reorg detection only, never index content
READ_EXCEPTION_VIA = [DETECT, 'ord::index::Index::block_hash']

ASSUMPTIONS = ["equality of table dumps across schedules is a value statement and is not decided; only the structural necessary conditions are"]


def run(ctx):
  _r12_5(ctx)
  F = ctx.facts
  T = TableId(F)
  ctx.rule('R12.1', 'no body reachable from Updater::index_block opens a read transaction, except Reorg::detect_reorg -> Index::block_hash (reviewed: committed-tip comparison only)')
  ctx.rule('R12.2', 'no body reachable from Updater::index_block opens a write transaction')
  ctx.rule('R12.3', 'InscriptionUpdater / RuneUpdater values are built only inside index_utxo_entries / index_block and stored in no struct field; '
           'the fields of Updater are exactly {height, index, outputs_cached, outputs_traversed, sat_ranges_since_flush}')
  ctx.rule('R12.4', 'Updater::commit consumes the whole utxo cache (into_iter on the moved map); update_index replaces the cache with HashMap::new() after the in-loop commit '
           'and passes the same cache variable to every index_block call')

  ib = ctx.body('R12.1', INDEX_BLOCK)
  if ib is None:
    return
  db = F.body(DETECT)
  stop = (lambda p: db is not None and p == db.path)
  reach = F.reachable_bodies([ib.path], stop=stop)
  ctx.extra['bodies_reachable_from_index_block'] = len(reach)
  ctx.floor('R12.1', 'bodies reachable from index_block', len(reach), 120)
  for b in [F.bodies[p] for p in reach]:
    ctx.analysed(b)
  nr = nw = 0
  for p in reach:
    b = F.bodies[p]
    if db is not None and p == db.path:
      continue
    for c in b.calls:
      if c.is_(*READ_OPENERS):
        nr += 1
        ctx.ob('R12.1', b.n, f'{short(c.name)} reachable from index_block', False,
               'committed state is read on the per-block path (content would depend on the commit schedule): ' + ' -> '.join(F.witness(reach, p)), where(b, c.line))
      if c.is_(*WRITE_OPENERS):
        nw += 1
        ctx.ob('R12.2', b.n, f'{short(c.name)} reachable from index_block', False,
               'a second write transaction is opened inside a block: ' + ' -> '.join(F.witness(reach, p)), where(b, c.line))
  ctx.ob('R12.1', ib.n, 'no read transaction reachable (outside the reviewed exception)', nr == 0, '', where(ib, ib.line))
  ctx.ob('R12.2', ib.n, 'no write transaction reachable', nw == 0, '', where(ib, ib.line))
  # the exception itself: detect_reorg may reach begin_read only through Index::block_hash
  if db is not None:
    sub = F.reachable_bodies([db.path])
    for p in sub:
      b = F.bodies[p]
      for c in b.calls:
        if c.is_(*READ_OPENERS):
          wit = F.witness(sub, p)
          ok = len(wit) >= 2 and wit[1] == 'ord::index::Index::block_hash'
          ctx.ob('R12.1', b.n, 'read transaction under detect_reorg only via Index::block_hash', ok, 'detect_reorg reads committed state through ' + ' -> '.join(wit), where(b, c.line))
        if c.is_(*WRITE_OPENERS):
          ctx.ob('R12.2', b.n, f'{short(c.name)} reachable from detect_reorg', False, ' -> '.join(F.witness(sub, p)), where(b, c.line))
    # positive control for the reachability engine: the exception must actually be found
    found = any(c.is_(*READ_OPENERS) for p in sub for c in F.bodies[p].calls)
    ctx.ob('R12.1', db.n, 'positive control: the engine sees detect_reorg -> block_hash -> begin_read', found, 'reachability engine lost the known read path', where(db, db.line))

  # ---------------- R12.3
  builders = {}
  for b in F.bodies.values():
    live = b.reachable_from(0)
    for bi, blk in enumerate(b.blocks):
      if blk['cleanup'] or bi not in live:
        continue
      for s in blk['s']:
        rv = s.get('rv')
        if rv and rv['k'] == 'agg' and rv['ak'] == 'adt':
          a = norm(rv['adt'])
          if a in ('ord::index::updater::inscription_updater::InscriptionUpdater', 'ord::index::updater::rune_updater::RuneUpdater'):
            builders.setdefault(a, []).append((b, s.get('l')))
  allowed = {'ord::index::updater::inscription_updater::InscriptionUpdater': 'ord::index::updater::Updater::index_utxo_entries',
             'ord::index::updater::rune_updater::RuneUpdater': 'ord::index::updater::Updater::index_block'}
  for a, owner in allowed.items():
    bs = builders.get(a, [])
    ctx.anchor('R12.3', f'{short(a)} literal', len(bs) >= 1)
    for b, line in bs:
      ctx.ob('R12.3', b.n, f'{short(a)} built in {short(owner)}', b.n == owner, 'a per-block updater is built outside the per-block function', where(b, line))
  # no struct has a field of these types; Updater's fields
  for an, adt in F.adts.items():
    for v in adt['variants']:
      for f in v['fields']:
        if 'InscriptionUpdater' in f['ty'] or 'RuneUpdater' in f['ty']:
          ctx.ob('R12.3', an, f'field {f["n"]} holds a per-block updater', False, 'a per-block updater is stored in a struct and could outlive the block', f"{adt['file']}:{adt['line']}")
  up = F.adts.get('ord::index::updater::Updater')
  ctx.anchor('R12.3', 'Updater struct', up is not None)
  if up is not None:
    fields = {f['n'] for f in up['variants'][0]['fields']}
    ctx.ob('R12.3', 'ord::index::updater::Updater', 'fields == {height,index,outputs_cached,outputs_traversed,sat_ranges_since_flush}', fields == UPDATER_FIELDS,
           f'Updater carries other state across blocks: {sorted(fields ^ UPDATER_FIELDS)}', f"{up['file']}:{up['line']}")
  # locals of update_index: no updater types
  ui = ctx.body('R12.3', UPDATE_INDEX)
  if ui is not None:
    bad = [l['n'] or f'_{i}' for i, l in enumerate(ui.locals) if 'InscriptionUpdater' in l['ty'] or 'RuneUpdater' in l['ty']]
    ctx.ob('R12.3', ui.n, 'no per-block updater local in update_index', not bad, f'locals {bad}', where(ui, ui.line))

  # ---------------- R12.4
  cm = ctx.body('R12.4', COMMIT)
  if cm is not None:
    its = [c for c in cm.calls if c.is_('re:IntoIterator.*::into_iter$')]
    ok = False
    for c in its:
      os_ = origins(cm, c.args[0])
      if any(o.kind == 'param' and o.name == 'utxo_cache' and not o.fields for o in os_) and 'm' in c.args[0]:
        ok = True
        # the loop's inserts are inside a loop fed by this iterator
    ctx.ob('R12.4', cm.n, 'utxo_cache consumed by into_iter (by value)', ok, 'commit does not drain the whole cache', where(cm, cm.line))
    ins = [c for c, k, t in T.writes([cm]) if 'OUTPOINT_TO_UTXO_ENTRY' in t and k == 'insert']
    ctx.anchor('R12.4', 'OUTPOINT_TO_UTXO_ENTRY insert in commit', len(ins) == 1, cm.n)
    for c in ins:
      ko = origins(cm, c.args[1])
      ctx.ob('R12.4', cm.n, 'every cache element is written (insert in the loop body, key from the loop element)',
             cm.strictly_reaches(c.bb, c.bb) and cm.slice_of([c.args[1]]).has_call('re:Iterator.*::next$'), f'{ko}', where(cm, c.line))
  if ui is not None:
    ibs = ui.calls_to(INDEX_BLOCK)
    cms = ui.calls_to(COMMIT)
    ctx.anchor('R12.4', 'index_block call and two commit calls in update_index', len(ibs) == 1 and len(cms) == 2, ui.n)
    if len(ibs) == 1 and len(cms) == 2:
      names = set()
      for c in cms:
        names |= {o.name for o in _deep(ui, c.args[2]) if o.name}
      ctx.ob('R12.4', ui.n, 'both commit calls consume the utxo_cache variable', 'utxo_cache' in names, f'{names}', where(ui, cms[0].line))
      loop_c = [c for c in cms if ui.strictly_reaches(c.bb, c.bb)]
      if len(loop_c) == 1:
        c = loop_c[0]
        # after the in-loop commit, utxo_cache is re-assigned from HashMap::new() before the back edge reaches index_block again
        news = [n for n in ui.calls if n.is_('re:std::collections::HashMap::new$') and ui.dominates(c.bb, n.bb)]
        ok = False
        for n in news:
          dl = n.dest['l']
          # dest flows into the utxo_cache local
          for l in ui.locals_named('utxo_cache'):
            for df in ui.defs().get(l, []):
              if df['kind'] == 'assign' and df['rv']['k'] == 'use' and df['rv']['o'].get('m', {}).get('l') == dl:
                ok = True
              if df['kind'] == 'call' and df['call'] is n:
                ok = True
        ctx.ob('R12.4', ui.n, 'utxo_cache = HashMap::new() after the in-loop commit', ok, 'stale cache entries survive a commit (would be written twice / shadow committed state)', where(ui, c.line))
      # index_block receives &mut utxo_cache and &mut wtx of this function
      a = ibs[0]
      oc = _deep(ui, a.args[5])
      ow = _deep(ui, a.args[3])
      ctx.ob('R12.4', ui.n, 'index_block(utxo_cache<-the batch cache, wtx<-the batch transaction)',
             any(o.name == 'utxo_cache' for o in oc) and any(o.name == 'wtx' for o in ow), f'{oc} {ow}', where(ui, a.line))


def _deep(body, op):
  """origins, also giving named locals reached on the way"""
  out = list(origins(body, op))
  sl = body.slice_of([op], through_calls=False)
  from ..facts import Origin
  for l in sl.locals:
    nm = body.local_name(l)
    if nm:
      out.append(Origin('var', body, local=l, name=nm))
  for c in sl.calls:
    out.append(Origin('call', body, call=c))
  return out


def _r12_5(ctx):
  """order and reset rules that make the stored content independent of how blocks were batched into commits"""
  from ..core import where
  from ..facts import describe_operand
  from ..intervals import fmt_desc
  from ..effects import always_with
  from .common import deep_origins
  F = ctx.facts
  ctx.rule('R12.5', 'UtxoEntryBuf::merged(existing, new): at both call sites the first argument is the entry that already exists (the stored table value in commit, the cached null-outpoint entry in index_utxo_entries) and the second '
           'the newly built one — otherwise the order of lost-sat ranges depends on how many blocks share a commit')
  ctx.rule('R12.6', 'every per-batch counter that Updater::commit flushes into a statistic (outputs_traversed, sat_ranges_since_flush) is reset to 0 on every path after the flush, before the next commit — otherwise later commits of one update re-add it')
  M = 'ord::index::utxo_entry::UtxoEntryBuf::merged'
  sites = F.call_sites(M)
  ctx.floor('R12.5', 'UtxoEntryBuf::merged call sites', len(sites), 2)
  for c in sites:
    b = c.body
    ctx.analysed(b)
    a0 = deep_origins(b, c.args[0], named_terminal=True)
    a1 = deep_origins(b, c.args[1], named_terminal=True)
    d0, d1 = fmt_desc(describe_operand(b, c.args[0])), fmt_desc(describe_operand(b, c.args[1]))
    if b.n.endswith('::commit'):
      ok = 'AccessGuard::value(' in d0 and 'ReadableTable::get(' in d0 and not ('AccessGuard::value(' in d1)
      what = 'commit: merged(stored entry, cached entry)'
    else:
      ok = ('UtxoEntryBuf::new()' in d1) and ('UtxoEntryBuf::new()' not in d0)
      what = f'{b.n.split("::")[-1]}: merged(cached entry, newly built entry)'
    ctx.ob('R12.5', b.n, what, ok, f'first argument {d0[:80]}, second {d1[:80]}', where(b, c.line))
  cm = ctx.body('R12.6', 'ord::index::updater::Updater::commit')
  if cm is not None:
    flushes = []
    for c in cm.calls_to('ord::index::Index::increment_statistic'):
      d = fmt_desc(describe_operand(cm, c.args[2]))
      m = __import__('re').match(r'^self\.(\w+)$', d)
      if m:
        flushes.append((m.group(1), c))
    ctx.floor('R12.6', 'statistics flushed from per-batch counters in commit', len(flushes), 2)
    for fld, c in flushes:
      resets = [(bi, s) for bi, blk in enumerate(cm.blocks) for s in blk['s'] if s.get('p', {}).get('l') == 1 and any(isinstance(e, dict) and e.get('n') == fld for e in (s['p'].get('p') or []))
                and s['rv']['k'] == 'use' and cm.const_of(s['rv']['o']) == 0]
      ok = any(always_with(cm, c.bb, bi) for bi, _ in resets)
      if not ok:
        # the reset may live in the caller, right after every commit call
        ok_callers = []
        for cc in F.call_sites('ord::index::updater::Updater::commit'):
          cb = cc.body
          rs = [bi for bi, blk in enumerate(cb.blocks) for s in blk['s'] if s.get('p', {}).get('l') == 1 and any(isinstance(e, dict) and e.get('n') == fld for e in (s['p'].get('p') or []))
                and s['rv']['k'] == 'use' and cb.const_of(s['rv']['o']) == 0]
          ok_callers.append(any(always_with(cb, cc.bb, bi) for bi in rs))
        ok = bool(ok_callers) and all(ok_callers)
      ctx.ob('R12.6', cm.n, f'self.{fld} is reset after it is flushed', ok, f'Statistic flushed from self.{fld} is re-added by every later commit of the same update call: the statistic depends on the commit interval', where(cm, c.line))


# sensitivity pack (thorough tier): each seeded edit must be reported by the named rule instance
MUTANTS = [{'name': 'seeded-C12-a', 'patch': 'C12-a/patch.diff', 'expect': ('R12.5', 'index_utxo_entries', 'merged(cached entry')},
           {'name': 'seeded-C12-b', 'patch': 'C12-b/patch.diff', 'expect': ('R12.6', 'Updater::commit', 'sat_ranges_since_flush')}]


# behaviour-preserving pack (thorough tier)
NEUTRAL = [
  {'name': 'commit: two independent statistic flushes reordered', 'file': 'src/index/updater.rs', 'old': '    Index::increment_statistic(&wtx, Statistic::OutputsTraversed, self.outputs_traversed)?;\n    self.outputs_traversed = 0;\n    Index::increment_statistic(&wtx, Statistic::SatRanges, self.sat_ranges_since_flush)?;\n    self.sat_ranges_since_flush = 0;\n', 'new': '    Index::increment_statistic(&wtx, Statistic::SatRanges, self.sat_ranges_since_flush)?;\n    self.sat_ranges_since_flush = 0;\n    Index::increment_statistic(&wtx, Statistic::OutputsTraversed, self.outputs_traversed)?;\n    self.outputs_traversed = 0;\n'},
  {'name': 'commit: satpoint literal inlined', 'file': 'src/index/updater.rs', 'old': '            let satpoint = SatPoint { outpoint, offset };\n            sequence_number_to_satpoint.insert(sequence_number, &satpoint.store())?;', 'new': '            sequence_number_to_satpoint.insert(sequence_number, &SatPoint { outpoint, offset }.store())?;'},
]
