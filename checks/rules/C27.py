"""C27 — inscription envelopes round-trip; envelope parsing is total (DESIGN §5 C27).

Decides: R27.1 writer/reader agreement of the field tags (same tag set, each tag written from and read into the same-named
Inscription field, Parent through the array forms on both sides, one shared chunking predicate, the body tag written last);
R27.2 totality of the reader (from_transaction → from_tapscript → from_instructions → From<RawEnvelope>, Tag::take*, accessors) and of
the writer; R27.3 bounds of the compact id / pointer encodings; R27.4 consecutive envelope indices per input.
Not decided: equality of the parsed fields with the written ones as a value statement."""
import re
from ..core import where
from ..facts import origins, describe_operand, norm
from ..intervals import fmt_desc
from ..panics import run_inventory, guard_strings
from ..tables.sites_C27 import TABLE
from .common import deep_origins

INS = 'ord::inscriptions::inscription::Inscription::'
ENVF = '<ord::inscriptions::envelope::Envelope as std::convert::From>::from'
ENV = 'ord::inscriptions::envelope::Envelope::'
TAG = 'ord::inscriptions::tag::Tag::'
ASSUMPTIONS = ["bitcoin::script::{Builder, Instructions, PushBytes}, BTreeMap and Vec behave as documented; witnesses come from consensus-valid transactions (input count and script size bounded by block weight)"]
ENTRIES = [
    're:^ord::inscriptions::envelope::Envelope.*::(from_transaction|from_tapscript|from_instructions|accept)$', 're:^' + re.escape(ENVF) + '$',
    're:^ord::inscriptions::inscription::Inscription::(pointer|parents|delegate|properties|hidden|append_reveal_script_to_builder|append_batch_reveal_script_to_builder|pointer_value|metaprotocol|content_type|content_encoding|rune|metadata|properties_cbor|body|content_length|media)$',
    're:^ord::inscriptions::inscription_id::InscriptionId::(value|from_value)$',
    're:^ord::inscriptions::tag::Tag::(take|take_array|chunked|bytes|append|append_array)$',
    're:unversioned_leaf_script_from_witness$',
]


def _tag(body, op):
  m = re.match(r'^Tag::(\w+)\{\}$', fmt_desc(describe_operand(body, op)))
  return m.group(1) if m else None


def run(ctx):
  F = ctx.facts
  ctx.rule('R27.1', 'the tags appended by append_reveal_script_to_builder equal the tags taken by From<RawEnvelope> for ParsedEnvelope; each is written from and read into the same Inscription field; '
           'Parent uses append_array / take_array; Tag::chunked is the single chunking predicate of append and take; the body tag is pushed after every field')
  ctx.rule('R27.2', 'site inventory over the envelope reader (from_transaction … From<RawEnvelope>, Tag::take/take_array, the Inscription accessors, InscriptionId::from_value) and the writer (append_reveal_script_to_builder, Tag::append*, InscriptionId::value)')
  ctx.rule('R27.3', 'InscriptionId::from_value accepts only 32..=36 bytes and rejects a trailing zero byte unless the index part is 4 bytes long; Inscription::pointer ignores bytes beyond 8 only if they are all zero')
  ctx.rule('R27.4', 'RawEnvelope::from_tapscript numbers the envelopes of an input consecutively: the offset passed to from_instructions is envelopes.len() of that input, and the input index is the enumerate index of from_transaction')
  w = ctx.body('R27.1', INS + 'append_reveal_script_to_builder')
  r = F.body(ENVF)
  ctx.anchor('R27.1', ENVF, r is not None)
  if w is not None and r is not None:
    ctx.analysed(w, r)
    wr = {}
    for c in w.calls:
      if c.is_(TAG + 'append') or c.is_(TAG + 'append_array'):
        flds = {f for o in deep_origins(w, c.args[2]) if o.kind == 'param' and o.name == 'self' for f in o.fields[:1]}
        wr[_tag(w, c.args[0])] = ('array' if c.is_(TAG + 'append_array') else 'single', flds, c)
    rd = {}
    for c in r.calls:
      if c.is_(TAG + 'take') or c.is_(TAG + 'take_array'):
        rd[_tag(r, c.args[0])] = ['array' if c.is_(TAG + 'take_array') else 'single', None, c]
    # reader: which Inscription field receives which take
    lits = [s for blk in r.blocks for s in blk['s'] if s.get('rv', {}).get('k') == 'agg' and norm(s['rv'].get('adt') or '').endswith('::Inscription')]
    ctx.anchor('R27.1', 'Inscription literal in From<RawEnvelope>', len(lits) == 1, r.n)
    for s in lits:
      for f, op in zip(s['rv']['fields'], s['rv']['ops']):
        for o in origins(r, op):
          if o.kind == 'call' and (o.call.is_(TAG + 'take') or o.call.is_(TAG + 'take_array')):
            t = _tag(r, o.call.args[0])
            if t in rd:
              rd[t][1] = f
    ctx.floor('R27.1', 'tags written by the reveal-script builder', len(wr), 10)
    ctx.ob('R27.1', r.n, 'tag set written == tag set read', set(wr) == set(rd), f'written only {sorted(set(wr) - set(rd), key=str)}, read only {sorted(set(rd) - set(wr), key=str)}', where(r, r.line))
    for t in sorted(set(wr) & set(rd), key=str):
      form_w, flds, c = wr[t]
      form_r, fld_r, cr = rd[t]
      ctx.ob('R27.1', w.n, f'Tag::{t}: written from the field it is read into, in the same form', form_w == form_r and flds == {fld_r}, f'written {form_w} from {sorted(flds)}, read {form_r} into {fld_r}', where(w, c.line))
    ctx.ob('R27.1', w.n, 'Tag::Parent uses the array forms', wr.get('Parent', ('',))[0] == 'array' and (rd.get('Parent') or [''])[0] == 'array', '', where(w, w.line), nontrivial=False)
    # body tag last on the writer side
    body_push = [c for c in w.calls if c.is_('re:script::Builder::push_slice$') and any(cd.endswith('BODY_TAG') for cd in w.slice_of([c.args[1]], through_calls=False).constdefs)]
    appends = [c for c in w.calls if c.is_(TAG + 'append') or c.is_(TAG + 'append_array')]
    ctx.ob('R27.1', w.n, 'the body tag is pushed after every field', len(body_push) == 1 and all(w.dominates(a.bb, body_push[0].bb) or not w.reaches(body_push[0].bb, a.bb) for a in appends) and all(w.reaches(a.bb, body_push[0].bb) for a in appends),
           f'{len(body_push)} BODY_TAG pushes', where(w, w.line))
    # reader: everything from the first empty push at an even position on is body
    pos = [c for c in r.calls if c.is_('std::iter::Iterator::position')]
    ctx.ob('R27.1', r.n, 'the body starts at the first empty push at an even position (position over enumerate)', len(pos) == 1, '', where(r, r.line))
    for cb in [F.bodies.get(d) for c in pos for d in r.slice_of([c.args[1]], through_calls=False).closures]:
      if cb is None:
        continue
      d0 = [fmt_desc(a) for a in _ret_conj(cb)]
      ctx.ob('R27.1', cb.n, 'body predicate is i % 2 == 0 ∧ push.is_empty()', any('Rem(' in x and ',2)' in x for x in d0) and any('is_empty' in x for x in d0), f'{d0}', where(cb, cb.line))
  # chunking predicate shared
  ap, tk = F.body(TAG + 'append'), F.body(TAG + 'take')
  if ap is not None and tk is not None:
    ctx.analysed(ap, tk)
    ctx.ob('R27.1', ap.n, 'append and take branch on the same Tag::chunked predicate', len(ap.calls_to(TAG + 'chunked')) == 1 and len(tk.calls_to(TAG + 'chunked')) == 1, '', where(ap, ap.line))
    ch = ap.calls_to('re:slice::<impl \\[T\\]>::chunks$')
    ctx.ob('R27.1', ap.n, 'chunked fields are split with chunks(MAX_SCRIPT_ELEMENT_SIZE)', len(ch) == 1 and any(cd.endswith('MAX_SCRIPT_ELEMENT_SIZE') for cd in ap.slice_of([ch[0].args[1]], through_calls=False).constdefs), '', where(ap, ap.line))
    # the split/concatenate decision depends on nothing but Tag::chunked(self): a second condition on one side only (e.g. on the value's
    # length) makes the writer emit several pushes that the reader does not join (seeded C27-a)
    from ..guards import all_guards, expand
    def ctl(b, c):
      return {(fmt_desc(g.atom), g.pol) for g in expand(b, all_guards(b, c.bb)) if not fmt_desc(g.atom).startswith('discr(') and 'is_empty' not in fmt_desc(g.atom)}
    whole = [c for c in ap.calls if c.is_('re:Vec.*::as_slice$')]
    fl = tk.calls_to('re:Iterator::flatten$')
    tv = tk.calls_to('re:slice::<impl \\[T\\]>::to_vec$')
    for b_, cs, pol, what in ((ap, ch, True, 'append: several pushes'), (ap, whole, False, 'append: one push of the whole value'), (tk, fl, True, 'take: all values concatenated'), (tk, tv, False, 'take: first value only')):
      if ctx.anchor('R27.1', what, len(cs) == 1, b_.n):
        g = ctl(b_, cs[0])
        ctx.ob('R27.1', b_.n, f'{what} <=> Tag::chunked(self) == {pol}, and nothing else', g == {('Tag::chunked(self)', pol)}, f'controlled by {sorted(g)}', where(b_, cs[0].line))
  # ---------------- R27.2
  run_inventory(ctx, 'R27.2', ENTRIES, TABLE, partition=(16 if ctx.tier == 'thorough' else 1), floor_fns=30, floor_sites=18, label='envelope reader / writer')
  # ---------------- R27.3
  fv = ctx.body('R27.3', 'ord::inscriptions::inscription_id::InscriptionId::from_value')
  if fv is not None:
    somes = [bi for bi, blk in enumerate(fv.blocks) for s in blk['s'] if s.get('rv', {}).get('k') == 'agg' and s['rv'].get('variant') == 'Some' and s.get('p', {}).get('l') == 0 and bi in fv.reachable_from(0)]
    ctx.anchor('R27.3', 'Some(..) return of from_value', len(somes) == 1, fv.n)
    for bi in somes:
      gs = guard_strings(fv, bi, forms=True)
      ctx.ob('R27.3', fv.n, 'Some only for 32 <= len <= 36', 'Lt(slice::len(value),LEN)==False' in gs and 'Gt(slice::len(value),Add(LEN,4))==False' in gs, f'{gs}', where(fv, fv.line))
    nones = [bi for bi, blk in enumerate(fv.blocks) for s in blk['s'] if s.get('rv', {}).get('k') == 'agg' and s['rv'].get('variant') == 'None' and s.get('p', {}).get('l') == 0 and bi in fv.reachable_from(0)]
    tz = [bi for bi in nones if any('Ne(slice::len(' in g and ',4)==True' in g for g in guard_strings(fv, bi)) and any(re.search(r'^Eq\(.*,0\)==True$', g) for g in guard_strings(fv, bi))]
    ctx.ob('R27.3', fv.n, 'a trailing zero byte is rejected unless the index part is 4 bytes long', len(tz) == 1, f'{[guard_strings(fv, b) for b in nones]}', where(fv, fv.line))
  pt = ctx.body('R27.3', INS + 'pointer')
  if pt is not None:
    sk = pt.calls_to('std::iter::Iterator::skip')
    anyc = pt.calls_to('std::iter::Iterator::any')
    okp = len(sk) == 1 and pt.const_of(sk[0].args[1]) == 8 and len(anyc) == 1
    ne0 = False
    for c in anyc:
      for d in pt.slice_of([c.args[1]], through_calls=False).closures:
        cb = F.bodies.get(d)
        if cb is not None:
          ne0 = any(fmt_desc(x).startswith('Ne(') and fmt_desc(x).endswith(',0)') for x in _ret_conj(cb))
    somes = [bi for bi, blk in enumerate(pt.blocks) for s_ in blk['s'] if s_.get('rv', {}).get('k') == 'agg' and s_['rv'].get('variant') == 'Some' and s_.get('p', {}).get('l') == 0 and bi in pt.reachable_from(0)]
    guarded = all(any(g.startswith('Iterator::any(') and g.endswith('==False') for g in guard_strings(pt, bi)) for bi in somes) and len(somes) == 1
    ctx.ob('R27.3', pt.n, 'pointer(): Some only if no byte beyond the first 8 is non-zero (skip(8).any(byte != 0) is false)', okp and ne0 and guarded, f'skip={[pt.const_of(c.args[1]) for c in sk]} ne0={ne0} guarded={guarded}', where(pt, pt.line))
    gets = sorted(pt.const_of(c.args[1]) for c in pt.calls_to('re:slice::<impl \\[T\\]>::get$') if isinstance(pt.const_of(c.args[1]), int))
    arrs = [s_ for blk in pt.blocks for s_ in blk['s'] if s_.get('rv', {}).get('k') == 'agg' and s_['rv'].get('ak') == 'array' and len(s_['rv']['ops']) == 8]
    inorder = False
    for a in arrs:
      idx = []
      for op in a['rv']['ops']:
        got = None
        for o in deep_origins(pt, op):
          if o.kind == 'call' and o.call.is_('re:slice::<impl \\[T\\]>::first$'):
            got = 0
          elif o.kind == 'call' and o.call.is_('re:slice::<impl \\[T\\]>::get$'):
            got = pt.const_of(o.call.args[1])
        idx.append(got)
      inorder = idx == list(range(8))
    ctx.ob('R27.3', pt.n, 'pointer(): the 8 little-endian bytes are value[0..8] in order', inorder and gets == [1, 2, 3, 4, 5, 6, 7] and len(pt.calls_to('re:slice::<impl \\[T\\]>::first$')) == 1 and len(pt.calls_to('re:<impl u64>::from_le_bytes$')) == 1, f'{gets}', where(pt, pt.line))
  # ---------------- R27.4
  ft = ctx.body('R27.4', ENV + 'from_tapscript')
  if ft is not None:
    fi = ft.calls_to(ENV + 'from_instructions')
    ctx.anchor('R27.4', 'from_instructions call in from_tapscript', len(fi) == 1, ft.n)
    for c in fi:
      off = fmt_desc(describe_operand(ft, c.args[2]))
      inp = [o for o in origins(ft, c.args[1])]
      ctx.ob('R27.4', ft.n, 'offset argument is envelopes.len()', off.startswith('Vec::len(') and 'envelopes' in {ft.local_name(l) for l in ft.slice_of([c.args[2]]).locals}, off, where(ft, c.line))
      ctx.ob('R27.4', ft.n, 'input argument is the input parameter', any(o.kind == 'param' and o.name == 'input' for o in inp), f'{inp}', where(ft, c.line))
    pushes = [c for c in ft.calls if c.is_('std::vec::Vec::push')]
    ctx.ob('R27.4', ft.n, 'every parsed envelope is pushed onto envelopes (one push, fed by from_instructions)', len(pushes) == 1 and any(o.kind == 'call' and o.call.is_(ENV + 'from_instructions') for o in deep_origins(ft, pushes[0].args[1])), '', where(ft, ft.line))
  # Envelope<T>::from_transaction exists for the raw and the parsed envelope; the raw one calls from_tapscript
  ftxs = [b for b in F.by_norm.get(ENV + 'from_transaction', []) if b.calls_to(ENV + 'from_tapscript')]
  ctx.anchor('R27.4', 'RawEnvelope::from_transaction', len(ftxs) == 1)
  for ftx in ftxs:
    c = ftx.calls_to(ENV + 'from_tapscript')
    ctx.ob('R27.4', ftx.n, 'from_tapscript receives the enumerate index of the input', len(c) == 1 and '.v:Some.0.0' in fmt_desc(describe_operand(ftx, c[0].args[1])) and 'enumerate' in fmt_desc(describe_operand(ftx, c[0].args[1])), '', where(ftx, ftx.line))

  _r27_5(ctx, F)


ID_VALUE_ALLOWED = ('re:impl u32>::to_le_bytes$', 're:impl \\[T; N\\]>::as_slice$', 're:impl std::ops::Index for \\[T\\]>::index$', 're:slice::<impl \\[T\\]>::len$')


def _r27_5(ctx, F):
  """writer side of R27.3: from_value pads a short index with zeros at the END, so value() may drop only a suffix of zero bytes"""
  from ..affine import Analysis, Aff, pkey
  from ..facts import guards_of
  ctx.rule('R27.5', 'InscriptionId::value emits the little-endian index bytes through nothing but a shrinking re-slice [0 .. len - 1] that is taken only while the last remaining byte equals 0 '
           '(from_value pads at the end, so only trailing zeros may be dropped)')
  b = ctx.body('R27.5', 'ord::inscriptions::inscription_id::InscriptionId::value')
  if b is None:
    return
  ch = b.calls_to('std::iter::Iterator::chain')
  if not ctx.anchor('R27.5', 'txid bytes chained with the index bytes', len(ch) == 1, b.n):
    return
  leg = [o for o in deep_origins(b, ch[0].args[1], all_args=True)]
  calls = {o.call.name: o.call for o in leg if o.kind == 'call'}
  other = sorted(n for n, c in calls.items() if not c.is_(*ID_VALUE_ALLOWED))
  ctx.ob('R27.5', b.n, 'the index bytes reach the output only through as_slice and the trailing-zero re-slice', not other and any(c.is_(ID_VALUE_ALLOWED[0]) for c in calls.values()),
         f'index bytes also pass through {other}: bytes other than trailing zeros can be dropped or changed', where(b, ch[0].line))
  idx = [c for c in calls.values() if c.is_(ID_VALUE_ALLOWED[2])]
  if not idx:
    return
  an = Analysis(b)
  for c in idx:
    rk = pkey(c.args[1].get('c') or c.args[1].get('m'))
    lens = [x for x in b.calls if x.is_(ID_VALUE_ALLOWED[3])]
    ok = False
    msg = ''
    for st in an.at_term(c.bb):
      s0, e0 = st.val((rk[0], rk[1] + (('f', 0),))), st.val((rk[0], rk[1] + (('f', 1),)))
      msg = f'[{s0} .. {e0}]'
      src0 = c.args[0].get('c') or c.args[0].get('m')
      tg = [tk for tk, m in st.ref.get(src0['l'], ())] if src0 and not src0.get('p') else []
      if len(tg) == 1 and lens and s0 == Aff.const(0) and e0 == st.val((tg[0][0], tg[0][1] + ('#len',))) - Aff.const(1):
        ok = True
    ctx.ob('R27.5', b.n, 're-slice is [0 .. len - 1] of the slice being shortened', ok, msg, where(b, c.line))
    gs = []
    for g in guards_of(b, c.bb):
      sl = g.slice()
      if sl.has_call('re:slice::<impl \\[T\\]>::last$') and sl.has_call('re:Option as std::cmp::PartialEq>::eq$'):
        eqs = [x for x in b.calls if x.is_('re:Option as std::cmp::PartialEq>::eq$') and b.dominates(x.bb, g.bb)]
        zero = False
        for x in eqs:
          for a in x.args:
            for o in origins(b, a):
              if o.kind == 'const' and isinstance(o.const, dict) and [pc.get('v') for pc in (o.const.get('pc') or [])] == [0]:
                zero = True
        gs.append((g.cond_true_live(), zero))
    ctx.ob('R27.5', b.n, 're-slice happens only while last() == Some(0)', gs == [(True, True)], f'{gs}', where(b, c.line))


def _ret_conj(cb):
  """descriptions of the terms of the boolean a closure returns (conjunction expanded)"""
  from ..guards import conjuncts
  from ..facts import describe_cond
  terms = conjuncts(cb, {'c': {'l': 0}})
  if terms:
    return [a for a, _ in terms]
  return [describe_cond(cb, {'c': {'l': 0}})]


# sensitivity pack (thorough tier): each seeded edit must be reported by the named rule instance
MUTANTS = [{'name': 'seeded-C27-a', 'patch': 'C27-a/patch.diff', 'expect': ('R27.1', 'Tag::append', 'Tag::chunked(self)')},
           {'name': 'seeded-C27-b', 'patch': 'C27-b/patch.diff', 'expect': ('R27.5', 'InscriptionId::value', '')},
           {'name': 'content-type-encoding-swapped', 'file': 'src/inscriptions/inscription.rs', 'old': 'Tag::ContentType.append(&mut builder, &self.content_type);\n    Tag::ContentEncoding.append(&mut builder, &self.content_encoding);', 'new': 'Tag::ContentType.append(&mut builder, &self.content_encoding);\n    Tag::ContentEncoding.append(&mut builder, &self.content_type);', 'expect': ('R27.1', 'append_reveal_script_to_builder', 'Tag::ContentType')},
           {'name': 'from-value-length-guard-dropped', 'file': 'src/inscriptions/inscription_id.rs', 'old': '    if value.len() < Txid::LEN {\n      return None;\n    }\n', 'new': '', 'expect': ('R27.2', 'from_value', 'split_at')}]


# behaviour-preserving edits (thorough tier): the rules must stay silent on every one of them
NEUTRAL = [{'name': 'from_value: flipped comparison and a let binding', 'file': 'src/inscriptions/inscription_id.rs', 'old': '    if value.len() < Txid::LEN {\n      return None;\n    }\n\n    if value.len() > Txid::LEN + 4 {\n      return None;\n    }', 'new': '    let n = value.len();\n    if Txid::LEN > n {\n      return None;\n    }\n\n    if n > Txid::LEN + 4 {\n      return None;\n    }'},
           {'name': 'reveal script: two field appends reordered', 'file': 'src/inscriptions/inscription.rs', 'old': '    Tag::Metaprotocol.append(&mut builder, &self.metaprotocol);\n    Tag::Parent.append_array(&mut builder, &self.parents);', 'new': '    Tag::Parent.append_array(&mut builder, &self.parents);\n    Tag::Metaprotocol.append(&mut builder, &self.metaprotocol);'}]
