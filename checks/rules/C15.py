"""C15 — optional indexes do not change inscription or rune results.

Agreement of the two value computations (node-fetched input values vs locally tracked ones) across configurations is value equality
and is NOT decided.  Decided is the control-dependence clause it needs: no write to an inscription table or a rune table, and no call
of the inscription / rune updaters, is control-dependent on the optional index flags (index_sats, index_addresses,
index_transactions) or on whether sat ranges are present.  Only the sat-derived tables and the optional tables themselves may be."""
import re
from ..core import where
from ..guards import all_guards, expand
from ..intervals import fmt_desc
from ..tables_id import TableId

ASSUMPTIONS = ["only control dependence of the writes on the optional flags is decided; that the fetched-value path and the tracked-value path produce equal numbers is not"]
OPTIONAL = ('index_sats', 'index_addresses', 'index_transactions', 'sat_ranges')
# tables whose very existence is the optional feature, or that are sat-derived by definition (reviewed, one reason each)
OPTIONAL_TABLES = {
    'SCRIPT_PUBKEY_TO_OUTPOINT': 'the address index itself',
    'TRANSACTION_ID_TO_TRANSACTION': 'the transaction index itself',
    'SAT_TO_SEQUENCE_NUMBER': 'sat-derived: needs sat ranges',
    'SAT_TO_SATPOINT': 'sat-derived: needs sat ranges',
    'OUTPOINT_TO_UTXO_ENTRY': 'holds sat ranges / scripts when those indexes are on; its inscription part is covered by C04/C17',
    'STATISTIC_TO_COUNT': 'counters (lost sats, sat ranges) are sat-index statistics; inscription/rune counters are checked by C05/C11',
}
SCOPE = ('ord::index::updater::inscription_updater::', 'ord::index::updater::rune_updater::', 'ord::index::updater::Updater::index_utxo_entries',
         'ord::index::updater::Updater::index_block', 'ord::index::updater::Updater::commit')
IU = 'ord::index::updater::inscription_updater::InscriptionUpdater::index_inscriptions'
RU = 'ord::index::updater::rune_updater::RuneUpdater::index_runes'


def flag_guards(body, bb):
  out = []
  for g in expand(body, all_guards(body, bb)):
    s = fmt_desc(g.atom)
    if s.startswith('discr(Try::branch('):
      continue  # the error exit of a `?`: an error aborts indexing, it does not select a result
    if any(x in s for x in OPTIONAL):
      out.append(f'{s}=={g.pol}')
  return out


def nested_flag_dependence(body, sink_bb):
  """A branch that can bypass the write and is itself evaluated only on one side of an optional-flag test (e.g. a `continue` inside
  `if index_addresses { .. }`): compare, for every flag test that reaches the write, which of the write's controlling branches can be
  met within the same loop iteration from each side of the test.  A difference means the write is control-dependent on the flag."""
  from ..facts import describe_cond
  from .common import reaches_avoiding
  out = []
  dom = body.dominators()
  preds = body.preds()
  loops = {}
  for u in body.reachable_from(0):
    for v in body.succ(u):
      if v in dom.get(u, ()):
        nodes = loops.setdefault(v, {v})
        st = [u]
        while st:
          x = st.pop()
          if x in nodes:
            continue
          nodes.add(x)
          st.extend(preds.get(x, ()))
  errs = {c.bb for c in body.calls if c.is_('re:FromResidual>::from_residual$')}
  for fb in body.reachable_from(0):
    t = body.blocks[fb]['t']
    if t['k'] != 'switch':
      continue
    d = fmt_desc(describe_cond(body, t['d']))
    if not any(x in d for x in OPTIONAL) or d.startswith('discr('):
      continue
    edges = body.switch_edges(fb)
    if len(edges) != 2:
      continue
    avoid = {h for h, nodes in loops.items() if fb in nodes} | errs
    if not any(tgt == sink_bb or reaches_avoiding(body, tgt, sink_bb, avoid) for _, tgt in edges):
      continue
    # branches met from each side, within this iteration, that have one edge from which the write is out of reach (within the iteration)
    sides = []
    for lab, tgt in edges:
      met = set()
      for x in body.reachable_from(tgt):
        tx = body.blocks[x]['t']
        if tx['k'] != 'switch' or x == fb or not (x == tgt or reaches_avoiding(body, tgt, x, avoid | {sink_bb})):
          continue
        ex = body.switch_edges(x)
        can = [(t2 == sink_bb or reaches_avoiding(body, t2, sink_bb, avoid)) for _, t2 in ex]
        if any(can) and not all(can):
          dx = fmt_desc(describe_cond(body, tx['d']))
          if not dx.startswith('discr(Try::branch('):
            met.add(x)
      sides.append(frozenset(met))
    if sides[0] != sides[1]:
      extra = sorted(sides[0] ^ sides[1])
      names = [fmt_desc(describe_cond(body, body.blocks[x]['t']['d']))[:60] for x in extra]
      out.append(f'{d}: only on one side of this test can the write be bypassed by {names}')
  return out


def run(ctx):
  F = ctx.facts
  T = TableId(F)

  ctx.rule('R15.3', 'without a full UTXO index the values of spent outputs come from the fetcher thread: the i-th fetched transaction is matched with the i-th requested outpoint, where i counts across all chunks of results '
           '(enumerate applied after flatten / flat_map, and the same index selects outpoints[i])')
  ctx.rule('R15.4', 'with the sat index the lost-sat count that the next block\'s inscription updater starts from is the running sum over all lost ranges (so that it equals the count kept without the sat index): the obligations of C01 R1.5')
  _r15_3(ctx)
  from .C01 import lost_sats_for
  lost_sats_for(ctx, 'R15.4')
  ctx.rule('R15.1', 'no write to an inscription or rune table in the updaters can be bypassed or enabled by a branch on index_sats / index_addresses / index_transactions / presence of sat ranges '
           '(reviewed exceptions: the optional and sat-derived tables themselves)')
  ctx.rule('R15.2', 'the calls of InscriptionUpdater::index_inscriptions and RuneUpdater::index_runes are gated by index_inscriptions / index_runes (and the first rune height) only')
  n = 0
  for c, kind, tabs in T.writes():
    b = c.body
    if not b.n.startswith(SCOPE):
      continue
    if not tabs or tabs <= set(OPTIONAL_TABLES):
      continue
    n += 1
    ctx.analysed(b)
    fg = flag_guards(b, c.bb) + nested_flag_dependence(b, c.bb)
    ctx.ob('R15.1', b.n, f'{kind} into {"/".join(sorted(tabs))} does not depend on an optional index flag', not fg,
           f'this write happens or not depending on {fg}: the inscription / rune result differs between index configurations', where(b, c.line))
  ctx.floor('R15.1', 'inscription / rune table writes in the updaters', n, 18)
  for callee, flag in ((IU, 'index_inscriptions'), (RU, 'index_runes')):
    sites = F.call_sites(callee)
    ctx.floor('R15.2', f'call sites of {callee.split("::")[-1]}', len(sites), 1)
    for c in sites:
      b = c.body
      ctx.analysed(b)
      fg = flag_guards(b, c.bb)
      own = [fmt_desc(g.atom) for g in expand(b, all_guards(b, c.bb)) if flag in fmt_desc(g.atom)]
      ctx.ob('R15.2', b.n, f'{callee.split("::")[-1]} is called independently of the optional index flags', not fg, f'{fg}', where(b, c.line))
      ctx.ob('R15.2', b.n, f'{callee.split("::")[-1]} is gated by {flag}', bool(own), '', where(b, c.line), nontrivial=False)


# sensitivity pack (thorough tier): each seeded edit must be reported by the named rule instance
MUTANTS = [
  {'name': 'seeded-C15-a', 'patch': 'C15-a/patch.diff', 'expect': ('R15.3', 'spawn_fetcher', 'counting across all result chunks')},
  {'name': 'seeded-C15-b', 'patch': 'C15-b/patch.diff', 'expect': ('R15.1', 'Updater::commit', 'SEQUENCE_NUMBER_TO_SATPOINT')},
{'name': 'number-table-gated-on-sat-index', 'file': 'src/index/updater/inscription_updater.rs', 'old': '        self\n          .inscription_number_to_sequence_number\n          .insert(inscription_number, sequence_number)?;', 'new': '        if index.index_sats {\n          self\n            .inscription_number_to_sequence_number\n            .insert(inscription_number, sequence_number)?;\n        }', 'expect': ('R15.1', 'update_inscription_location', 'INSCRIPTION_NUMBER_TO_SEQUENCE_NUMBER')}]


# behaviour-preserving pack (thorough tier)
NEUTRAL = [
  {'name': 'commit: satpoint literal inlined', 'file': 'src/index/updater.rs', 'old': '            let satpoint = SatPoint { outpoint, offset };\n            sequence_number_to_satpoint.insert(sequence_number, &satpoint.store())?;', 'new': '            sequence_number_to_satpoint.insert(sequence_number, &SatPoint { outpoint, offset }.store())?;'},
  {'name': 'inscription number: arms swapped under !cursed', 'file': 'src/index/updater/inscription_updater.rs', 'old': '        let inscription_number = if cursed {\n          let number: i32 = self.cursed_inscription_count.try_into().unwrap();\n          self.cursed_inscription_count += 1;\n          -(number + 1)\n        } else {\n          let number: i32 = self.blessed_inscription_count.try_into().unwrap();\n          self.blessed_inscription_count += 1;\n          number\n        };', 'new': '        let inscription_number = if !cursed {\n          let number: i32 = self.blessed_inscription_count.try_into().unwrap();\n          self.blessed_inscription_count += 1;\n          number\n        } else {\n          let number: i32 = self.cursed_inscription_count.try_into().unwrap();\n          self.cursed_inscription_count += 1;\n          -(number + 1)\n        };'},
]


def _r15_3(ctx):
  from ..facts import origins
  from .common import deep_origins
  F = ctx.facts
  fam = [b for b in F.family('ord::index::updater::Updater::spawn_fetcher') if any(c.is_('re:Sender.*::send$') for c in b.calls)]
  if not ctx.anchor('R15.3', 'fetcher body that sends outputs back (txout_sender.send)', len(fam) >= 1, 'ord::index::updater::Updater::spawn_fetcher'):
    return
  for b in fam:
    ctx.analysed(b)
    for c in [c for c in b.calls if c.is_('re:Sender.*::send$')]:
      oo = deep_origins(b, c.args[1], all_args=True)
      nexts = [o.call for o in oo if o.kind == 'call' and o.call.is_('re:Enumerate as std::iter::Iterator>::next$')]
      ok = False
      msg = f'{len(nexts)} enumerate() sources'
      if len({x.bb for x in nexts}) == 1:
        nx = nexts[0]
        chain = {o.call.name.split('::')[-1] for o in deep_origins(b, nx.args[0], all_args=True) if o.kind == 'call' and o.call.name}
        flat = bool(chain & {'flatten', 'flat_map'})
        # both the transaction and the index into `outpoints` come from that one next()
        idx_calls = [x for x in b.calls if x.is_('re:Index.*>::index$') and 'outpoints' in {o.name for o in origins(b, x.args[0], named_terminal=True)}]
        same = bool(idx_calls) and all(any(o.kind == 'call' and o.call.bb == nx.bb for o in deep_origins(b, x.args[1], all_args=True)) for x in idx_calls)
        ok = flat and same
        msg = f'enumerate over {sorted(chain)}; outpoints[..] indexed by it: {same}'
      ctx.ob('R15.3', b.n, 'the fetched output sent back is tx.output[outpoints[i].vout] with i counting across all result chunks', ok, msg, where(b, c.line))
