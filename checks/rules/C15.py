"""C15 — optional indexes do not change inscription or rune results.

Agreement of the two value computations (node-fetched input values vs locally tracked ones) across configurations is value equality
and is NOT decided.  Decided is the control-dependence clause it needs: no write to an inscription table or a rune table, and no call
of the inscription / rune updaters, is control-dependent on the optional index flags (index_sats, index_addresses,
index_transactions) or on whether sat ranges are present.  Only the sat-derived tables and the optional tables themselves may be."""
import re
from ..core import where
from ..guards import all_guards, expand
from ..intervals import fmt_desc
from ..tables_id import TableId

ASSUMPTIONS = ["only control dependence of the writes on the optional flags is decided; that the fetched-value path and the tracked-value path produce equal numbers is not"]
OPTIONAL = ('index_sats', 'index_addresses', 'index_transactions', 'sat_ranges')
# tables whose very existence is the optional feature, or that are sat-derived by definition (reviewed, one reason each)
OPTIONAL_TABLES = {
    'SCRIPT_PUBKEY_TO_OUTPOINT': 'the address index itself',
    'TRANSACTION_ID_TO_TRANSACTION': 'the transaction index itself',
    'SAT_TO_SEQUENCE_NUMBER': 'sat-derived: needs sat ranges',
    'SAT_TO_SATPOINT': 'sat-derived: needs sat ranges',
    'OUTPOINT_TO_UTXO_ENTRY': 'holds sat ranges / scripts when those indexes are on; its inscription part is covered by C04/C17',
    'STATISTIC_TO_COUNT': 'counters (lost sats, sat ranges) are sat-index statistics; inscription/rune counters are checked by C05/C11',
}
SCOPE = ('ord::index::updater::inscription_updater::', 'ord::index::updater::rune_updater::', 'ord::index::updater::Updater::index_utxo_entries',
         'ord::index::updater::Updater::index_block', 'ord::index::updater::Updater::commit')
IU = 'ord::index::updater::inscription_updater::InscriptionUpdater::index_inscriptions'
RU = 'ord::index::updater::rune_updater::RuneUpdater::index_runes'


def flag_guards(body, bb):
  out = []
  for g in expand(body, all_guards(body, bb)):
    s = fmt_desc(g.atom)
    if s.startswith('discr(Try::branch('):
      continue  # the error exit of a `?`: an error aborts indexing, it does not select a result
    if any(x in s for x in OPTIONAL):
      out.append(f'{s}=={g.pol}')
  return out


def run(ctx):
  F = ctx.facts
  T = TableId(F)
  ctx.rule('R15.1', 'no write to an inscription or rune table in the updaters can be bypassed or enabled by a branch on index_sats / index_addresses / index_transactions / presence of sat ranges '
           '(reviewed exceptions: the optional and sat-derived tables themselves)')
  ctx.rule('R15.2', 'the calls of InscriptionUpdater::index_inscriptions and RuneUpdater::index_runes are gated by index_inscriptions / index_runes (and the first rune height) only')
  n = 0
  for c, kind, tabs in T.writes():
    b = c.body
    if not b.n.startswith(SCOPE):
      continue
    if not tabs or tabs <= set(OPTIONAL_TABLES):
      continue
    n += 1
    ctx.analysed(b)
    fg = flag_guards(b, c.bb)
    ctx.ob('R15.1', b.n, f'{kind} into {"/".join(sorted(tabs))} does not depend on an optional index flag', not fg,
           f'this write happens or not depending on {fg}: the inscription / rune result differs between index configurations', where(b, c.line))
  ctx.floor('R15.1', 'inscription / rune table writes in the updaters', n, 18)
  for callee, flag in ((IU, 'index_inscriptions'), (RU, 'index_runes')):
    sites = F.call_sites(callee)
    ctx.floor('R15.2', f'call sites of {callee.split("::")[-1]}', len(sites), 1)
    for c in sites:
      b = c.body
      ctx.analysed(b)
      fg = flag_guards(b, c.bb)
      own = [fmt_desc(g.atom) for g in expand(b, all_guards(b, c.bb)) if flag in fmt_desc(g.atom)]
      ctx.ob('R15.2', b.n, f'{callee.split("::")[-1]} is called independently of the optional index flags', not fg, f'{fg}', where(b, c.line))
      ctx.ob('R15.2', b.n, f'{callee.split("::")[-1]} is gated by {flag}', bool(own), '', where(b, c.line), nontrivial=False)


# sensitivity pack (thorough tier): each seeded edit must be reported by the named rule instance
MUTANTS = [{'name': 'number-table-gated-on-sat-index', 'file': 'src/index/updater/inscription_updater.rs', 'old': '        self\n          .inscription_number_to_sequence_number\n          .insert(inscription_number, sequence_number)?;', 'new': '        if index.index_sats {\n          self\n            .inscription_number_to_sequence_number\n            .insert(inscription_number, sequence_number)?;\n        }', 'expect': ('R15.1', 'update_inscription_location', 'INSCRIPTION_NUMBER_TO_SEQUENCE_NUMBER')}]


# behaviour-preserving pack (thorough tier)
NEUTRAL = [
  {'name': 'commit: satpoint literal inlined', 'file': 'src/index/updater.rs', 'old': '            let satpoint = SatPoint { outpoint, offset };\n            sequence_number_to_satpoint.insert(sequence_number, &satpoint.store())?;', 'new': '            sequence_number_to_satpoint.insert(sequence_number, &SatPoint { outpoint, offset }.store())?;'},
  {'name': 'inscription number: arms swapped under !cursed', 'file': 'src/index/updater/inscription_updater.rs', 'old': '        let inscription_number = if cursed {\n          let number: i32 = self.cursed_inscription_count.try_into().unwrap();\n          self.cursed_inscription_count += 1;\n          -(number + 1)\n        } else {\n          let number: i32 = self.blessed_inscription_count.try_into().unwrap();\n          self.blessed_inscription_count += 1;\n          number\n        };', 'new': '        let inscription_number = if !cursed {\n          let number: i32 = self.blessed_inscription_count.try_into().unwrap();\n          self.blessed_inscription_count += 1;\n          number\n        } else {\n          let number: i32 = self.cursed_inscription_count.try_into().unwrap();\n          self.cursed_inscription_count += 1;\n          -(number + 1)\n        };'},
]
