"""C24 — accepting an offer only signs the advertised trade: the inventory of guards that dominate the signing and the
broadcast calls in Accept::run (DESIGN §5 C24)."""
from ..core import where
from ..facts import norm, origins, guards_of
from ..guards import all_guards, find_cmp, names_of, call_polarity, unavoidable_after_enabler, expand
from .common import success_return_blocks, result_is_checked, short, reaches_avoiding, deep_origins, origin_fields
from ..effects import error_blocks

RUN = 'ord::subcommand::wallet::offer::accept::Accept::run'
ASSUMPTIONS = ["Bitcoin Core's PSBT processing (walletprocesspsbt / finalizepsbt) is trusted; the guards are decided, not the PSBT semantics"]


def has(*xs):
  return lambda names: all(x in names for x in xs)


def anyof(*xs):
  return lambda names: any(x in names for x in xs)


def _loop(body, nx):
  sw = nx.target
  some_t = none_t = None
  if body.term(sw)['k'] == 'switch':
    for lab, tgt in body.switch_edges(sw):
      if lab == 1:
        some_t = tgt
      elif lab == 0:
        none_t = tgt
  return some_t, none_t


def run(ctx):
  F = ctx.facts
  ctx.rule('R24.1', 'wallet_process_psbt(.., sign=true) is reached only under: at most one wallet input, at least one, no runes in it (when the rune index answers), '
           'inscriptions known, at most one inscription, at least one, it equals --inscription, simulated balance change == --amount, '
           'and for every input: the wallet input is unsigned and every other input is signed')
  ctx.rule('R24.2', 'send_raw_transaction is reached only after: input counts agree, the wallet input got a signature, every other input\'s signature is unchanged')
  ctx.rule('R24.3', 'the wallet input set is built from inputs whose previous_output is in wallet.utxos(); rune and inscription lookups receive that outpoint')

  b = ctx.body('R24.1', RUN)
  if b is None:
    return
  sign = [c for c in b.calls if c.is_('re:RpcApi::wallet_process_psbt$')]
  send = b.calls_to('ord::wallet::Wallet::send_raw_transaction')
  ctx.anchor('R24.1', 'wallet_process_psbt call', len(sign) == 1, b.n)
  ctx.anchor('R24.2', 'send_raw_transaction call', len(send) == 1, b.n)
  if len(sign) != 1 or len(send) != 1:
    return
  sg, sd = sign[0], send[0]
  # sign flag is Some(true)
  so = b.slice_of([sg.args[2]], through_calls=False)
  ctx.ob('R24.1', b.n, 'wallet_process_psbt(sign = Some(true))', ('std::option::Option', 'Some') in so.adts and True in so.consts, so.describe(), where(b, sg.line), nontrivial=False)
  gs = all_guards(b, sg.bb)
  dom = [g for g in gs if b.dominates(g.bb, sg.bb)]

  def one(label, found, rule='R24.1', line=None):
    ctx.ob(rule, b.n, label, len(found) == 1, f'{len(found)} matching guards (expected exactly one)', where(b, line or (found[0].line if found else sg.line)))
    return found[0] if len(found) == 1 else None

  # Some-discriminants of the three lookups
  def discr_guard(rx, live):
    out = []
    for g in guards_of(b, sg.bb):
      sl = g.slice()
      t = g.term
      l = (t['d'].get('m') or t['d'].get('c') or {}).get('l')
      ds = [d for d in b.defs().get(l, []) if d['kind'] == 'assign' and d['rv']['k'] == 'discr']
      if ds and g.live == live:
        os_ = deep_origins(b, {'l': ds[0]['rv']['p']['l'], 'p': ds[0]['rv']['p'].get('p')})
        if b.local_ty(ds[0]['rv']['p']['l']).startswith('std::option::Option') and any(o.kind == 'call' and o.call.is_(rx) for o in os_[:1]):
          out.append(g)
    return out
  nexts = [c for c in b.calls if c.is_('re:btree_map::IntoIter.*Iterator>::next$')]
  one('a wallet input exists (outgoing.into_iter().next() is Some)', [g for g in discr_guard('re:btree_map::IntoIter.*Iterator>::next$', [1])])
  one('inscriptions are known (get_inscriptions_in_output is Some)', discr_guard('re:Wallet::get_inscriptions_in_output$', [1]))
  one('an inscription exists (inscriptions.into_iter().next() is Some)', discr_guard('re:vec::IntoIter.*Iterator>::next$', [1]))
  lens = find_cmp(dom, 'Le', has('len'), lambda n: ('const', 1) in n, True)
  ctx.ob('R24.1', b.n, 'outgoing.len() <= 1', len([g for g in lens if g.slice().has_call('re:BTreeMap.*::len$')]) == 1, f'{len(lens)} length guards', where(b, sg.line))
  ctx.ob('R24.1', b.n, 'inscriptions.len() <= 1', len([g for g in lens if g.slice().has_call('re:Vec.*::len$')]) == 1, f'{len(lens)} length guards', where(b, sg.line))
  eqs = [g for g in dom if g.pol is not None and isinstance(g.atom, tuple) and g.atom[0] == 'cmp' and any(o == 'Eq' and p for o, a, c, p in g.forms())]
  insc = [g for g in eqs if 'inscription' in names_of(g.atom) and any(o.kind == 'param' and o.name == 'self' and 'inscription' in o.fields for o in deep_origins(b, b.term(g.bb)['d'], all_args=True))]
  one('inscription == self.inscription', insc)
  bal = [g for g in eqs if g.slice().has_call('re:Wallet::simulate_transaction$') and g.slice().has_call('re:Amount::to_signed$') and 'amount' in g.slice().fields]
  one('simulate_transaction(..) == self.amount.to_signed()', bal)
  # runes: conditional guard
  rn = [g for g in gs if call_polarity(g, r'BTreeMap.*::is_empty$') is True and g.slice().has_call('re:Wallet::get_runes_balances_in_output$')]
  g = one('runes.is_empty() when the rune index reports balances', rn)
  if g is not None:
    ctx.ob('R24.1', b.n, 'the rune guard cannot be bypassed once balances are reported', unavoidable_after_enabler(b, g, sg.bb), '', where(b, g.line))
  # per-input signature loop
  isn = [g for g in gs if call_polarity(g, r'Option.*::is_none$') is True]
  iss = [g for g in gs if call_polarity(g, r'Option.*::is_some$') is True and not b.reaches(sg.bb, g.bb)]
  ctx.ob('R24.1', b.n, 'signature loop: wallet input must be unsigned (is_none) / others signed (is_some)', len(isn) == 1 and len(iss) == 1, f'{len(isn)} is_none / {len(iss)} is_some guards', where(b, sg.line))
  if len(isn) == 1 and len(iss) == 1:
    gi, go = isn[0], iss[0]
    # common dominating switch: i == index
    sel = [x for x in guards_of(b, gi.bb) if x.bb in {y.bb for y in guards_of(b, go.bb)}]
    ix = None
    for x in all_guards(b, gi.bb):
      if isinstance(x.atom, tuple) and x.atom[0] == 'cmp' and x.atom[1] in ('Eq', 'Ne') and b.dominates(x.bb, gi.bb) and b.dominates(x.bb, go.bb):
        ix = x
    ctx.ob('R24.1', b.n, 'is_none is required exactly when i == index, is_some otherwise', ix is not None and ix.pol is not None and _eq_polarity(b, ix, gi.bb) is True and _eq_polarity(b, ix, go.bb) is False,
           'the signed/unsigned requirement is not selected by i == index', where(b, gi.line))
    if ix is not None:
      nm = names_of(ix.atom)
      ctx.ob('R24.1', b.n, 'index compared is the wallet input position (from outgoing.into_iter().next())', any(o.kind == 'call' and o.call in nexts for o in deep_origins(b, _cmp_operands(b, ix)[1])) or
             any(o.kind == 'call' and o.call in nexts for o in deep_origins(b, _cmp_operands(b, ix)[0])), f'{nm}', where(b, ix.line))
    # loop completes before signing
    lp = [c for c in b.calls if c.is_('re:Enumerate.*Iterator>::next$') and b.dominates(c.bb, gi.bb) and b.strictly_reaches(gi.bb, c.bb)]
    ctx.anchor('R24.1', 'signature loop', len(lp) == 1, b.n)
    if len(lp) == 1:
      some_t, none_t = _loop(b, lp[0])
      ctx.ob('R24.1', b.n, 'signing happens only after the signature loop ran to completion', none_t is not None and b.dominates(none_t, sg.bb) and some_t is not None and not reaches_avoiding(b, some_t, none_t, {lp[0].bb}),
             'signing can start before every input was checked', where(b, lp[0].line))
      ctx.ob('R24.1', b.n, 'every loop iteration passes one of the two signature guards', some_t is not None and not reaches_avoiding(b, some_t, lp[0].bb, {gi.bb, go.bb}), 'an input can skip the signature check', where(b, lp[0].line))
      # signatures come from psbt_signatures(&psbt) of the same psbt that is signed
      ps = b.calls_to('ord::subcommand::wallet::offer::accept::Accept::psbt_signatures')
      ctx.ob('R24.1', b.n, 'signatures checked are psbt_signatures(&psbt) of the PSBT that is signed', len(ps) == 1 and ps[0] in b.slice_of([lp[0].args[0]]).calls and _same_named(b, ps[0].args[0], sg.args[1], 'psbt'), '', where(b, lp[0].line))

  # ---------------- R24.2
  gs2 = expand(b, all_guards(b, sd.bb))
  post = [g for g in gs2 if b.reaches(sg.bb, g.bb)]
  isn2 = [g for g in post if call_polarity(g, r'Option.*::is_some$') is True]
  eq2 = [g for g in post if isinstance(g.atom, tuple) and g.atom[0] == 'cmp' and any(o == 'Eq' and p for o, a, c, p in g.forms()) and g.slice().has_call('re:Accept::tx_signatures$')]
  ctx.ob('R24.2', b.n, 'after signing: wallet input has a signature (new.is_some())', len(isn2) == 1, f'{len(isn2)}', where(b, sd.line))
  ctx.ob('R24.2', b.n, 'after signing: other inputs unchanged (old == new)', len(eq2) == 1, f'{len(eq2)}', where(b, sd.line))
  lens2 = [g for g in post if b.dominates(g.bb, sd.bb) and isinstance(g.atom, tuple) and g.atom[0] == 'cmp' and any(o == 'Eq' and p for o, a, c, p in g.forms()) and 'len' in names_of(g.atom)]
  ctx.ob('R24.2', b.n, 'signed input count == psbt.inputs.len() == unsigned_tx.input.len()', len(lens2) == 2, f'{len(lens2)} length equalities', where(b, sd.line))
  if len(isn2) == 1 and len(eq2) == 1:
    gi, go = isn2[0], eq2[0]
    lp = [c for c in b.calls if c.is_('re:Enumerate.*Iterator>::next$') and b.dominates(c.bb, gi.bb) and b.strictly_reaches(gi.bb, c.bb)]
    ctx.anchor('R24.2', 'post-signing loop', len(lp) == 1, b.n)
    if len(lp) == 1:
      some_t, none_t = _loop(b, lp[0])
      ctx.ob('R24.2', b.n, 'broadcast only after the post-signing loop ran to completion', none_t is not None and b.dominates(none_t, sd.bb) and some_t is not None and not reaches_avoiding(b, some_t, none_t, {lp[0].bb}), '', where(b, lp[0].line))
      ctx.ob('R24.2', b.n, 'every iteration passes new.is_some() or old == new', some_t is not None and not reaches_avoiding(b, some_t, lp[0].bb, {gi.bb, go.bb}), '', where(b, lp[0].line))
      ix = None
      for x in all_guards(b, gi.bb):
        if isinstance(x.atom, tuple) and x.atom[0] == 'cmp' and x.atom[1] in ('Eq', 'Ne') and b.dominates(x.bb, gi.bb) and b.dominates(x.bb, go.bb) and b.reaches(lp[0].bb, x.bb):
          ix = x
      ctx.ob('R24.2', b.n, 'is_some required exactly when i == index, old == new otherwise', ix is not None and _eq_polarity(b, ix, gi.bb) is True and _eq_polarity(b, ix, go.bb) is False, '', where(b, gi.line))
  # transaction broadcast is the signed one
  ao = b.slice_of([sd.args[1]])
  ctx.ob('R24.2', b.n, 'broadcast transaction <- finalize_psbt(wallet_process_psbt(psbt))', sg in ao.calls and ao.has_call('re:RpcApi::finalize_psbt$'), '', where(b, sd.line))

  # ---------------- R24.3
  ins = [c for c in b.calls if c.is_('re:BTreeMap.*::insert$') and 'bitcoin::OutPoint' in (c.f.get('ga') or '')]
  ctx.anchor('R24.3', 'outgoing.insert', len(ins) == 1, b.n)
  for c in ins:
    g = [x for x in guards_of(b, c.bb) if x.slice().has_call('re:BTreeMap.*::contains_key$') and x.slice().has_call('re:Wallet::utxos$') and x.cond_true_live() is True]
    ctx.ob('R24.3', b.n, 'an input is a wallet input iff wallet.utxos().contains_key(&input.previous_output)', len(g) == 1, '', where(b, c.line))
    vo = deep_origins(b, c.args[2])
    ctx.ob('R24.3', b.n, 'outgoing value is that input\'s previous_output', any('previous_output' in o.fields for o in vo), f'{vo}', where(b, c.line))
  for nm in ('get_runes_balances_in_output', 'get_inscriptions_in_output'):
    cs = b.calls_to(f'ord::wallet::Wallet::{nm}')
    ctx.anchor('R24.3', nm, len(cs) == 1, b.n)
    for c in cs:
      ok = any(o.kind == 'call' and o.call in nexts for o in deep_origins(b, c.args[1]))
      ctx.ob('R24.3', b.n, f'{nm}(&outgoing)', ok, 'the lookup is about a different outpoint', where(b, c.line))


def _cmp_operands(body, g):
  """the two operands of the comparison feeding this guard's discriminant"""
  from ..facts import single_def, op_local
  d = body.term(g.bb)['d']
  for _ in range(6):
    l = op_local(d)
    df = single_def(body, l) if l is not None else None
    if df is None:
      break
    if df['kind'] == 'assign' and df['rv']['k'] == 'bin':
      return df['rv']['a'], df['rv']['b']
    if df['kind'] == 'assign' and df['rv']['k'] in ('use', 'un'):
      d = df['rv']['o']
      continue
    if df['kind'] == 'call':
      if len(df['call'].args) == 2:
        return df['call'].args[0], df['call'].args[1]
      if len(df['call'].args) == 1:
        d = df['call'].args[0]
        continue
    break
  return d, d


def _eq_polarity(body, g, target_bb):
  """truth value of `a == b` (normalised) on the edge of guard g that leads to target_bb"""
  from ..facts import _reaches_avoiding
  t = body.term(g.bb)
  atom = g.atom
  op = atom[1]
  for lab, tgt in body.switch_edges(g.bb):
    if tgt == target_bb or _reaches_avoiding(body, tgt, target_bb, g.bb):
      truth = (lab == 'otherwise' or lab == 1)
      other = [t2 for l2, t2 in body.switch_edges(g.bb) if t2 != tgt]
      if other and (_reaches_avoiding(body, other[0], target_bb, g.bb)):
        return None
      return truth if op == 'Eq' else (not truth)
  return None


def _same_named(body, a, b_, name):
  na = body.slice_of([a], through_calls=True).var_names()
  nb = body.slice_of([b_], through_calls=True).var_names()
  return name in na and name in nb


# sensitivity pack (thorough tier)
MUTANTS = [{'name': 'seeded-C24-a', 'patch': 'C24-a/patch.diff', 'expect': ('R24.1', 'Accept::run', 'simulate_transaction')},
           {'name': 'seeded-C24-b', 'patch': 'C24-b/patch.diff', 'expect': ('R24.3', 'Accept::run', '')},
           {'name': 'rune check dropped', 'file': 'src/subcommand/wallet/offer/accept.rs', 'old': '    if let Some(runes) = wallet.get_runes_balances_in_output(&outgoing)? {\n      ensure! {\n        runes.is_empty(),\n        "outgoing input {} contains runes", outgoing,\n      }\n    }\n', 'new': '', 'expect': ('R24.1', 'Accept::run', 'rune')},
           {'name': 'balance check weakened to >=', 'file': 'src/subcommand/wallet/offer/accept.rs', 'old': '      balance_change == self.amount.to_signed()?,', 'new': '      balance_change >= self.amount.to_signed()?,', 'expect': ('R24.1', 'Accept::run', 'simulate_transaction')}]


# behaviour-preserving pack (thorough tier)
NEUTRAL = [{'name': 'inscription comparison commuted', 'file': 'src/subcommand/wallet/offer/accept.rs', 'old': '      inscription == self.inscription,', 'new': '      self.inscription == inscription,'}]
