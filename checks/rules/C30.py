"""C30 — printed sat notations parse back to the same sat.

The round trip itself is value equality through four printers and parsers (one through f64) and is NOT decided.  Decided is the
writer/reader *table agreement* the round trip needs: each printer separates its components with exactly the characters, in exactly
the order, that its parser splits on; the name alphabet and base agree on both sides; and Sat::from_str dispatches on features the
printed forms have, testing '%' before '.' (a printed percentile contains a '.').  Breaking any of these breaks the round trip for
every sat; keeping them does not prove it."""
import re
from ..core import where
from ..facts import describe_operand
from ..intervals import fmt_desc
from ..panics import guard_strings
from .C19 import body_consts
from .common import string_consts

S = 'ordinals::sat::Sat::'
ASSUMPTIONS = ["only separator / alphabet / dispatch agreement between printers and parsers is decided; numeric equality of the round trip (incl. the f64 percentile) is not"]


def template(body):
  ts = [s for s, _ in body_consts(body) if '{origin}' in s]
  return ts[0] if len(ts) == 1 else None


def run(ctx):
  F = ctx.facts
  ctx.rule('R30.1', 'degree: Degree::fmt writes hour°minute′second″third‴ and Sat::from_degree splits on °, ′, ″, ‴ in that order')
  ctx.rule('R30.2', 'decimal: DecimalSat::fmt writes height.offset and Sat::from_decimal splits once on "."; percentile: Sat::percentile appends "%" and Sat::from_percentile requires a trailing "%" and strips exactly one byte')
  ctx.rule('R30.3', 'name: Sat::name draws letters from "abcdefghijklmnopqrstuvwxyz" with (x−1) % 26, (x−1) / 26 and Sat::from_name accepts exactly \'a\'..=\'z\' with x·26 + (c − \'a\') + 1; both start from SUPPLY − n')
  ctx.rule('R30.4', 'dispatch: Sat::from_str tests lowercase letters → name, "°" → degree, "%" → percentile, "." → decimal, else integer — in that dominance order ("%" before ".")')

  ctx.rule('R30.5', 'component widths: Sat::from_decimal and Sat::from_degree parse each numeric component at the integer type of the field that DecimalSat / Degree print it from '
           '(height u32, offset u64; hour, minute, second u32, third u64) — a narrower parse rejects sats the printer emits')
  _r30_5(ctx)
  # ---- R30.1
  df = ctx.body('R30.1', '<ordinals::degree::Degree as std::fmt::Display>::fmt')
  fd = ctx.body('R30.1', S + 'from_degree')
  if df is not None and fd is not None:
    t = template(df)
    seps_w = [p for p in re.split(r'\{origin\}', t or '') if p]
    sp = sorted(fd.calls_to('core::str::<impl str>::split_once'), key=lambda c: c.bb)
    seps_r = []
    for c in sp:
      v = fd.const_of(c.args[1])
      seps_r.append(chr(v) if isinstance(v, int) else None)
    inorder = all(fd.dominates(a.bb, b.bb) for a, b in zip(sp, sp[1:]))
    ctx.ob('R30.1', df.n, 'printer template is {}°{}′{}″{}‴', t == '{origin}°{origin}′{origin}″{origin}‴', f'{t}', where(df, df.line))
    ctx.ob('R30.1', fd.n, 'parser splits on the printer\'s separators in the printer\'s order', seps_r == seps_w and len(seps_w) == 4 and inorder, f'printer {seps_w} parser {seps_r}', where(fd, fd.line))
    # fields written in the order they are parsed: hour, minute, second, third
    args = [c for c in df.calls if c.is_('re:fmt::rt::Argument.*::new_display$')]
    names = [fmt_desc(describe_operand(df, c.args[0])) for c in sorted(args, key=lambda c: c.bb)]
    ctx.ob('R30.1', df.n, 'components are printed as hour, minute, second, third', names == [f'tuple{{self.hour,self.minute,self.second,self.third}}.{i}' for i in range(4)], f'{names}', where(df, df.line))
  # ---- R30.2
  dd = ctx.body('R30.2', '<ordinals::decimal_sat::DecimalSat as std::fmt::Display>::fmt')
  fdec = ctx.body('R30.2', S + 'from_decimal')
  if dd is not None and fdec is not None:
    t = template(dd)
    sp = fdec.calls_to('core::str::<impl str>::split_once')
    ctx.ob('R30.2', dd.n, 'decimal is printed as {height}.{offset} and parsed by one split on "."', t == '{origin}.{origin}' and len(sp) == 1 and fdec.const_of(sp[0].args[1]) == ord('.'), f'{t}', where(dd, dd.line))
    args = [fmt_desc(describe_operand(dd, c.args[0])) for c in sorted([c for c in dd.calls if c.is_('re:fmt::rt::Argument.*::new_display$')], key=lambda c: c.bb)]
    ctx.ob('R30.2', dd.n, 'components are printed as height, offset', args == [f'tuple{{self.height,self.offset}}.{i}' for i in range(2)], f'{args}', where(dd, dd.line))
  pp = ctx.body('R30.2', S + 'percentile')
  fp = ctx.body('R30.2', S + 'from_percentile')
  if pp is not None and fp is not None:
    t = template(pp)
    ew = fp.calls_to('core::str::<impl str>::ends_with')
    strip = [fmt_desc(describe_operand(fp, c.args[1])) for c in fp.calls if c.is_('re:Index for str>::index$')]
    ctx.ob('R30.2', pp.n, 'percentile is printed as {}% and the parser requires a trailing "%" and parses everything before it', t == '{origin}%' and len(ew) == 1 and fp.const_of(ew[0].args[1]) == ord('%')
           and strip == ['RangeTo{Sub(str::len(percentile),1)}'], f'{t} {strip}', where(pp, pp.line))
  # ---- R30.3
  nm = ctx.body('R30.3', S + 'name')
  fn = ctx.body('R30.3', S + 'from_name')
  if nm is not None and fn is not None:
    lits = set()
    for c in nm.calls_to('core::str::<impl str>::chars'):
      lits |= set(string_consts(nm, c.args[0]))
    ctx.ob('R30.3', nm.n, 'printer alphabet is a..z', lits == {'abcdefghijklmnopqrstuvwxyz'}, f'{lits}', where(nm, nm.line))
    consts = sorted(nm.const_of(s['rv']['b']) for blk in nm.blocks for s in blk['s'] if s.get('rv', {}).get('k') == 'bin' and s['rv']['op'] in ('Rem', 'Div') and isinstance(nm.const_of(s['rv']['b']), int))
    ctx.ob('R30.3', nm.n, 'printer uses base 26 for both the digit and the carry', consts == [26, 26], f'{consts}', where(nm, nm.line))
    gs = set()
    for bi, blk in enumerate(fn.blocks):
      for s in blk['s']:
        if s.get('rv', {}).get('k') == 'bin' and s['rv']['op'].startswith('Mul') and fn.const_of(s['rv']['b']) == 26:
          gs |= set(guard_strings(fn, bi))
    rng = any(re.match(r'^Le\(97,.*\)==True$', g) for g in gs) and any(re.match(r'^Le\(.*,122\)==True$', g) for g in gs)
    ctx.ob('R30.3', fn.n, 'parser accepts exactly \'a\'..=\'z\' and multiplies by 26', rng, f'{sorted(gs)[:6]}', where(fn, fn.line))
    sub_w = any(s.get('rv', {}).get('k') == 'bin' and s['rv']['op'].startswith('Sub') and fmt_desc(describe_operand(nm, s['rv']['a'])) == 'SUPPLY' for blk in nm.blocks for s in blk['s'])
    sub_r = any(s.get('rv', {}).get('k') == 'bin' and s['rv']['op'].startswith('Sub') and fmt_desc(describe_operand(fn, s['rv']['a'])) == 'SUPPLY' for blk in fn.blocks for s in blk['s'])
    ctx.ob('R30.3', nm.n, 'both sides count names down from Sat::SUPPLY', sub_w and sub_r, '', where(nm, nm.line))
  # ---- R30.4
  fs = ctx.body('R30.4', '<ordinals::sat::Sat as std::str::FromStr>::from_str')
  if fs is not None:
    order = []
    for nme in ('from_name', 'from_degree', 'from_percentile', 'from_decimal'):
      cs = fs.calls_to(S + nme)
      ctx.ob('R30.4', fs.n, f'{nme} is called once', len(cs) == 1, f'{len(cs)}', where(fs, fs.line), nontrivial=False)
      if cs:
        order.append((nme, cs[0], guard_strings(fs, cs[0].bb)))
    want = {
        'from_name': [r'^Iterator::any\(str::chars\(s\),closure\{\}\)==True$'],
        'from_degree': [r'==False$', r'^str::contains\(s,176\)==True$'],
        'from_percentile': [r'==False$', r'^str::contains\(s,176\)==False$', r'^str::contains\(s,37\)==True$'],
        'from_decimal': [r'==False$', r'^str::contains\(s,176\)==False$', r'^str::contains\(s,37\)==False$', r'^str::contains\(s,46\)==True$'],
    }
    for nme, c, gs in order:
      pats = want[nme]
      ok = len(gs) == len(pats) and all(re.search(p, g) for p, g in zip(pats, gs))
      ctx.ob('R30.4', fs.n, f'{nme} is chosen under exactly its dispatch conditions, in order', ok, f'{gs}', where(fs, c.line))
    # the name test is "any lowercase ASCII letter"
    cl = [F.bodies.get(d) for c in fs.calls_to('std::iter::Iterator::any') for d in fs.slice_of([c.args[1]], through_calls=False).closures]
    ctx.ob('R30.4', fs.n, 'the name dispatch tests for a lowercase ASCII letter', any(cb is not None and cb.calls_to('re:char::methods::<impl char>::is_ascii_lowercase$') for cb in cl), '', where(fs, fs.line))


# sensitivity pack (thorough tier): each seeded edit must be reported by the named rule instance
MUTANTS = [
  {'name': 'seeded-C30-b', 'patch': 'C30-b/patch.diff', 'expect': ('R30.5', 'Sat::from_decimal', 'components parsed')},
{'name': 'degree-separator-changed-in-printer', 'file': 'crates/ordinals/src/degree.rs', 'old': '"{}°{}′{}″{}‴"', 'new': '"{}°{}′{}″{}"', 'expect': ('R30.1', 'Degree', '')},
           {'name': 'percent-tested-after-dot', 'file': 'crates/ordinals/src/sat.rs', 'old': "    } else if s.contains('%') {\n      Self::from_percentile(s)\n    } else if s.contains('.') {\n      Self::from_decimal(s)", 'new': "    } else if s.contains('.') {\n      Self::from_decimal(s)\n    } else if s.contains('%') {\n      Self::from_percentile(s)", 'expect': ('R30.4', 'from_str', 'from_percentile is chosen')}]


def _r30_5(ctx):
  F = ctx.facts

  def scalar(ty):
    a = F.adts.get(ty)
    if a and a.get('kind') == 'struct' and len(a['variants'][0]['fields']) == 1:
      return a['variants'][0]['fields'][0]['ty']
    return ty
  for parser, printed in (('ordinals::sat::Sat::from_decimal', 'ordinals::decimal_sat::DecimalSat'), ('ordinals::sat::Sat::from_degree', 'ordinals::degree::Degree')):
    b = ctx.body('R30.5', parser)
    adt = F.adts.get(printed)
    if b is None or not ctx.anchor('R30.5', printed, adt is not None, parser):
      continue
    want = [scalar(f['ty']) for f in adt['variants'][0]['fields']]
    got = []
    for c in sorted([c for c in b.calls if c.is_('re:str>::parse$')], key=lambda c: (c.line or 0, c.bb)):
      ga = c.f.get('ga') or ''
      got.append(ga.strip('[]'))
    ctx.ob('R30.5', b.n, f'components parsed as {want} (the printed field types, in order)', got == want, f'parsed as {got}', where(b, b.line))
