"""C07 — parent/child provenance cannot be forged: no envelope-declared parent id reaches the children table or an entry's
parents without passing the membership-and-dedup filter; the two views are written in lockstep (DESIGN §5 C07)."""
from ..core import where
from ..facts import norm, origins, guards_of
from ..effects import always_with, paired
from ..tables_id import TableId
from .common import success_return_blocks, result_is_checked, short, reaches_avoiding

II = 'ord::index::updater::inscription_updater::InscriptionUpdater::index_inscriptions'
UIL = 'ord::index::updater::inscription_updater::InscriptionUpdater::update_inscription_location'
ID_TY = 'ord::inscriptions::inscription_id::InscriptionId'

ASSUMPTIONS = ["sequence-number ordering between parent and child over histories and the collections listing are not decided"]


def run(ctx):
  F = ctx.facts
  T = TableId(F)
  ctx.rule('R7.1', 'the purported parents of every new flotsam are filtered by Vec::retain with predicate seen.insert(p) && potential_parents.contains(p); '
           'the filtering loop visits all floating inscriptions and dominates every update_inscription_location call; SEQUENCE_NUMBER_TO_CHILDREN is written only in update_inscription_location')
  ctx.rule('R7.2', 'potential_parents is collected from the inscription ids of floating_inscriptions (spent or revealed by this transaction) and from nothing else')
  ctx.rule('R7.3', 'inside the parent loop of update_inscription_location the children-multimap insert and the pushes onto parent_sequence_numbers / parent_inscription_ids are in lockstep, '
           'all after the id_to_sequence_number.get(parent) guard; children.insert(parent_sequence_number, sequence_number)')
  ctx.rule('R7.4', 'latest-child tables: collection_to_latest_child.insert(p, c) is paired with latest_child_to_collection.insert(c, p) and with remove(old_latest, p) when an old value exists')

  ib = ctx.body('R7.1', II)
  ub = ctx.body('R7.1', UIL)
  writes = T.writes()
  ch = [(c, k) for c, k, t in writes if 'SEQUENCE_NUMBER_TO_CHILDREN' in t]
  ctx.floor('R7.1', 'SEQUENCE_NUMBER_TO_CHILDREN write sites', len(ch), 1)
  for c, k in ch:
    ctx.ob('R7.1', c.body.n, 'SEQUENCE_NUMBER_TO_CHILDREN written only in update_inscription_location', c.body.n == UIL, 'children table written elsewhere (unfiltered path)', where(c.body, c.line))
  if ib is not None:
    rets = [c for c in ib.calls if c.is_('std::vec::Vec::retain') and ID_TY in (c.f.get('ga') or '')]
    ctx.anchor('R7.1', 'Vec<InscriptionId>::retain in index_inscriptions', len(rets) == 1, ib.n)
    uils = ib.calls_to(UIL)
    ctx.floor('R7.1', 'update_inscription_location call sites', len(uils), 2)
    if len(rets) == 1:
      r = rets[0]
      # the predicate closure
      clos = None
      for o in origins(ib, r.args[1]):
        if o.kind == 'agg' and o.agg.get('ak') == 'closure':
          clos = (F.bodies.get(o.agg['def']), o.agg)
      ctx.anchor('R7.1', 'retain predicate closure', clos is not None and clos[0] is not None, ib.n)
      if clos and clos[0] is not None:
        cb, agg = clos
        ctx.analysed(cb)
        ins = cb.calls_to('re:std::collections::HashSet::insert$')
        con = cb.calls_to('re:std::collections::HashSet::contains$')
        ok = len(ins) == 1 and len(con) == 1
        ctx.ob('R7.1', cb.n, 'predicate calls seen.insert and potential_parents.contains', ok, 'membership or dedup test missing from the filter', where(cb, cb.line))
        if ok:
          # every definition of the returned bool is `false` or the result of contains; contains only on the insert-true edge
          good = True
          for d in cb.defs().get(0, []):
            if d['kind'] == 'call' and d['call'] is con[0]:
              continue
            if d['kind'] == 'assign' and d['rv']['k'] == 'use' and cb.const_of(d['rv']['o']) is False:
              continue
            good = False
          gs = [g for g in guards_of(cb, con[0].bb) if ins[0] in g.slice().calls and g.cond_true_live() is True]
          ctx.ob('R7.1', cb.n, 'predicate = seen.insert(p) && potential_parents.contains(p) (returns true only if both)', good and bool(gs), 'the filter can keep a parent that fails a test', where(cb, cb.line))
          # upvars: contains on potential_parents, insert on seen; argument is the element
          up_c = {o.name for o in origins(cb, con[0].args[0]) if o.kind == 'upvar'}
          up_i = {o.name for o in origins(cb, ins[0].args[0]) if o.kind == 'upvar'}
          ctx.ob('R7.1', cb.n, 'contains() on the captured potential_parents, insert() on the captured seen', up_c == {'potential_parents'} and up_i == {'seen'}, f'{up_c} {up_i}', where(cb, cb.line))
          # in the parent: the captured potential_parents is the collected set, `seen` is a fresh HashSet::new() per flotsam
          fo = dict(zip(agg['fields'], agg['ops']))
          so = origins(ib, fo.get('seen')) if fo.get('seen') else []
          ctx.ob('R7.1', ib.n, 'seen is a fresh HashSet::new() for each flotsam', any(o.kind == 'call' and o.call.is_('re:HashSet::new$') and ib.strictly_reaches(o.call.bb, o.call.bb) for o in so), f'{so}', where(ib, r.line))
      # receiver of retain: the parents vector of a New-origin flotsam of the floating list
      ro = ib.slice_of([r.args[0]], through_calls=True)
      ctx.ob('R7.1', ib.n, 'retain is applied to flotsam.origin(New).parents of the floating list', 'parents' in ro.fields and 'floating_inscriptions' in ro.var_names(), ro.describe(), where(ib, r.line))
      # the loop containing retain visits all elements and dominates all UIL calls
      nx = [c for c in ib.calls if c.is_('re:slice::IterMut.*Iterator>::next$') and ib.dominates(c.bb, r.bb) and ib.reaches(r.bb, c.bb)]
      ctx.anchor('R7.1', 'the for-loop around retain', len(nx) == 1, ib.n)
      if len(nx) == 1:
        n = nx[0]
        sw = n.target
        some_t = none_t = None
        for lab, tgt in ib.switch_edges(sw):
          if lab == 1:
            some_t = tgt
          else:
            none_t = tgt
        full = some_t is not None and none_t is not None and not reaches_avoiding(ib, some_t, none_t, {n.bb})
        ctx.ob('R7.1', ib.n, 'the filtering loop has no early exit (visits every floating inscription)', full, 'the filter loop can stop early', where(ib, n.line))
        # each New flotsam is filtered: from the Some edge, if the flotsam is New the retain is unavoidable (guard allowed: the origin discriminant)
        def is_origin_guard(g):
          return 'origin' in g.slice().fields or g.slice().discr_reads > 0
        ctx.ob('R7.1', ib.n, 'every New flotsam passes retain', some_t is not None and always_with(ib, some_t, r.bb, allowed_guard=is_origin_guard, escape_at=[n.bb]), 'a New flotsam can skip the filter', where(ib, r.line))
        for u in uils:
          ctx.ob('R7.1', ib.n, 'update_inscription_location only after the filter loop finished', none_t is not None and ib.dominates(none_t, u.bb), 'parents reach the tables before being filtered', where(ib, u.line))
    # source: Origin::New.parents <- Inscription::parents()
    news = []
    for bi, blk in enumerate(ib.blocks):
      for s in blk['s']:
        rv = s.get('rv')
        if rv and rv['k'] == 'agg' and rv['ak'] == 'adt' and rv.get('variant') == 'New' and 'parents' in rv['fields']:
          news.append((s, rv))
    ctx.anchor('R7.1', 'Origin::New literal in index_inscriptions', len(news) == 1, ib.n)
    for s, rv in news:
      po = origins(ib, rv['ops'][rv['fields'].index('parents')])
      ctx.ob('R7.1', ib.n, 'Origin::New.parents <- Inscription::parents() of the envelope', any(o.kind == 'call' and o.call.is_('ord::inscriptions::inscription::Inscription::parents') for o in po), f'{po}', where(ib, s['l']))

    # ---------------- R7.2
    cols = [c for c in ib.calls if c.is_('re:Iterator::collect$') and 'HashSet<' + ID_TY in (c.f.get('ga') or '')]
    ctx.anchor('R7.2', 'collect::<HashSet<InscriptionId>>()', len(cols) == 1, ib.n)
    for c in cols:
      chain, term = _arg0_chain(ib, c.args[0])
      maps = [x for x in chain if x.is_('re:Iterator::map$')]
      clb = None
      if maps:
        for o in origins(ib, maps[0].args[1]):
          if o.kind == 'agg' and o.agg.get('ak') == 'closure':
            clb = F.bodies.get(o.agg['def'])
      id_only = clb is not None and all(d['kind'] == 'assign' and d['rv']['k'] == 'use' and 'inscription_id' in str(d['rv']['o']) for d in clb.defs().get(0, [])) and bool(clb.defs().get(0))
      names_ = {o.name for o in term if o.name}
      ctx.ob('R7.2', ib.n, 'potential_parents <- floating_inscriptions.iter().map(|f| f.inscription_id)',
             names_ == {'floating_inscriptions'} and id_only and len(maps) == 1 and all(x.is_('re:Iterator::map$', 're:slice.*::iter$', 're:Deref.*::deref$') for x in chain),
             f'chain={[short(x.name) for x in chain]} source={names_}', where(ib, c.line))
      # no other mutation of the set
      dest = c.dest['l']
      named = {l for l in ib.slice_of([{'l': dest}], through_calls=False).locals}
      pp = set(ib.locals_named('potential_parents'))
      muts = [(bi, st.get('l')) for bi, blk in enumerate(ib.blocks) if not blk['cleanup'] for st in blk['s']
              if st.get('rv', {}).get('k') == 'ref' and st['rv'].get('mut') and st['rv']['p']['l'] in pp]
      ctx.ob('R7.2', ib.n, 'potential_parents is never mutated after collection', not muts, f'{muts}', where(ib, c.line))
      # all pushes of flotsam (old and new) precede the collection
      pushes = [x for x in ib.calls if x.is_('std::vec::Vec::push') and 'inscription_updater::Flotsam' in (x.f.get('ga') or '') and not (x.f.get('ga') or '').startswith('[(')]
      ctx.ob('R7.2', ib.n, 'potential_parents is collected after all Old and New flotsam of the transaction were pushed', len(pushes) == 2 and not any(ib.reaches(c.bb, x.bb) for x in pushes), f'{pushes}', where(ib, c.line))

  if ub is not None:
    ws = T.writes([ub])
    chi = [c for c, k, t in ws if 'SEQUENCE_NUMBER_TO_CHILDREN' in t and k == 'insert']
    ctx.anchor('R7.3', 'children insert', len(chi) == 1, ub.n)
    if len(chi) == 1:
      c = chi[0]
      gets = [g for g in ub.calls if g.is_('re:ReadableTable>::get$') and 'INSCRIPTION_ID_TO_SEQUENCE_NUMBER' in T.of_operand(ub, g.args[0])]
      gs = [g for g in guards_of(ub, c.bb) if any(x in g.slice().calls for x in gets) and g.live == [1]]
      ctx.ob('R7.3', ub.n, 'children insert only when id_to_sequence_number.get(parent) is Some', bool(gs), 'a child can be recorded under a parent id that does not exist', where(ub, c.line))
      a1 = ub.slice_of([c.args[1]])
      ctx.ob('R7.3', ub.n, 'children.insert(key <- the looked-up parent sequence number)', any(x in a1.calls for x in gets) and a1.has_call('redb::AccessGuard::value'), a1.describe(), where(ub, c.line))
      a2 = ub.slice_of([c.args[2]], through_calls=False).var_names()
      ctx.ob('R7.3', ub.n, 'children.insert(value <- the new sequence_number)', 'sequence_number' in a2 or any(o.kind == 'param' and 'next_sequence_number' in o.fields for o in origins(ub, c.args[2])), f'{a2}', where(ub, c.line))
      # the parent looked up is the loop element of `parents`
      lk = [g for g in gets if any(g in gg.slice().calls for gg in gs)]
      if lk:
        ko = ub.slice_of([lk[0].args[1]])
        ctx.ob('R7.3', ub.n, 'looked-up id is the element of the (filtered) parents vector', ko.has_call('re:vec::IntoIter.*Iterator>::next$') and 'parents' in ko.fields | ko.var_names(), ko.describe(), where(ub, lk[0].line))
      pushes = [x for x in ub.calls if x.is_('std::vec::Vec::push') and ub.strictly_reaches(x.bb, x.bb)]
      pseq = [x for x in pushes if 'u32' in (x.f.get('ga') or '').split(',')[0]]
      pid = [x for x in pushes if ID_TY in (x.f.get('ga') or '')]
      ctx.anchor('R7.3', 'pushes onto parent_sequence_numbers / parent_inscription_ids', len(pseq) == 1 and len(pid) == 1, ub.n)
      if len(pseq) == 1 and len(pid) == 1:
        for nm, p in (('parent_sequence_numbers', pseq[0]), ('parent_inscription_ids', pid[0])):
          ctx.ob('R7.3', ub.n, f'children insert ⇔ push onto {nm}', always_with(ub, c.bb, p.bb, escape_at=[c.bb]) and ub.dominates(c.bb, p.bb), 'the children view and the parents view can diverge', where(ub, p.line))
        so = ub.slice_of([pseq[0].args[1]])
        ctx.ob('R7.3', ub.n, 'pushed parent sequence number is the looked-up one', any(x in so.calls for x in gets), so.describe(), where(ub, pseq[0].line))
    # ---------------- R7.4
    c2l = [c for c, k, t in ws if 'COLLECTION_SEQUENCE_NUMBER_TO_LATEST_CHILD_SEQUENCE_NUMBER' in t and k == 'insert']
    l2c_i = [c for c, k, t in ws if 'LATEST_CHILD_SEQUENCE_NUMBER_TO_COLLECTION_SEQUENCE_NUMBER' in t and k == 'insert']
    l2c_r = [c for c, k, t in ws if 'LATEST_CHILD_SEQUENCE_NUMBER_TO_COLLECTION_SEQUENCE_NUMBER' in t and k == 'remove']
    ctx.anchor('R7.4', 'latest-child table writes', len(c2l) == 1 and len(l2c_i) == 1 and len(l2c_r) == 1, ub.n)
    if len(c2l) == 1 and len(l2c_i) == 1 and len(l2c_r) == 1:
      a, b_, r = c2l[0], l2c_i[0], l2c_r[0]
      ctx.ob('R7.4', ub.n, 'collection_to_latest_child.insert ⇔ latest_child_to_collection.insert', always_with(ub, a.bb, b_.bb, escape_at=[a.bb]) and ub.dominates(a.bb, b_.bb), 'the two latest-child tables can diverge', where(ub, b_.line))
      loc = lambda op: ub.slice_of([op], through_calls=False).locals
      ctx.ob('R7.4', ub.n, 'insert(p, c) / insert(c, p): arguments are swapped copies', bool(loc(a.args[1]) & loc(b_.args[2])) and bool(loc(a.args[2]) & loc(b_.args[1])), '', where(ub, b_.line))
      # remove guarded by get(...) Some on the collection table and receives that old value
      gets = [g for g in ub.calls if g.is_('re:ReadableTable>::get$') and 'COLLECTION_SEQUENCE_NUMBER_TO_LATEST_CHILD_SEQUENCE_NUMBER' in T.of_operand(ub, g.args[0])]
      gs = [g for g in guards_of(ub, r.bb) if any(x in g.slice().calls for x in gets) and g.live == [1]]
      ro = ub.slice_of([r.args[1]])
      ctx.ob('R7.4', ub.n, 'remove(old_latest, p) exactly when an old latest child exists, with that old value', bool(gs) and any(x in ro.calls for x in gets) and bool(loc(r.args[2]) & loc(a.args[1])), ro.describe(), where(ub, r.line))
      # when an old value exists the remove is unavoidable before the insert
      if gs:
        g = gs[0]
        some_t = [tgt for lab, tgt in ub.switch_edges(g.bb) if lab == 1]
        ctx.ob('R7.4', ub.n, 'old latest child present ⇒ it is removed before the new one is inserted', bool(some_t) and not reaches_avoiding(ub, some_t[0], a.bb, {r.bb}), 'stale latest-child entries accumulate', where(ub, r.line))
      # hidden parents are skipped: guard on parent_hidden polarity false
      hg = [g for g in guards_of(ub, a.bb) if 'hidden' in g.slice().fields and g.cond_true_live() in (True, False)]
      ctx.ob('R7.4', ub.n, 'latest-child update only for visible parents (entry.hidden of the parent)', bool(hg), '', where(ub, a.line))


def _arg0_chain(body, op, depth=0):
  """follow the receiver chain of an iterator pipeline: returns (calls, terminal origins)"""
  chain, term = [], []
  for o in origins(body, op, passthrough=[], named_terminal=True, depth=1):
    if o.kind == 'call' and o.call.args and depth < 10:
      chain.append(o.call)
      c2, t2 = _arg0_chain(body, o.call.args[0], depth + 1)
      chain += c2
      term += t2
    else:
      term.append(o)
  return chain, term


# sensitivity pack (thorough tier): each seeded edit must be reported by the named rule instance
MUTANTS = [{'name': 'seeded-C07-a', 'patch': 'C07-a/patch.diff', 'expect': ('R7.1', 'index_inscriptions', 'seen.insert')},
           {'name': 'seeded-C07-b', 'patch': 'C07-b/patch.diff', 'expect': ('R7.4', 'update_inscription_location', 'remove(old_latest')}]


# behaviour-preserving pack (thorough tier)
NEUTRAL = [
  {'name': 'parent filter: insert result bound first', 'file': 'src/index/updater/inscription_updater.rs', 'old': '          .retain(|parent| seen.insert(*parent) && potential_parents.contains(parent));', 'new': '          .retain(|parent| {\n            let first_time = seen.insert(*parent);\n            first_time && potential_parents.contains(parent)\n          });'},
]
