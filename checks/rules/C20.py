"""C20 — ordinal-aware sends never misdirect or burn inscriptions: who may become an input of the builder's transaction,
which sets are excluded from cardinal selection, and that every constructor call wires the right wallet sets into the
right (same-typed) parameters (DESIGN §5 C20).  The arithmetic clause (R20.5) is evaluated by the interval engine."""
from ..core import where
from ..facts import norm, origins, guards_of
from ..guards import all_guards, call_polarity, find_cmp, names_of
from ..effects import error_blocks
from .common import success_return_blocks, result_is_checked, short, reaches_avoiding, deep_origins, origin_fields

TB = 'ord::wallet::transaction_builder::TransactionBuilder'
NEW = TB + '::new'
ASSUMPTIONS = ["the builder's internal value invariants (its assert!s), fee exactness and postage bounds are value statements and are not decided"]

# constructor parameter -> accepted sources at call sites (accessor call names / parameter names of the caller)
PARAM_SOURCES = {
    'inscriptions': {'calls': ['ord::wallet::Wallet::inscriptions'], 'params': ['wallet_inscriptions']},
    'locked_utxos': {'calls': ['ord::wallet::Wallet::locked_utxos'], 'params': ['locked_utxos']},
    'runic_utxos': {'calls': ['ord::wallet::Wallet::get_runic_outputs'], 'params': ['runic_utxos']},
    'amounts': {'calls': ['ord::wallet::Wallet::utxos'], 'params': ['utxos']},
}
FORBIDDEN = {
    'inscriptions': ['locked_utxos', 'get_runic_outputs', 'utxos'],
    'locked_utxos': ['get_runic_outputs', 'inscriptions', 'runic_utxos'],
    'runic_utxos': ['locked_utxos', 'inscriptions'],
}


def run(ctx):
  F = ctx.facts
  ctx.rule('R20.1', 'TransactionBuilder.inputs is mutated only in select_outgoing (push of self.outgoing.outpoint) and in pad_alignment_output / add_value (the result of select_cardinal_utxo)')
  ctx.rule('R20.2', 'in select_cardinal_utxo every candidate that can become best_match passed the `continue` guard testing runic_utxos.contains, inscribed_utxos.contains (derived from self.inscriptions) and locked_utxos.contains')
  ctx.rule('R20.3', 'at every TransactionBuilder::new call site each same-typed set argument originates from the matching wallet accessor / caller parameter, and new() stores each parameter in the field of the same name')
  ctx.rule('R20.5', 'TransactionBuilder::select_outgoing (which combines the user-supplied satpoint with wallet amounts): every arithmetic / unwrap / index site is discharged by range analysis or a reviewed entry')
  ctx.rule('R20.4', 'select_outgoing returns Err under the additional-inscription test and for an unknown or out-of-range satpoint before the outgoing input is pushed; build_transaction rejects recipient == change and dust targets before select_outgoing')

  _r20_5(ctx)
  # ---------------- R20.1
  n = 0
  for b in F.bodies.values():
    if not b.n.startswith(TB + '::'):
      continue
    ctx.analysed(b)
    for c in b.calls:
      if c.is_('re:std::vec::Vec::(push|insert|extend|append|extend_from_slice|resize|remove|swap_remove|clear|truncate|drain|retain|pop)$') and 'bitcoin::OutPoint' in (c.f.get('ga') or '').split(',')[0]:
        ro = origins(b, c.args[0])
        if any(o.kind == 'param' and o.name == 'self' and o.fields[:1] == ('inputs',) for o in ro):
          n += 1
          fn = b.n.split('::')[-1]
          val = c.args[-1]
          vo = deep_origins(b, val)
          if fn == 'select_outgoing':
            ok = any(o.kind == 'param' and o.fields[:2] == ('outgoing', 'outpoint') for o in vo)
            lab = 'inputs.push(self.outgoing.outpoint)'
          elif fn in ('pad_alignment_output', 'add_value'):
            do = origins(b, val)
            ok = bool(do) and all(o.kind == 'call' and o.call.is_(TB + '::select_cardinal_utxo') for o in do)
            lab = f'inputs.{(c.name or "").split("::")[-1]}(<- select_cardinal_utxo)'
          else:
            ok = False
            lab = f'inputs mutated in {fn}'
          ctx.ob('R20.1', b.n, lab, ok, f'an input is added from {vo}', where(b, c.line))
    # direct assignment to the field
    for bi, blk in enumerate(b.blocks):
      for s in blk['s']:
        p = s.get('p')
        if p and p['l'] == 1 and any(isinstance(e, dict) and e.get('n') == 'inputs' for e in (p.get('p') or [])) and b.n != NEW:
          ctx.ob('R20.1', b.n, 'assignment to self.inputs', False, 'inputs vector replaced', where(b, s.get('l')))
  ctx.floor('R20.1', 'mutation sites of TransactionBuilder.inputs', n, 3)

  # ---------------- R20.2
  sc = ctx.body('R20.2', TB + '::select_cardinal_utxo')
  if sc is not None:
    # every definition of best_match with Some(..) must be guarded
    bm = sc.locals_named('best_match')
    ctx.anchor('R20.2', 'best_match', len(bm) == 1, sc.n)
    somes = []
    for l in bm:
      for d in sc.defs().get(l, []):
        if d['kind'] != 'assign' or d['proj']:
          continue
        rv = d['rv']
        if rv['k'] == 'agg' and rv.get('variant') == 'Some':
          somes.append(d)
        elif rv['k'] == 'use' and any(o.kind == 'agg' and o.agg.get('variant') == 'Some' for o in origins(sc, rv['o'])):
          somes.append(d)
    ctx.floor('R20.2', 'best_match = Some(..) sites', len(somes), 2)
    for i, d in enumerate(somes):
      gs = all_guards(sc, d['bb'])
      for what, rx, src in (('runic_utxos', r'BTreeSet.*::contains$', 'runic_utxos'), ('inscribed_utxos', r'BTreeSet.*::contains$', 'inscribed_utxos'), ('locked_utxos', r'BTreeSet.*::contains$', 'locked_utxos')):
        found = []
        for g in gs:
          if call_polarity(g, rx) is False and sc.dominates(g.bb, d['bb']):
            recv = _contains_receiver(sc, g)
            if src in recv:
              found.append(g)
        ctx.ob('R20.2', sc.n, f'best_match#{i} requires ¬{what}.contains(utxo)', len(found) == 1, f'the candidate is not excluded when it is in {what}', where(sc, d['line']))
      # the candidate is the loop element that was tested
    # inscribed_utxos derives from self.inscriptions keys' outpoints
    il = sc.locals_named('inscribed_utxos')
    ok = False
    for l in il:
      os_ = deep_origins(sc, {'l': l})
      ok = any(o.kind == 'param' and o.name == 'self' and 'inscriptions' in o.fields for o in os_) and any(o.kind == 'call' and o.call.is_('re:BTreeMap.*::keys$') for o in os_)
    ctx.ob('R20.2', sc.n, 'inscribed_utxos <- self.inscriptions.keys().map(outpoint)', ok, '', where(sc, sc.line))
    # returned utxo is best_match
    r0 = sc.slice_of([{'l': 0}], through_calls=True)
    ctx.ob('R20.2', sc.n, 'returned outpoint <- best_match', 'best_match' in r0.var_names(), '', where(sc, sc.line))
    # the selected utxo is removed from self.utxos (never selected twice)
    rm = [c for c in sc.calls if c.is_('re:BTreeSet.*::remove$') and any(o.kind == 'param' and 'utxos' in o.fields for o in origins(sc, c.args[0]))]
    ctx.ob('R20.2', sc.n, 'selected utxo is removed from self.utxos', len(rm) == 1 and all(sc.dominates(rm[0].bb, rb) for rb in success_return_blocks(sc)), 'a cardinal utxo can be selected twice', where(sc, sc.line))

  # ---------------- R20.3
  nb = ctx.body('R20.3', NEW)
  pidx = {}
  if nb is not None:
    for i in range(1, nb.argc + 1):
      pidx[nb.local_name(i)] = i
    aggs = [s for blk in nb.blocks for s in blk['s'] if s.get('rv', {}).get('k') == 'agg' and norm(s['rv'].get('adt') or '') == TB]
    ctx.anchor('R20.3', 'TransactionBuilder literal in new()', len(aggs) == 1, nb.n)
    for s in aggs:
      fo = dict(zip(s['rv']['fields'], s['rv']['ops']))
      for f in ('inscriptions', 'locked_utxos', 'runic_utxos', 'amounts', 'outgoing', 'recipient', 'fee_rate', 'target', 'network'):
        os_ = origins(nb, fo[f])
        ctx.ob('R20.3', nb.n, f'field {f} <- parameter {f}', [o.name for o in os_ if o.kind == 'param'] == [f] and all(o.kind == 'param' for o in os_), f'{os_}', where(nb, s['l']))
      uo = deep_origins(nb, fo['utxos'])
      ctx.ob('R20.3', nb.n, 'field utxos <- amounts.keys()', any(o.kind == 'param' and o.name == 'amounts' for o in uo), f'{uo}', where(nb, s['l']))
      ctx.ob('R20.3', nb.n, 'field inputs starts empty', any(o.kind == 'call' and o.call.is_('re:Vec.*::new$') for o in origins(nb, fo['inputs'])), '', where(nb, s['l']))
  sites = F.call_sites(NEW)
  ctx.sites(len(sites))
  ctx.floor('R20.3', 'TransactionBuilder::new call sites', len(sites), 3)
  for c in sites:
    b = c.body
    ctx.analysed(b)
    for pname, acc in PARAM_SOURCES.items():
      if pname not in pidx:
        continue
      a = c.args[pidx[pname] - 1]
      os_ = deep_origins(b, a, all_args=False, named_terminal=False)
      callnames = {o.call.name for o in os_ if o.kind == 'call'}
      pnames = {o.name for o in os_ if o.kind == 'param'} | {o.name for o in deep_origins(b, a, named_terminal=True) if o.kind in ('var', 'param') and o.name}
      good = bool(callnames & set(acc['calls'])) or bool(pnames & set(acc['params']))
      bad = [x for x in FORBIDDEN.get(pname, []) if any((cn or '').endswith('::' + x) for cn in callnames) or x in pnames]
      ctx.ob('R20.3', b.n, f'new({pname} <- {"/".join(short(x) for x in acc["calls"])} | {"/".join(acc["params"])})', good and not bad,
             f'argument `{pname}` originates from calls {sorted(short(x) for x in callnames if x and x.startswith("ord::"))} / names {sorted(pnames)}', where(b, c.line))

  # ---------------- R20.4
  so = ctx.body('R20.4', TB + '::select_outgoing')
  if so is not None:
    pushes = [c for c in so.calls if c.is_('std::vec::Vec::push') and 'bitcoin::OutPoint' in (c.f.get('ga') or '')]
    ctx.anchor('R20.4', 'inputs.push in select_outgoing', len(pushes) == 1, so.n)
    for p in pushes:
      gs = all_guards(so, p.bb)
      dom = [g for g in gs if so.dominates(g.bb, p.bb)]
      # additional inscription: three-term conjunction leading to Err — every Err(UtxoContainsAdditionalInscriptions) block is unreachable-from push; the loop completes first
      errs = [s for blk in so.blocks for s in blk['s'] if s.get('rv', {}).get('k') == 'agg' and s['rv'].get('variant') == 'UtxoContainsAdditionalInscriptions']
      ctx.ob('R20.4', so.n, 'Err(UtxoContainsAdditionalInscriptions) is constructed', len(errs) == 1, '', where(so, so.line), nontrivial=False)
      lp = [c for c in so.calls if c.is_('re:Rev.*Iterator>::next$')]
      ctx.anchor('R20.4', 'loop over self.inscriptions.iter().rev()', len(lp) == 1, so.n)
      for l in lp:
        sw = l.target
        none_t = [tgt for lab, tgt in so.switch_edges(sw) if lab == 0]
        some_t = [tgt for lab, tgt in so.switch_edges(sw) if lab == 1]
        ctx.ob('R20.4', so.n, 'the outgoing input is pushed only after every wallet inscription was compared', bool(none_t) and so.dominates(none_t[0], p.bb) and bool(some_t) and not reaches_avoiding(so, some_t[0], none_t[0], {l.bb}),
               'the nearby-inscription check can be skipped', where(so, l.line))
        src = deep_origins(so, l.args[0])
        ctx.ob('R20.4', so.n, 'the loop ranges over self.inscriptions', any(o.kind == 'param' and 'inscriptions' in o.fields for o in src), '', where(so, l.line))
      # conjunction terms inside the loop
      errb = [bi for bi, blk in enumerate(so.blocks) for st in blk['s'] if st.get('rv', {}).get('k') == 'agg' and st['rv'].get('variant') == 'UtxoContainsAdditionalInscriptions']
      chain = all_guards(so, errb[0]) if errb else []
      chain = [g for g in chain if so.dominates(g.bb, errb[0]) and lp and so.strictly_reaches(lp[0].bb, g.bb)]
      atoms = [(g.atom, g.pol) for g in chain if g.pol is not None]
      def present(op, names, rhs=frozenset()):
        for g in chain:
          for o, a, b_, pol in g.forms():
            if o == op and pol is True and names <= names_of(a) and rhs <= names_of(b_):
              return True
        return False
      ctx.ob('R20.4', so.n, 'additional-inscription error is raised under: same outpoint ∧ different offset ∧ outgoing.offset < inscribed.offset + dust_limit',
             present('Eq', {'outpoint'}, {'outpoint'}) and present('Ne', {'offset'}, {'offset'}) and present('Lt', {'outgoing', 'offset'}, {'offset', 'minimal_non_dust'}) and len([1 for a, p_ in atoms if isinstance(a, tuple) and a[0] == 'cmp']) == 3, f'{atoms}', where(so, so.line))
      nw = [g for g in dom if g.slice().has_call('re:BTreeMap.*::get$') and 'amounts' in g.slice().fields]
      ctx.ob('R20.4', so.n, 'push requires the outgoing outpoint to be in self.amounts (NotInWallet)', len(nw) >= 1, '', where(so, p.line))
      rng = find_cmp(dom, 'Ge', lambda n: 'offset' in n, lambda n: True, False) or find_cmp(dom, 'Lt', lambda n: 'offset' in n, lambda n: True, True)
      ctx.ob('R20.4', so.n, 'push requires outgoing.offset < amount (OutOfRange)', len(rng) == 1, f'{[(g.atom, g.pol) for g in dom if g.pol is not None]}', where(so, p.line))
  bt = ctx.body('R20.4', TB + '::build_transaction')
  if bt is not None:
    calls = bt.calls_to(TB + '::select_outgoing')
    ctx.anchor('R20.4', 'select_outgoing call', len(calls) == 1, bt.n)
    for c in calls:
      gs = all_guards(bt, c.bb)
      dup = [g for g in gs if call_polarity(g, r'BTreeSet.*::contains$') is False or call_polarity(g, r'::contains$') is False]
      ctx.ob('R20.4', bt.n, 'recipient must not be a change address', len(dup) == 1, f'{[(g.atom, g.pol) for g in gs if g.pol is not None]}', where(bt, c.line))
      dust = find_cmp(gs, 'Lt', lambda n: True, lambda n: 'minimal_non_dust' in n, False)
      ctx.ob('R20.4', bt.n, 'target value must not be below the recipient dust limit', len(dust) == 1, f'{[(g.atom, g.pol) for g in gs if g.pol is not None]}', where(bt, c.line))
      two = find_cmp(gs, 'Lt', lambda n: 'len' in n, lambda n: ('const', 2) in n, False)
      ctx.ob('R20.4', bt.n, 'two distinct change addresses required', len(two) == 1, '', where(bt, c.line))


def _contains_receiver(body, g):
  """names on the receiver of the contains() call tested by this guard"""
  out = set()
  for c in g.slice().calls:
    if c.is_('re:BTreeSet.*::contains$'):
      for o in deep_origins(body, c.args[0], named_terminal=True):
        if o.name:
          out.add(o.name)
        out |= set(o.fields)
  return out


def _vars(body, g):
  return g.slice().var_names() | {str(f) for f in g.slice().fields}


def _r20_5(ctx):
  from ..panics import run_inventory
  from ..tables.sites_C20 import TABLE
  run_inventory(ctx, 'R20.5', ['ord::wallet::transaction_builder::TransactionBuilder::select_outgoing'], TABLE, partition=(16 if ctx.tier == 'thorough' else 1), floor_fns=1, floor_sites=2, label='select_outgoing')


# sensitivity pack (thorough tier): each seeded edit must be reported by the named rule instance
MUTANTS = [{'name': 'seeded-C20-a', 'patch': 'C20-a/patch.diff', 'expect': ('R20.4', 'select_outgoing', '')},
           {'name': 'seeded-C20-b', 'patch': 'C20-b/patch.diff', 'expect': ('R20.2', 'select_cardinal_utxo', '')},
           {'name': 'amount-minus-one-again', 'file': 'src/wallet/transaction_builder.rs', 'old': 'amount.saturating_sub(1)', 'new': 'amount - 1', 'expect': ('R20.5', 'select_outgoing', 'arith:Sub(')}]


# behaviour-preserving pack (thorough tier)
NEUTRAL = [
  {'name': 'cardinal exclusion terms reordered', 'file': 'src/wallet/transaction_builder.rs', 'old': '      if self.runic_utxos.contains(utxo)\n        || inscribed_utxos.contains(utxo)\n        || self.locked_utxos.contains(utxo)\n      {', 'new': '      if self.locked_utxos.contains(utxo)\n        || self.runic_utxos.contains(utxo)\n        || inscribed_utxos.contains(utxo)\n      {'},
]
