"""C26 — varints round-trip and decoding is exact (DESIGN §5 C26).

Decides (structural + range clauses, not the round-trip as a value statement):
 R26.1 decode: no panic / wrap site; with trace partitioning and known bits, `value << 7*i` never shifts a set bit out on any path that
       continues ("never a truncated value"); each error is returned under exactly its condition and Ok only under a clear continuation bit.
 R26.2 encode: no panic site; every byte pushed inside the loop has the continuation bit set, the final byte is < 128 and is the whole
       remaining value; the loop variable strictly decreases."""
from ..core import where
from ..intervals import Engine, is_int
from ..panics import run_inventory, guard_strings

V = 'ordinals::varint::'
ASSUMPTIONS = ["decode∘encode = id is a value statement and is not decided; the no-truncation, bound and error-condition facts it needs are"]


def err_blocks(body, variant):
  return [bi for bi, blk in enumerate(body.blocks) for s in blk['s'] if s.get('rv', {}).get('k') == 'agg' and s['rv'].get('variant') == variant and bi in body.reachable_from(0)]


def run(ctx):
  F = ctx.facts
  ctx.rule('R26.1', 'varint::decode: site inventory incl. "no set bit is shifted out of value << 7*i" (trace partitioning, known-zero bits); '
           'Overlong ⇔ i > 18, Overflow ⇔ i == 18 ∧ value & 0b0111_1100 ≠ 0, Unterminated ⇔ the bytes are exhausted, Ok ⇔ byte & 0x80 == 0')
  ctx.rule('R26.2', 'varint::encode_to_vec: site inventory; bytes pushed in the loop are ≥ 128, the final byte is the remaining value and < 128; n is replaced by n >> 7 under the guard n >> 7 > 0')
  out, pred = run_inventory(ctx, 'R26.1', [V + 'decode'], {}, partition=16, skip_kinds=(), floor_fns=1, floor_sites=4, label='varint::decode')
  d = ctx.body('R26.1', V + 'decode')
  if d is not None:
    has_lossy = any(o['instance'].startswith('shl-lossy:') for o in ctx.obligations if o['rule'] == 'R26.1')
    ctx.ob('R26.1', d.n, 'the accumulation shift is present and was examined for lost bits', has_lossy, 'no Shl site found in decode', where(d, d.line), nontrivial=False)
    want = {
        'Overlong': [r'^Gt\(.*Iterator::next\(.*\)\.v:Some\.0\.0,18\)==True$'],
        'Overflow': [r'^Eq\(.*\.v:Some\.0\.0,18\)==True$', r'^Ne\(BitAnd\(BitAnd\(num::from\(.*\),127\),124\),0\)==True$', r'Gt\(.*,18\)==False'],
    }
    for variant, pats in want.items():
      bs = err_blocks(d, variant)
      ctx.ob('R26.1', d.n, f'exactly one Err({variant}) site', len(bs) == 1, f'{len(bs)}', where(d, d.line), nontrivial=False)
      for bi in bs:
        gs = guard_strings(d, bi, forms=True)   # every equivalent spelling of each comparison
        missing = [p for p in pats if not any(__import__('re').search(p, g) for g in gs)]
        cmpg = [g for g in guard_strings(d, bi) if not g.startswith('discr(')]
        ctx.ob('R26.1', d.n, f'Err({variant}) is returned exactly under its condition', not missing and len(cmpg) == len(pats), f'guards {gs}; missing {missing}', where(d, d.line))
    ub = err_blocks(d, 'Unterminated')
    ctx.ob('R26.1', d.n, 'exactly one Err(Unterminated) site', len(ub) == 1, f'{len(ub)}', where(d, d.line), nontrivial=False)
    for bi in ub:
      gs = guard_strings(d, bi)
      ctx.ob('R26.1', d.n, 'Err(Unterminated) is returned only when the iterator is exhausted', len(gs) == 1 and gs[0].startswith('discr(Iterator::next(') and gs[0].endswith("in ['0']"), f'{gs}', where(d, d.line))
    okb = [bi for bi, blk in enumerate(d.blocks) for s in blk['s'] if s.get('rv', {}).get('k') == 'agg' and s['rv'].get('variant') == 'Ok' and bi in d.reachable_from(0)]
    ctx.ob('R26.1', d.n, 'exactly one Ok site', len(okb) == 1, f'{len(okb)}', where(d, d.line), nontrivial=False)
    for bi in okb:
      gs = guard_strings(d, bi)
      import re
      okf = any(re.search(r'^Eq\(BitAnd\(.*\.v:Some\.0\.1,128\),0\)==True$', g) for g in gs)
      ctx.ob('R26.1', d.n, 'Ok is returned only when the continuation bit of the current byte is clear', okf, f'{gs}', where(d, d.line))
      # the returned length is i + 1 and the value is n
      from ..facts import describe_operand
      from ..intervals import fmt_desc
      agg = [s for s in d.blocks[bi]['s'] if s.get('rv', {}).get('k') == 'agg' and s['rv'].get('variant') == 'Ok'][0]
      desc = fmt_desc(describe_operand(d, agg['rv']['ops'][0]))
      ctx.ob('R26.1', d.n, 'Ok carries (n, i + 1)', bool(re.match(r'^tuple\{n,Add\(.*\.v:Some\.0\.0,1\)\}$', desc)), desc, where(d, agg['l']))

  out2, _ = run_inventory(ctx, 'R26.2', [V + 'encode_to_vec', V + 'encode'], {}, partition=1, floor_fns=2, floor_sites=3, label='varint::encode')
  e = ctx.body('R26.2', V + 'encode_to_vec')
  if e is not None:
    an = Engine(F).analyse(e)
    pushes = [c for c in e.calls if c.is_('std::vec::Vec::push')]
    ctx.ob('R26.2', e.n, 'two push sites (loop body, final byte)', len(pushes) == 2, f'{len(pushes)}', where(e, e.line), nontrivial=False)
    dom = e.dominators()
    heads = getattr(an, 'loop_heads', set())
    for c in pushes:
      v = (an.call_vals.get(c.bb) or [None, None])[1]
      in_loop = any(e.strictly_reaches(c.bb, h) and e.reaches(h, c.bb) for h in heads)
      if in_loop:
        ctx.ob('R26.2', e.n, 'byte pushed inside the loop has the continuation bit set (value in [128, 255])', is_int(v) and v[1] >= 128 and v[2] <= 255, f'{v}', where(e, c.line))
      else:
        ctx.ob('R26.2', e.n, 'final byte is < 128 (n >> 7 == 0 at loop exit, low byte of n)', is_int(v) and v[1] >= 0 and v[2] <= 127, f'{v}', where(e, c.line))
    # n is only ever replaced by n >> 7
    asg = [s for blk in e.blocks for s in blk['s'] if s.get('p', {}).get('l') == 1 and not s['p'].get('p')]
    okf = len(asg) == 1 and asg[0]['rv']['k'] == 'bin' and asg[0]['rv']['op'] == 'Shr' and asg[0]['rv']['a'].get('c', {}).get('l') == 1 and e.const_of(asg[0]['rv']['b']) == 7
    ctx.ob('R26.2', e.n, 'the only assignment to n is n = n >> 7 (strictly decreasing under the guard n >> 7 > 0)', okf, f'{len(asg)} assignments', where(e, e.line))
    lg = [g for c in pushes for g in guard_strings(e, c.bb)]
    ctx.ob('R26.2', e.n, 'loop guard is n >> 7 > 0', 'Gt(Shr(n,7),0)==True' in lg and 'Gt(Shr(n,7),0)==False' in lg, f'{lg}', where(e, e.line))


# sensitivity pack (thorough tier): each seeded edit must be reported by the named rule instance
MUTANTS = [
  {'name': 'seeded-C26-a', 'patch': 'C26-a/patch.diff', 'expect': ('R26.1', 'varint::decode', '')},
  {'name': 'seeded-C26-b', 'patch': 'C26-b/patch.diff', 'expect': ('R26.1', 'varint::decode', '')},
{'name': 'overflow-mask-widened', 'file': 'crates/ordinals/src/varint.rs', 'old': 'value & 0b0111_1100 != 0', 'new': 'value & 0b0111_1000 != 0', 'expect': ('R26.1', 'varint::decode', 'shl-lossy')},
           {'name': 'continuation-bit-dropped', 'file': 'crates/ordinals/src/varint.rs', 'old': 'v.push(n.to_le_bytes()[0] | 0b1000_0000);', 'new': 'v.push(n.to_le_bytes()[0] | 0b0100_0000);', 'expect': ('R26.2', 'encode_to_vec', 'continuation bit')}]


# behaviour-preserving edits (thorough tier): the rules must stay silent on every one of them
NEUTRAL = [{'name': 'decode: overlong test flipped', 'file': 'crates/ordinals/src/varint.rs', 'old': '    if i > 18 {', 'new': '    if 18 < i {'}]
