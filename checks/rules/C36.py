"""C36 — settings follow flag > environment > config file > default precedence (DESIGN §5 C36).

Decides the full structural clause: R36.1 Settings::or combines every field of Settings field-wise with the receiver first;
R36.2 Settings::merge chains options.or(env).or(config).or_defaults(), the config file being located through the merged options+env
value; R36.3 from_options / from_env / or_defaults read each field from the source of the same name (env key = upper-case field name,
getter type = field type); R36.4 clap does not merge the environment below the flags on its own (no Arg::env).
Trusted: Option::or, ||, clap, serde_yaml."""
import re
from ..core import where
from .. import hirq as H

S = 'ord::settings::Settings'
ASSUMPTIONS = ["Option::or keeps the receiver when it is Some; `a || b` is true if either is; clap fills Options from the command line only; serde_yaml::from_reader fills Settings from the config file only"]

# from_options: fields that do not come from the option of the same name (reviewed; one reason each)
FROM_OPTIONS_EXCEPT = {
    'chain': 'built from the four network switches, then --chain (chain_argument), in that order',
    'hidden': 'no command-line flag; None',
    'http_port': 'no global flag (the server subcommand has its own); None',
    'server_url': 'no global flag; None',
}
GETTER_FOR_TYPE = {
    'bool': 'get_bool', 'std::option::Option<std::string::String>': 'get_string', 'std::option::Option<std::path::PathBuf>': 'get_path',
    'std::option::Option<u16>': 'get_u16', 'std::option::Option<u32>': 'get_u32', 'std::option::Option<usize>': 'get_usize',
    'std::option::Option<ord::chain::Chain>': 'get_chain',
    'std::option::Option<std::collections::HashSet<ord::inscriptions::inscription_id::InscriptionId>>': 'inscriptions',
}
# or_defaults: which inputs a field's final value may depend on (self.<field> always allowed)
DEFAULT_DEPS = {
    'bitcoin_data_dir': {'bitcoin_data_dir'}, 'cookie_file': {'cookie_file', 'chain', 'bitcoin_data_dir'}, 'data_dir': {'data_dir', 'chain'},
    'index': {'index', 'data_dir', 'chain'}, 'bitcoin_rpc_url': {'bitcoin_rpc_url', 'chain'}, 'chain': {'chain'}, 'config': set(), 'config_dir': set(),
}


def run(ctx):
  F = ctx.facts
  ctx.rule('R36.1', 'Settings::or: every field f of Settings appears in the result; Option fields are self.f.or(source.f) (receiver self), bool fields self.f || source.f, hidden is the union of self.hidden and source.hidden; no field mentions another field')
  ctx.rule('R36.2', 'Settings::merge: from_options(options).or(from_env(env)?) is computed first, the config file is located through that value (config, else config_dir / data_dir, else the default data dir), then .or(config).or_defaults()')
  ctx.rule('R36.3', 'from_options: field f <- options.f (reviewed exceptions chain, hidden, http_port, server_url); from_env: field f <- getter(UPPERCASE(f)) with the getter matching the field type; or_defaults: field f depends only on self.f and its documented inputs')
  ctx.rule('R36.4', 'no clap Arg::env and no clap default value on any global option (clap would merge the environment below the flags by itself; a clap default would sit in the flag layer and shadow the environment and the config file)')
  adt = F.adts.get(S)
  if not ctx.anchor('R36.1', 'struct Settings', adt is not None):
    return
  fields = [(f['n'], f['ty']) for f in adt['variants'][0]['fields']]
  ctx.floor('R36.1', 'fields of Settings', len(fields), 27)
  fty = dict(fields)

  def body(rule, name):
    h = F.hir_of(name)
    ctx.anchor(rule, name + ' (HIR)', h is not None, name)
    b = F.body(name)
    if b is not None:
      ctx.analysed(b)
    return h

  # ---------------- R36.1
  h = body('R36.1', S + '::or')
  if h is not None:
    ps = [p.get('n') for p in h['params']]
    lits = H.struct_literals(h, 'Settings')
    if ctx.anchor('R36.1', 'Settings literal in or()', len(lits) == 1 and len(ps) == 2, S + '::or'):
      me, other = ps
      fs = H.fields_of(lits[0])
      for f, ty in fields:
        e = fs.get(f)
        if not ctx.ob('R36.1', S + '::or', f'field {f} is set', e is not None, 'field missing from the literal (..default?)', f"{h['file']}:{h['line']}", nontrivial=False):
          continue
        m = H.mentions(e)
        only_own = m <= {(me, f), (other, f)} and (me, f) in m and (other, f) in m
        if f == 'hidden':
          chain, _ = H.method_chain(e['args'][0]) if e.get('k') == 'Call' and e.get('args') else ([], None)
          ok = only_own and 'chain' in chain and 'collect' in chain
          what = 'union of self.hidden and source.hidden'
        elif ty == 'bool':
          ok = only_own and e.get('k') == 'Binary' and e.get('op') == 'Or'
          what = f'self.{f} || source.{f}'
        else:
          ok = (only_own and e.get('k') == 'MethodCall' and e.get('m') == 'or' and (e.get('def') or '').startswith('std::option::Option') and H.field_access(e.get('recv')) == (me, f)
                and len(e.get('args') or []) == 1 and H.field_access(e['args'][0]) == (other, f))
          what = f'self.{f}.or(source.{f})'
        ctx.ob('R36.1', S + '::or', f'{f} = {what}', ok, f'expression mentions {sorted(map(str, m))} (kind {e.get("k")}/{e.get("m") or e.get("op")})', f"{h['file']}:{e.get('l', h['line'])}")
      extra = set(fs) - set(fty)
      ctx.ob('R36.1', S + '::or', 'no unknown field', not extra, f'{extra}', f"{h['file']}:{h['line']}", nontrivial=False)

  # ---------------- R36.2
  h = body('R36.2', S + '::merge')
  if h is not None:
    ls = {}
    order = []
    for n in H.walk(h['body']):
      if n.get('k') == 'LetStmt' and isinstance(n.get('pat'), dict) and n['pat'].get('k') == 'Bind' and n.get('init') is not None:
        order.append((n['pat']['n'], n['init']))
    settings_lets = [e for n, e in order if n == 'settings']
    ok1 = False
    if settings_lets:
      e = settings_lets[0]
      if e.get('k') == 'MethodCall' and e.get('def') == S + '::or':
        r = e.get('recv')
        a = H.unwrap_try(e['args'][0]) if e.get('args') else None
        ok1 = (isinstance(r, dict) and r.get('k') == 'Call' and (r['f'].get('res') or {}).get('def') == S + '::from_options' and H.local_of(r['args'][0]) == 'options'
               and isinstance(a, dict) and a.get('k') == 'Call' and (a['f'].get('res') or {}).get('def') == S + '::from_env' and H.local_of(a['args'][0]) == 'env')
    ctx.ob('R36.2', S + '::merge', 'settings = from_options(options).or(from_env(env)?)', ok1, 'flags must be the receiver and the environment the argument', f"{h['file']}:{h['line']}")
    ok2 = False
    if len(settings_lets) >= 2:
      e = H.unwrap_try(settings_lets[1])
      if e.get('k') == 'MethodCall' and e.get('def') == S + '::or_defaults':
        r = e.get('recv')
        ok2 = (isinstance(r, dict) and r.get('k') == 'MethodCall' and r.get('def') == S + '::or' and H.local_of(r.get('recv')) == 'settings' and len(r.get('args') or []) == 1 and H.local_of(r['args'][0]) == 'config')
    ctx.ob('R36.2', S + '::merge', 'settings = settings.or(config).or_defaults()?', ok2, 'the config file must be the argument of the second or(), defaults last', f"{h['file']}:{h['line']}")
    d = dict(order)
    cp = d.get('config_path')
    okc = cp is not None and {('settings', 'config'), ('settings', 'config_dir'), ('settings', 'data_dir')} <= H.mentions(cp) and any((n.get('res') or {}).get('def') == S + '::default_data_dir' for n in H.walk(cp) if n.get('k') == 'Path')
    ctx.ob('R36.2', S + '::merge', 'the config file is located through settings.config, else config_dir / data_dir, else the default data dir', okc, '', f"{h['file']}:{h['line']}")
    cf = d.get('config')
    okf = cf is not None and ('config_path', None) in H.mentions(cf) and any((n.get('res') or {}).get('def', '').startswith('serde_yaml::from_reader') for n in H.walk(cf) if n.get('k') == 'Path') \
        and any((n.get('res') or {}).get('def', '').endswith('Default::default') or (n.get('res') or {}).get('def', '').endswith('::default') for n in H.walk(cf) if n.get('k') == 'Path')
    ctx.ob('R36.2', S + '::merge', 'config = the parsed file at config_path, or Settings::default()', okf, '', f"{h['file']}:{h['line']}")
    names = [n for n, _ in order]
    ctx.ob('R36.2', S + '::merge', 'order: settings (flags+env), config_path, config, settings (final)', [n for n in names if n in ('settings', 'config_path', 'config')] == ['settings', 'config_path', 'config', 'settings'], f'{names}', f"{h['file']}:{h['line']}")
    ret_ok = any(n.get('k') == 'Call' and (n['f'].get('res') or {}).get('def', '').endswith('Ok') and n.get('args') and H.local_of(n['args'][0]) == 'settings' for n in H.walk(h['body']))
    ctx.ob('R36.2', S + '::merge', 'the merged value is what is returned', ret_ok, '', f"{h['file']}:{h['line']}", nontrivial=False)
  lh = body('R36.2', S + '::load')
  if lh is not None:
    strip = [s for s in H.lit_strings(lh['body']) if s == 'ORD_']
    calls_merge = any((n.get('res') or {}).get('def') == S + '::merge' for n in H.walk(lh['body']) if n.get('k') == 'Path')
    ctx.ob('R36.2', S + '::load', 'the environment map holds the ORD_-prefixed variables with the prefix stripped and is handed to merge', bool(strip) and calls_merge, '', f"{lh['file']}:{lh['line']}")

  # ---------------- R36.3
  h = body('R36.3', S + '::from_options')
  if h is not None:
    lits = H.struct_literals(h, 'Settings')
    if ctx.anchor('R36.3', 'Settings literal in from_options', len(lits) == 1, S + '::from_options'):
      fs = H.fields_of(lits[0])
      for f, ty in fields:
        e = fs.get(f)
        if e is None:
          ctx.ob('R36.3', S + '::from_options', f'field {f} is set', False, 'missing', f"{h['file']}:{h['line']}")
          continue
        if f in FROM_OPTIONS_EXCEPT:
          if f == 'chain':
            m = {x for l, x in H.mentions(e) if l == 'options'}
            chain, base = H.method_chain(e)
            okc = m == {'signet', 'regtest', 'testnet', 'testnet4', 'chain_argument'} and chain and all(c == 'or' for c in chain[:4]) and H.field_access(e['args'][0]) == ('options', 'chain_argument')
            ctx.ob('R36.3', S + '::from_options', 'chain <- network switches, then options.chain_argument last', okc, f'{sorted(m)}', f"{h['file']}:{e.get('l')}")
          else:
            isnone = e.get('k') == 'Path' and (e.get('res') or {}).get('def', '').endswith('None')
            ctx.ob('R36.3', S + '::from_options', f'{f} <- None ({FROM_OPTIONS_EXCEPT[f]})', isnone, '', f"{h['file']}:{e.get('l')}", nontrivial=False)
          continue
        ctx.ob('R36.3', S + '::from_options', f'{f} <- options.{f}', H.field_access(e) == ('options', f) and H.mentions(e) == {('options', f)}, f'{sorted(map(str, H.mentions(e)))}', f"{h['file']}:{e.get('l')}")
  h = body('R36.3', S + '::from_env')
  if h is not None:
    lits = H.struct_literals(h, 'Settings')
    if ctx.anchor('R36.3', 'Settings literal in from_env', len(lits) == 1, S + '::from_env'):
      fs = H.fields_of(lits[0])
      for f, ty in fields:
        e = H.unwrap_try(fs.get(f)) if fs.get(f) is not None else None
        okk = isinstance(e, dict) and e.get('k') == 'Call' and H.local_of(e.get('f')) == GETTER_FOR_TYPE.get(ty) and len(e.get('args') or []) == 1 and H.lit_strings(e['args'][0]) == [f.upper()]
        ctx.ob('R36.3', S + '::from_env', f'{f} <- {GETTER_FOR_TYPE.get(ty)}("{f.upper()}")', okk,
               f'got {H.local_of(e.get("f")) if isinstance(e, dict) and e.get("k") == "Call" else None}({H.lit_strings(e) if e else None})', f"{h['file']}:{(e or {}).get('l', h['line'])}")
      # every getter reads the env map with the key it was given
      ls = H.lets(h)
      for g in set(GETTER_FOR_TYPE.values()):
        ge = ls.get(g)
        okg = ge is not None and any(n.get('k') == 'MethodCall' and n.get('m') == 'get' and H.local_of(n.get('recv')) == 'env' and n.get('args') and H.local_of(n['args'][0]) == 'key' for n in H.walk(ge))
        ctx.ob('R36.3', S + '::from_env', f'getter {g} reads env.get(key)', okg, '', f"{h['file']}:{h['line']}")
  h = body('R36.3', S + '::or_defaults')
  if h is not None:
    lits = H.struct_literals(h, 'Settings')
    if ctx.anchor('R36.3', 'Settings literal in or_defaults', len(lits) == 1, S + '::or_defaults'):
      fs = H.fields_of(lits[0])
      ls = H.lets(h)

      def deps(e, seen=()):
        out = set()
        for l, x in H.mentions(e):
          if l == 'self' and x is not None:
            out.add(x)
          elif x is None and l in ls and l not in seen:
            out |= deps(ls[l], seen + (l,))
        return out
      for f, ty in fields:
        e = fs.get(f)
        if e is None:
          ctx.ob('R36.3', S + '::or_defaults', f'field {f} is set', False, 'missing', f"{h['file']}:{h['line']}")
          continue
        d = deps(e)
        allowed = DEFAULT_DEPS.get(f, {f})
        ctx.ob('R36.3', S + '::or_defaults', f'{f} depends only on self.{{{",".join(sorted(allowed)) or "-"}}}', d <= allowed and (f in d or not allowed or f in ('config', 'config_dir')), f'depends on self.{sorted(d)}', f"{h['file']}:{e.get('l')}")

  # ---------------- R36.4
  aug = [b for b in F.bodies.values() if b.n.startswith('<ord::options::Options as clap::') and 'augment_args' in b.n]
  ctx.floor('R36.4', 'clap augment_args bodies of Options', len(aug), 1)
  n_args = 0
  for b in aug:
    ctx.analysed(b)
    fam = [b] + F.closures_of(b.n)
    for bb in fam:
      for c in bb.calls:
        if (c.name or '').endswith('Arg::new') or (c.name or '').endswith('::Arg::new'):
          n_args += 1
        if re.search(r'Arg::(default_value|default_value_os|default_values|default_values_os|default_missing_value|default_missing_value_os|default_value_if|default_value_ifs)$', c.name or ''):
          ctx.ob('R36.4', bb.n, 'clap default on a global option', False, 'the flag layer would always carry this value, so the environment and the config file could never set the option (defaults belong to Settings::or_defaults)', where(bb, c.line))
        if re.search(r'Arg::(env|env_os)$', c.name or ''):
          ctx.ob('R36.4', bb.n, 'Arg::env on a global option', False, 'clap would read this option from the environment itself, below the flag but outside Settings::merge', where(bb, c.line))
  ctx.floor('R36.4', 'clap Arg definitions inspected', n_args, 20)
  ctx.ob('R36.4', 'ord::options::Options', 'no global option declares a clap env source or a clap default', True, '', nontrivial=False)
  # positive control: the rule can see such calls at all — clap-derived argument structs elsewhere in the crate do declare defaults
  others = sum(1 for b in F.bodies.values() if 'augment_args' in b.n and not b.n.startswith('<ord::options::Options') for c in b.calls if re.search(r'Arg::default_value', c.name or ''))
  ctx.floor('R36.4', 'clap defaults declared by other argument structs (positive control)', others, 1)


# sensitivity pack (thorough tier): each seeded edit must be reported by the named rule instance
MUTANTS = [
  {'name': 'seeded-C36-a', 'patch': 'C36-a/patch.diff', 'expect': ('R36.4', 'augment_args', 'clap default')},
  {'name': 'seeded-C36-b', 'patch': 'C36-b/patch.diff', 'expect': ('R36.1', 'Settings::or', 'max_savepoints')},
{'name': 'or-receiver-swapped', 'file': 'src/settings.rs', 'old': 'index: self.index.or(source.index),', 'new': 'index: source.index.or(self.index),', 'expect': ('R36.1', 'Settings::or', 'index = self.index.or')},
           {'name': 'env-before-flags', 'file': 'src/settings.rs', 'old': 'let settings = Settings::from_options(options).or(Settings::from_env(env)?);', 'new': 'let settings = Settings::from_env(env)?.or(Settings::from_options(options));', 'expect': ('R36.2', 'Settings::merge', 'from_options(options).or(from_env')},
           {'name': 'env-key-crossed', 'file': 'src/settings.rs', 'old': 'index_runes: get_bool("INDEX_RUNES"),', 'new': 'index_runes: get_bool("INDEX_SATS"),', 'expect': ('R36.3', 'from_env', 'index_runes <- get_bool')}]


# behaviour-preserving edits (thorough tier): the rules must stay silent on every one of them
NEUTRAL = [{'name': 'Settings::or: two fields listed in another order', 'file': 'src/settings.rs', 'old': '      chain: self.chain.or(source.chain),\n      commit_interval: self.commit_interval.or(source.commit_interval),', 'new': '      commit_interval: self.commit_interval.or(source.commit_interval),\n      chain: self.chain.or(source.chain),'},
           {'name': 'Settings::or: bool operands commuted', 'file': 'src/settings.rs', 'old': 'index_sats: self.index_sats || source.index_sats,', 'new': 'index_sats: source.index_sats || self.index_sats,'}]
