"""E3 — lockstep effects: `whenever A is performed, B is performed too` on every error-free path."""
from .facts import guards_of, origins


def error_blocks(body):
  """blocks that put an error into the return place (`?` residual conversion or an Err(..) aggregate),
  plus diverging blocks (panic): paths through them abort indexing and are not 'success paths'"""
  if getattr(body, '_errblocks', None) is None:
    out = set()
    for d in body.defs().get(0, []):
      if d['kind'] == 'call' and d['call'].is_('re:FromResidual.*::from_residual$'):
        out.add(d['bb'])
      if d['kind'] == 'assign' and d['rv']['k'] == 'agg' and d['rv'].get('variant') == 'Err':
        out.add(d['bb'])
    for i, blk in enumerate(body.blocks):
      t = blk['t']
      if t['k'] == 'call' and t.get('t') is None:
        out.add(i)
      # `continue`-less loops: nothing
    body._errblocks = out
  return body._errblocks


def guard_field_names(body, g):
  """field names / call names the guard's condition derives from (precise origins of the discriminant)"""
  names = set()
  sl = g.slice()
  names |= {str(f) for f in sl.fields}
  for c in sl.calls:
    if c.name:
      names.add(c.name.split('::')[-1])
  return names


def always_with(body, a_bb, b_bb, allowed_guard=None, also_avoid=(), escape_at=()):
  """True iff B is performed on every error-free path on which A is performed:
  B dominates A, or every path from A to a return passes B — where the skip edges of `allowed` guards of B
  (e.g. `if index.index_addresses`, `if let Some(sender) = event_sender`) count as passing B.
  escape_at: extra blocks (e.g. a loop head) reaching which without B also counts as A-without-B."""
  if b_bb == a_bb:
    return True
  if body.dominates(b_bb, a_bb):
    return True
  avoid = set(error_blocks(body)) | {b_bb} | set(also_avoid)
  banned_edges = set()
  if allowed_guard is not None:
    for g in guards_of(body, b_bb):
      if allowed_guard(g):
        for lab, tgt in body.switch_edges(g.bb):
          if lab in g.dead:
            banned_edges.add((g.bb, tgt))
  rets = set(body.return_blocks()) | set(escape_at)
  seen = set()
  work = [(a_bb, s) for s in body.succ(a_bb)]
  while work:
    src, x = work.pop()
    if (src, x) in banned_edges:
      continue
    if x in seen or x in avoid:
      continue
    seen.add(x)
    if x in rets:
      return False
    work.extend((x, s) for s in body.succ(x))
  return True


def unguarded_between(body, a_bb, b_bb, allowed_guard=None):
  """guards of B that do not also guard A and are not allowed — i.e. conditions under which A happens but B may not"""
  ga = {g.bb for g in guards_of(body, a_bb)}
  out = []
  for g in guards_of(body, b_bb):
    if g.bb in ga:
      continue
    if allowed_guard is not None and allowed_guard(g):
      continue
    out.append(g)
  return out


def always_before(body, b_bb, a_bb, allowed_guard=None):
  """True iff on every path from the entry to A, B has been performed — where the skip edges of allowed guards of B
  count as having performed B."""
  if b_bb == a_bb or body.dominates(b_bb, a_bb):
    return True
  banned = set()
  if allowed_guard is not None:
    for g in guards_of(body, b_bb):
      if allowed_guard(g):
        for lab, tgt in body.switch_edges(g.bb):
          if lab in g.dead:
            banned.add((g.bb, tgt))
  seen = {0}
  work = [0]
  while work:
    x = work.pop()
    if x == a_bb:
      return False
    if x == b_bb:
      continue
    for s in body.succ(x):
      if (x, s) in banned or s in seen:
        continue
      seen.add(s)
      work.append(s)
  return True


def paired(body, a_bb, b_bb, allowed_guard=None, escape_at=()):
  """B accompanies A on every path: after it (always_with) or before it (always_before)"""
  return always_with(body, a_bb, b_bb, allowed_guard=allowed_guard, escape_at=escape_at) or always_before(body, b_bb, a_bb, allowed_guard=allowed_guard)
