"""E4 — literal-shape queries over the HIR expression trees (with typeck resolutions) emitted by the driver."""


def walk(n):
  """pre-order walk over every dict node"""
  if isinstance(n, dict):
    yield n
    for v in n.values():
      yield from walk(v)
  elif isinstance(n, list):
    for v in n:
      yield from walk(v)


def find(n, pred):
  return [x for x in walk(n) if pred(x)]


def struct_literals(h, ty_suffix=None):
  out = []
  for n in walk(h.get('body')):
    if n.get('k') == 'Struct' and 'fields' in n and (ty_suffix is None or (n.get('ty') or '').endswith(ty_suffix)):
      out.append(n)
  return out


def fields_of(lit):
  return {f['n']: f['e'] for f in lit['fields']}


def local_of(e):
  if isinstance(e, dict) and e.get('k') == 'Path' and isinstance(e.get('res'), dict):
    return e['res'].get('local')
  return None


def field_access(e):
  """(local, field) for `local.field` (through & and clone-free), else None"""
  while isinstance(e, dict) and e.get('k') in ('AddrOf', 'Unary', 'Cast', 'DropTemps', 'Paren'):
    e = e.get('e')
  if isinstance(e, dict) and e.get('k') == 'Field':
    l = local_of(e.get('e'))
    if l is not None:
      return (l, e.get('n'))
  return None


def mentions(e):
  """set of (local, field) pairs and bare locals ('local', None) mentioned anywhere in the expression"""
  out = set()
  for n in walk(e):
    if n.get('k') == 'Field':
      l = local_of(n.get('e'))
      if l is not None:
        out.add((l, n.get('n')))
    elif n.get('k') == 'Path':
      l = local_of(n)
      if l is not None:
        out.add((l, None))
  # a bare mention that is only the base of a recorded field access is not a separate mention
  bases = {l for l, f in out if f is not None}
  return {(l, f) for l, f in out if not (f is None and l in bases)}


def method_chain(e):
  """names of the method calls along the receiver chain, outermost first"""
  out = []
  while isinstance(e, dict) and e.get('k') == 'MethodCall':
    out.append(e.get('m'))
    e = e.get('recv')
  return out, e


def unwrap_try(e):
  """strip the `?` desugaring: Match(TryDesugar, Try::branch(x)) -> x"""
  if isinstance(e, dict) and e.get('k') == 'Match' and e.get('src') == 'TryDesugar':
    inner = e.get('e')
    if isinstance(inner, dict) and inner.get('k') == 'Call' and inner.get('args'):
      return inner['args'][0]
  return e


def lets(h):
  """{name: init expr} of the simple `let name = ..;` statements anywhere in the body"""
  out = {}
  for n in walk(h.get('body')):
    if n.get('k') == 'LetStmt' and isinstance(n.get('pat'), dict) and n['pat'].get('k') == 'Bind' and n.get('init') is not None:
      out.setdefault(n['pat']['n'], n['init'])
  return out


def lit_strings(e):
  return [n['v']['s'] for n in walk(e) if n.get('k') == 'Lit' and isinstance(n.get('v'), dict) and 's' in n['v']]
