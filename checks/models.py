"""Transfer functions for calls (E6) and the denylist of panicking std APIs (E5).

apply(an, st, call, bb) -> None (unknown result), DIVERGES, or a dict:
  sub:   {path: val}  values to store under the destination
  pred:  predicate to attach to the destination (bool results)
  pure:  True when no &mut argument can be written (skips the havoc)
Sites (panic-capable API uses) are recorded on the analysis object.
"""
import math
import re

from .facts import op_place
from .intervals import (INT_TYPES, ISIZE_MAX, INF, iv, is_int, is_f, join_val, meet_int, top_of, ty_bounds, PASS_VARIANTS)

DIVERGES = object()

RE_INT_METHOD = re.compile(r'num::<impl ([iu](?:8|16|32|64|128|size))>::(\w+)$')
RE_F_METHOD = re.compile(r'(?:num|f64|f32)::<impl (f32|f64)>::(\w+)$')

PANIC_FNS = re.compile(r'^(core|std)::(panicking::(panic|panic_fmt|panic_explicit|panic_display|panic_str|unreachable_display|assert_failed|assert_failed_inner|panic_nounwind|panic_bounds_check)|rt::(begin_panic|panic_fmt|panic_display)|option::(expect_failed|unwrap_failed)|result::unwrap_failed|slice::index::\w+_fail|str::slice_error_fail|cell::panic_already\w+)')

# panicking std APIs (name regex -> kind).  Every use is a site that must be discharged by an idiom or a reviewed entry.
DENY = [
    (re.compile(r'^std::(option::Option|result::Result)::(unwrap|expect|unwrap_err|expect_err)$'), 'unwrap'),
    (re.compile(r'(^|[ <])std::ops::Index(Mut)?(>|)::index(_mut)?$'), 'index-call'),
    (re.compile(r' as std::ops::Index(Mut)?>::index(_mut)?$'), 'index-call'),
    (re.compile(r'^(core|std)::slice::<impl \[T\]>::(split_at|split_at_mut|copy_from_slice|clone_from_slice|swap|chunks|chunks_exact|windows|rchunks|copy_within|rotate_left|rotate_right|first_chunk_unchecked|split_first_chunk_unchecked)$'), 'slice-api'),
    (re.compile(r'^(std|alloc)::vec::Vec::(remove|swap_remove|insert|drain|split_off|truncate_unchecked|splice)$'), 'vec-api'),
    (re.compile(r'^(std|alloc)::collections::VecDeque::(remove_unchecked|swap|insert)$'), 'vec-api'),
    (re.compile(r'^(core|std)::str::<impl str>::(split_at|split_at_mut)$'), 'str-api'),
    (re.compile(r'^(std|alloc)::string::String::(remove|insert|insert_str|truncate|split_off|drain|replace_range)$'), 'str-api'),
    (re.compile(r'^(core|std)::cell::RefCell::(borrow|borrow_mut)$'), 'refcell'),
    (re.compile(r'^std::time::(Instant|SystemTime)::(duration_since|elapsed)$|<std::time::(Instant|Duration|SystemTime) as std::ops::(Add|Sub|Mul|Div)'), 'time-arith'),
    (re.compile(r'^(core|std)::iter::Iterator::step_by$'), 'iter-api'),
    # capacity requests: `capacity overflow` panic (or allocation-failure abort) when the count is not bounded
    (re.compile(r'^(std|alloc)::(vec::Vec|string::String|collections::VecDeque)::(with_capacity|reserve|reserve_exact)$|^(std|alloc)::vec::from_elem$|^(std|alloc)::vec::Vec::resize$'), 'alloc'),
    (re.compile(r'^(core|std)::char::(from_digit)$'), 'char-api'),
]


ALLOC_BOUND = 1 << 32


def deny_kind(name):
  if not name:
    return None
  for rx, kind in DENY:
    if rx.search(name):
      return kind
  return None


def _ty_args(ty):
  """top-level generic arguments of a type string `a::B<X, Y<Z>>` -> ['X', 'Y<Z>']"""
  if ty is None:
    return []
  i = ty.find('<')
  if i < 0 or not ty.endswith('>'):
    return []
  inner = ty[i + 1:-1]
  out, cur, depth = [], '', 0
  for ch in inner:
    if ch in '<([':
      depth += 1
    elif ch in '>)]':
      depth -= 1
    if ch == ',' and depth == 0:
      out.append(cur.strip())
      cur = ''
    else:
      cur += ch
  if cur.strip():
    out.append(cur.strip())
  return out


def _strip_ref(ty):
  while ty and ty.startswith('&'):
    ty = ty[1:].lstrip()
    if ty.startswith('mut '):
      ty = ty[4:]
    if ty.startswith("'"):
      ty = ty.split(' ', 1)[1] if ' ' in ty else ty
  return ty


def newtype_int(an, ty):
  """if ty names a workspace single-field struct over an integer/float, return the field type"""
  ty = _strip_ref(ty or '')
  F = an.F
  cand = F.adts.get(ty)
  if cand is None:
    last = ty.split('::')[-1]
    ms = [a for p, a in F.adts.items() if p.split('::')[-1] == last and p.split('::')[0] == ty.split('::')[0]]
    cand = ms[0] if len(ms) == 1 else None
  if cand and cand.get('kind') == 'struct' and len(cand['variants']) == 1 and len(cand['variants'][0]['fields']) == 1:
    ft = cand['variants'][0]['fields'][0]['ty']
    if top_of(ft) is not None:
      return ft
  return None


def _referent(an, st, o):
  """key and type of the value an operand denotes, looking through one level of tracked reference"""
  p = op_place(o)
  if p is None:
    return None, None
  k = an.key_of_place(st, p)
  ty = an.place_ty(p) or ''
  if k is None:
    return None, ty
  v = st.m.get(k)
  if v is not None and v[0] == 'r':
    return (v[1], v[2]), _strip_ref(ty)
  if ty.startswith('&'):
    return (k[0], k[1] + ('*',)), _strip_ref(ty)
  return k, ty


def _scalar_view(an, st, o):
  """(key, scalar type, value) of an operand that is an int/float, a reference to one, or a one-field newtype of one"""
  k, ty = _referent(an, st, o)
  if 'k' in o:
    return None, o['k'].get('ty'), an.read(st, o)
  if ty is None:
    return None, None, None
  t = top_of(ty)
  if t is not None:
    v = st.m.get(k) if k is not None else None
    return k, ty, (v if v is not None else t)
  ft = newtype_int(an, ty)
  if ft is not None and k is not None:
    k2 = (k[0], k[1] + ('0',))
    v = st.m.get(k2)
    return k2, ft, (v if v is not None else top_of(ft))
  return k, ty, None


def _array_len(an, st, o):
  """N if the operand is (a reference to) a local of type [T; N]"""
  k, ty = _referent(an, st, o)
  if k is None:
    return None
  t = None
  if all(e == '*' for e in k[1]):
    t = an.body.local_ty(k[0])
    for _ in k[1]:
      t = t[1:].lstrip() if t.startswith('&') else ''
      if t.startswith('mut '):
        t = t[4:]
  m = re.match(r'\[.+; (\d+)\]$', t or '')
  return int(m.group(1)) if m else None


def _range_index_ok(an, st, call):
  """Index<Range*> on a fixed-size array or on a slice whose symbolic length is tracked: in range iff the bounds are provably
  within 0..=len"""
  if len(call.args) != 2:
    return False
  n = _array_len(an, st, call.args[0])
  lk = None
  if n is None:
    rk, _ = _referent(an, st, call.args[0])
    if rk is None:
      return False
    lk = (rk[0], rk[1] + ('#len',))
    lv = st.m.get(lk)
    n = lv[1] if is_int(lv) else 0  # the smallest possible length
  rty = an.op_ty(call.args[1]) or ''
  k = an.key_of_operand(st, call.args[1])
  if k is None:
    return False
  if lk is not None and (rty.startswith('std::ops::RangeTo<') or rty.startswith('std::ops::RangeFrom<')):
    # relational fact  bound < len  recorded by a dominating comparison
    bk = (k[0], k[1] + ('0',))
    if (st.root(bk), st.root(lk)) in st.lt or (st.root(bk), lk) in st.lt:
      return True

  def fld(i):
    v = st.m.get((k[0], k[1] + (str(i),)))
    return v if is_int(v) else None

  if rty.startswith('std::ops::RangeTo<') or rty.startswith('std::ops::RangeFrom<'):
    v = fld(0)
    return v is not None and 0 <= v[1] and v[2] <= n
  if rty.startswith('std::ops::Range<'):
    a, b = fld(0), fld(1)
    return a is not None and b is not None and 0 <= a[1] and a[2] <= b[1] and b[2] <= n
  if rty.startswith('std::ops::RangeFull'):
    return True
  if rty == 'usize':
    v = an.read(st, call.args[1])
    return is_int(v) and 0 <= v[1] and v[2] < n
  return False


def _closure_body(an, o):
  """body of the closure whose value an operand holds (single definition, closure aggregate)"""
  from .facts import single_def, op_local
  l = op_local(o)
  seen = 0
  while l is not None and seen < 6:
    d = single_def(an.body, l)
    if d is None or d['kind'] != 'assign':
      return None
    rv = d['rv']
    if rv['k'] == 'agg' and rv['ak'] == 'closure':
      return an.F.bodies.get(rv['def'])
    if rv['k'] == 'use':
      l = op_local(rv['o'])
      seen += 1
      continue
    return None
  return None


def _payload_sub(an, st, o):
  """subtree under the success payload of an Option/Result/ControlFlow operand: {path: val}"""
  k, ty = _referent(an, st, o)
  if k is None:
    return {}
  for v in PASS_VARIANTS:
    sub = st.subtree((k[0], k[1] + (v, '0')))
    if sub:
      return sub
  return {}


def _wrap(sub, variant):
  return {(variant, '0') + p: v for p, v in sub.items()}


def _ival(lo, hi, ty):
  b = ty_bounds(ty)
  return iv(max(lo, b[0]), min(hi, b[1]))


def _pow_bounds(a, b):
  if a[1] < 0 or b[1] < 0:
    return None
  lo = a[1]**min(b[1], 4096) if a[1] >= 1 else 0
  if b[2] > 4096:
    hi = (1 << 4096) if a[2] > 1 else a[2]
  else:
    hi = a[2]**b[2]
  if a[2] >= 1 and b[1] == 0:
    hi = max(hi, 1)
  return lo, hi


def int_method(an, st, call, bb, ty, m):
  bnd = ty_bounds(ty)
  lo_t, hi_t = bnd
  bits = INT_TYPES[ty][0]
  args = [an.read(st, a) for a in call.args]
  a = args[0] if args else None
  b = args[1] if len(args) > 1 else None
  line = call.line

  def arith(opname, x, y):
    if not is_int(x) or not is_int(y):
      return None
    if opname == 'add':
      return x[1] + y[1], x[2] + y[2]
    if opname == 'sub':
      return x[1] - y[2], x[2] - y[1]
    if opname == 'mul':
      c = [x[1] * y[1], x[1] * y[2], x[2] * y[1], x[2] * y[2]]
      return min(c), max(c)
    if opname == 'pow':
      return _pow_bounds(x, y)
    if opname == 'div':
      if x[1] < 0 or y[1] < 0:
        return None
      return x[1] // max(y[2], 1), x[2] // max(y[1], 1)
    if opname == 'rem':
      if x[1] < 0 or y[1] < 0:
        return None
      return 0, min(x[2], max(y[2], 1) - 1)
    if opname == 'shl':
      if x[1] < 0 or y[1] < 0 or y[2] >= bits:
        return None
      return x[1] << y[1], x[2] << y[2]
    if opname == 'shr':
      if x[1] < 0 or y[1] < 0 or y[2] >= bits:
        return None
      return x[1] >> y[2], x[2] >> y[1]
    return None

  mm = re.match(r'(checked|saturating|wrapping|overflowing|strict|unchecked)_(add|sub|mul|pow|div|rem|shl|shr|neg|abs)$', m)
  if mm:
    mode, opn = mm.groups()
    r = arith(opn, a, b) if b is not None else None
    if mode == 'checked':
      if opn in ('div', 'rem') and is_int(b) and r is not None:
        pass
      if r is None:
        return {'sub': {('v:Some', '0'): iv(lo_t, hi_t)}, 'pure': True}
      l, h = max(r[0], lo_t), min(r[1], hi_t)
      if l > h:
        return {'sub': {}, 'pure': True}
      sub = {('v:Some', '0'): iv(l, h)}
      if lo_t <= r[0] and r[1] <= hi_t and not (opn in ('div', 'rem') and not (is_int(b) and b[1] > 0)):
        sub[('always',)] = iv(1, 1)  # the operation cannot fail: the result is always Some
      return {'sub': sub, 'pure': True}
    if mode == 'saturating':
      if r is None:
        return {'sub': {(): iv(lo_t, hi_t)}, 'pure': True}
      return {'sub': {(): iv(min(max(r[0], lo_t), hi_t), max(min(r[1], hi_t), lo_t))}, 'pure': True}
    if mode == 'wrapping':
      if r is not None and lo_t <= r[0] and r[1] <= hi_t:
        return {'sub': {(): iv(r[0], r[1])}, 'pure': True}
      return {'sub': {(): iv(lo_t, hi_t)}, 'pure': True}
    if mode == 'overflowing':
      if r is not None and lo_t <= r[0] and r[1] <= hi_t:
        return {'sub': {('0',): iv(r[0], r[1]), ('1',): iv(0, 0)}, 'pure': True}
      return {'sub': {('0',): iv(lo_t, hi_t), ('1',): iv(0, 1)}, 'pure': True}
    return {'sub': {}, 'pure': True}
  if m in ('pow', 'isqrt', 'ilog', 'ilog2', 'ilog10', 'div_euclid', 'rem_euclid', 'div_ceil', 'next_power_of_two', 'abs', 'next_multiple_of', 'div_floor'):
    r = arith('pow', a, b) if m == 'pow' and is_int(a) and is_int(b) else None
    okf = r is not None and lo_t <= r[0] and r[1] <= hi_t
    if m in ('div_ceil', 'div_euclid', 'rem_euclid', 'next_multiple_of', 'div_floor'):
      okf = is_int(b) and (b[1] > 0) and (m != 'next_multiple_of')
    if m in ('ilog2', 'ilog10'):
      okf = is_int(a) and a[1] > 0
    if m == 'isqrt':
      okf = is_int(a) and a[1] >= 0
    an.site('arith', bb, 'T', line, f'{ty}::{m}', call.args, okf, '' if okf else f'{ty}::{m} on {[an.show(x) for x in args]} can overflow / panic', call)
    if m == 'pow' and r is not None:
      return {'sub': {(): iv(max(r[0], lo_t), min(r[1], hi_t))}, 'pure': True}
    if m == 'div_ceil' and is_int(a) and is_int(b) and a[1] >= 0 and b[1] > 0:
      return {'sub': {(): iv(-(-a[1] // b[2]), -(-a[2] // b[1]))}, 'pure': True}
    if m in ('ilog2', 'ilog10'):
      return {'sub': {(): iv(0, bits)}, 'pure': True}
    return {'sub': {(): iv(lo_t, hi_t)}, 'pure': True}
  if m in ('min', 'max') and is_int(a) and is_int(b):
    f = min if m == 'min' else max
    return {'sub': {(): iv(f(a[1], b[1]), f(a[2], b[2]))}, 'pure': True}
  if m == 'clamp' and len(args) == 3 and all(is_int(x) for x in args):
    return {'sub': {(): iv(max(a[1], args[1][1]), min(a[2], args[2][2]))}, 'pure': True}
  if m == 'abs_diff' and is_int(a) and is_int(b):
    hi = max(a[2] - b[1], b[2] - a[1], 0)
    lo = max(a[1] - b[2], b[1] - a[2], 0)
    return {'sub': {(): iv(lo, hi)}, 'pure': True}
  if m in ('leading_zeros', 'trailing_zeros', 'count_ones', 'count_zeros', 'leading_ones', 'trailing_ones'):
    if m == 'leading_zeros' and is_int(a) and a[1] >= 0:
      return {'sub': {(): iv(bits - a[2].bit_length(), bits - a[1].bit_length())}, 'pure': True}
    return {'sub': {(): iv(0, bits)}, 'pure': True}
  if m in ('is_multiple_of', 'is_power_of_two'):
    return {'sub': {(): iv(0, 1)}, 'pure': True}
  if m == 'to_le_bytes' and is_int(a) and a[1] >= 0:
    # byte 0 is the low byte
    return {'sub': {('[0]',): (a if a[2] <= 255 else iv(0, 255))}, 'pure': True}
  if m in ('to_le_bytes', 'to_be_bytes', 'to_ne_bytes', 'from_le_bytes', 'from_be_bytes', 'from_ne_bytes', 'swap_bytes', 'reverse_bits', 'rotate_left', 'rotate_right', 'to_le', 'to_be', 'from_str_radix'):
    return {'sub': {}, 'pure': True}
  if m in ('trailing_zeros',):
    return {'sub': {(): iv(0, bits)}, 'pure': True}
  return None


def float_method(an, st, call, bb, ty, m):
  args = [an.read(st, a) for a in call.args]
  a = args[0] if args else None
  if not is_f(a):
    a = ('f', -INF, INF, True)
  if m in ('round', 'floor', 'ceil', 'trunc', 'round_ties_even'):
    f = {'round': lambda x: float(math.floor(x + 0.5)) if x >= 0 else -float(math.floor(-x + 0.5)), 'floor': math.floor, 'ceil': math.ceil, 'trunc': math.trunc, 'round_ties_even': round}[m]
    lo = a[1] if a[1] in (INF, -INF) else float(f(a[1]))
    hi = a[2] if a[2] in (INF, -INF) else float(f(a[2]))
    return {'sub': {(): ('f', lo, hi, a[3])}, 'pure': True}
  if m == 'abs':
    lo = 0.0 if a[1] <= 0 <= a[2] else min(abs(a[1]), abs(a[2]))
    return {'sub': {(): ('f', lo, max(abs(a[1]), abs(a[2])), a[3])}, 'pure': True}
  if m in ('is_nan', 'is_finite', 'is_infinite'):
    k = an.key_of_operand(st, call.args[0])
    res = {'sub': {(): iv(0, 1)}, 'pure': True}
    if k is not None:
      res['pred'] = ('fcheck', m, k, ty)
    if m == 'is_nan' and not a[3]:
      res['sub'] = {(): iv(0, 0)}
    return res
  if m in ('min', 'max') and len(args) == 2 and is_f(args[1]):
    b = args[1]
    f = min if m == 'min' else max
    # f64::min/max ignore a NaN operand
    return {'sub': {(): ('f', f(a[1], b[1]), f(a[2], b[2]), a[3] and b[3])}, 'pure': True}
  return {'sub': {(): ('f', -INF, INF, True)}, 'pure': True}


CMP_METHODS = {'lt': 'Lt', 'le': 'Le', 'gt': 'Gt', 'ge': 'Ge', 'eq': 'Eq', 'ne': 'Ne'}


def apply(an, st, call, bb):
  name = call.name or ''
  tname = call.trait_fn or ''
  last = name.split('::')[-1]
  dest_ty = an.place_ty(call.dest) if call.dest is not None else None

  # ---- explicit panics
  if PANIC_FNS.search(name):
    if not call.exp or True:
      an.site('panic', bb, 'T', call.line, 'panic', [], False, f'explicit panic ({name.split("::")[-1]})', call)
    return DIVERGES

  dk = deny_kind(name) or deny_kind(tname)
  if dk:
    okf = False
    if dk == 'index-call' and _range_index_ok(an, st, call):
      okf = True
    if dk in ('vec-api', 'slice-api') and last in ('remove', 'split_at', 'split_at_mut', 'swap_remove') and len(call.args) == 2:
      rk, _ = _referent(an, st, call.args[0])
      ix = an.read(st, call.args[1])
      lv = st.m.get((rk[0], rk[1] + ('#len',))) if rk is not None else None
      if is_int(ix) and is_int(lv) and ix[1] >= 0:
        if last.startswith('split_at') and ix[2] <= lv[1]:
          okf = True
        if last in ('remove', 'swap_remove') and ix[2] < lv[1]:
          okf = True
    if (dk == 'iter-api' and last == 'step_by' or dk == 'slice-api' and last in ('chunks', 'chunks_exact', 'windows', 'rchunks')) and len(call.args) == 2:
      sz = an.read(st, call.args[1])
      if is_int(sz) and sz[1] >= 1:
        okf = True  # these only panic on a zero step / chunk size
    if dk == 'alloc' and call.args:
      # the requested count is the last integer argument; fine when provably small (ALLOC_BOUND elements)
      cnt = an.read(st, call.args[-1 if last in ('with_capacity', 'reserve', 'reserve_exact') else 1])
      if is_int(cnt) and cnt[1] >= 0 and cnt[2] <= ALLOC_BOUND:
        okf = True
    if dk == 'unwrap' and call.args:
      k, _ = _referent(an, st, call.args[0])
      if k is not None and st.m.get((k[0], k[1] + ('always',))) == iv(1, 1):
        okf = True
    asm = an.site(dk, bb, 'T', call.line, last, call.args, okf, '' if okf else f'call of panicking API {name}', call)
    if asm is not None and dk == 'unwrap' and call.args:
      # reviewed entry with a result range: the unwrapped payload is known to lie in it
      sub = dict(_payload_sub(an, st, call.args[0]))
      cur = sub.get(())
      sub[()] = iv(max(asm[0], cur[1]), min(asm[1], cur[2])) if is_int(cur) else iv(asm[0], asm[1])
      return {'sub': sub, 'pure': True}

  # ---- comparisons through PartialOrd / PartialEq
  if last in CMP_METHODS and ('cmp::Partial' in name or 'cmp::Partial' in tname or 'cmp::impls' in name) and len(call.args) == 2:
    ka, ta, va = _scalar_view(an, st, call.args[0])
    kb, tb, vb = _scalar_view(an, st, call.args[1])
    if va is not None and vb is not None and va[0] == vb[0] and va[0] in ('i', 'f'):
      A = ('key', ka, ta) if ka is not None else ('val', va)
      B = ('key', kb, tb) if kb is not None else ('val', vb)
      res = {'sub': {(): iv(0, 1)}, 'pure': True, 'pred': ('cmp', CMP_METHODS[last], A, B, va[0] == 'f')}
      if va[0] == 'i':
        t = an.decide(CMP_METHODS[last], va, vb)
        if t is not None:
          res['sub'] = {(): iv(int(t), int(t))}
      return res
    return {'sub': {(): iv(0, 1)}, 'pure': True}

  # ---- integer / float inherent methods
  mi = RE_INT_METHOD.search(name)
  if mi:
    r = int_method(an, st, call, bb, mi.group(1), mi.group(2))
    if r is not None:
      return r
    an.eng.unmodelled[name] += 1
    return {'sub': {}, 'pure': True}
  mf = RE_F_METHOD.search(name)
  if mf:
    return float_method(an, st, call, bb, mf.group(1), mf.group(2))

  # ---- std::cmp::{min,max}, Ord::{min,max,clamp}
  if re.search(r'^(core|std)::cmp::(min|max)$|cmp::Ord::(min|max)$| as std::cmp::Ord>::(min|max)$', name) and len(call.args) == 2:
    _, ta, a = _scalar_view(an, st, call.args[0])
    _, tb, b = _scalar_view(an, st, call.args[1])
    if is_int(a) and is_int(b):
      f = min if last == 'min' else max
      v = iv(f(a[1], b[1]), f(a[2], b[2]))
      if top_of(dest_ty) is not None:
        return {'sub': {(): v}, 'pure': True}
      if newtype_int(an, dest_ty):
        return {'sub': {('0',): v}, 'pure': True}
    return {'sub': {}, 'pure': True}

  # ---- conversions between scalars
  if re.search(r'(convert::From|convert::Into)(>|)::(from|into)$|::<impl std::convert::From.*>::from$|<impl std::convert::Into.*>::into$', name) or tname in ('std::convert::From::from', 'std::convert::Into::into'):
    if call.args:
      v = an.read(st, call.args[0])
      dt = top_of(dest_ty)
      if dt is not None and dt[0] == 'i' and is_int(v):
        m = meet_int(v, dt[1], dt[2])
        return {'sub': {(): m if m != 'bot' else dt}, 'pure': True}
      if dt is not None and dt[0] == 'f':
        if is_int(v):
          return {'sub': {(): ('f', float(v[1]), float(v[2]), False)}, 'pure': True}
        if is_f(v):
          return {'sub': {(): v}, 'pure': True}
      # workspace From impls are analysed as ordinary callees below
  if re.search(r'convert::TryFrom(>|)::try_from$|convert::TryInto(>|)::try_into$|<impl std::convert::TryFrom.*>::try_from$|<impl std::convert::TryInto.*>::try_into$', name) or tname in ('std::convert::TryFrom::try_from', 'std::convert::TryInto::try_into'):
    ta = _ty_args(dest_ty)
    if call.args and ta:
      dt = top_of(ta[0])
      v = an.read(st, call.args[0])
      if dt is not None and dt[0] == 'i':
        if is_int(v):
          m = meet_int(v, dt[1], dt[2])
          if m == 'bot':
            return {'sub': {}, 'pure': True}
          sub = {('v:Ok', '0'): m}
          if dt[1] <= v[1] and v[2] <= dt[2]:
            sub[('always',)] = iv(1, 1)  # the conversion cannot fail
          return {'sub': sub, 'pure': True}
        return {'sub': {('v:Ok', '0'): dt}, 'pure': True}
    if not (name.startswith('ord::') or name.startswith('ordinals::') or '<impl' in name and ('ord::' in name or 'ordinals::' in name)):
      return {'sub': {}, 'pure': True}

  # ---- Option / Result plumbing
  if re.search(r'^std::(option::Option|result::Result)::(unwrap|expect|unwrap_or_default|unwrap_unchecked)$', name):
    return {'sub': _payload_sub(an, st, call.args[0]), 'pure': True}
  if re.search(r'^std::(option::Option|result::Result)::unwrap_or$', name):
    sub = _payload_sub(an, st, call.args[0])
    d = an.read(st, call.args[1])
    out = {}
    if () in sub and d is not None:
      j = join_val(sub[()], d)
      if j is not None:
        out[()] = j
    return {'sub': out, 'pure': True}
  if re.search(r'^std::(option::Option|result::Result)::unwrap_or_else$', name) and len(call.args) == 2:
    sub = _payload_sub(an, st, call.args[0])
    cb = _closure_body(an, call.args[1])
    out = {}
    if cb is not None and sub:
      cs = an.eng.summary(cb, {}, an.depth + 1)
      if cs:
        for p_, v in sub.items():
          if p_ in cs:
            j = join_val(v, cs[p_])
            if j is not None:
              out[p_] = j
    return {'sub': out}
  if re.search(r'<std::(option::Option|result::Result) as std::ops::Try>::branch$', name):
    return {'sub': _wrap(_payload_sub(an, st, call.args[0]), 'v:Continue'), 'pure': True}
  if re.search(r'^std::option::Option::(ok_or|ok_or_else)$', name) or re.search(r'(anyhow::Context|snafu::OptionExt).*::(context|with_context)$', name) and (an.place_ty(op_place(call.args[0])) or '').startswith('std::option::Option'):
    return {'sub': _wrap(_payload_sub(an, st, call.args[0]), 'v:Ok')}
  if re.search(r'^std::result::Result::(map_err|or_else|inspect_err)$', name) or re.search(r'(anyhow::Context|snafu::ResultExt).*::(context|with_context)$', name):
    return {'sub': _wrap(_payload_sub(an, st, call.args[0]), 'v:Ok')}
  if re.search(r'^std::result::Result::ok$', name) or re.search(r'^std::option::Option::(copied|cloned|take|or|or_else|filter|as_ref|as_mut|as_deref)$', name):
    return {'sub': _wrap(_payload_sub(an, st, call.args[0]), 'v:Some')}
  if re.search(r'^std::result::Result::(copied|cloned|as_ref|as_mut)$', name):
    return {'sub': _wrap(_payload_sub(an, st, call.args[0]), 'v:Ok')}

  # ---- element access on tracked constant arrays
  if re.search(r'slice::<impl \[T\]>::(get|first|last)$', name) and call.args:
    k, ty = _referent(an, st, call.args[0])
    if k is not None:
      sub = st.subtree((k[0], k[1] + ('[*]',)))
      if sub:
        out = {('v:Some', '0', '*') + p_: v for p_, v in sub.items()}
        if last in ('first', 'last') and st.subtree((k[0], k[1] + ('[0]',))):
          out[('always',)] = iv(1, 1)  # a constant array with at least one element: never None
        return {'sub': out, 'pure': True}
      # receiver is (a reference to) a fixed-size array of length >= 1: first()/last() are never None
      if last in ('first', 'last') and all(e == '*' for e in k[1]):
        t = an.body.local_ty(k[0])
        for _ in k[1]:
          t = t[1:].lstrip() if t.startswith('&') else ''
          if t.startswith('mut '):
            t = t[4:]
        m = re.match(r'\[.+; (\d+)\]$', t)
        if m and int(m.group(1)) >= 1:
          return {'sub': {('always',): iv(1, 1)}, 'pure': True}
    return {'sub': {}, 'pure': True}

  # ---- lengths of fixed-size arrays (possibly behind an unsizing coercion) and range-indexing into them
  if call.args and (last == 'len' or dk == 'index-call'):
    n = _array_len(an, st, call.args[0])
    if n is not None and last == 'len':
      return {'sub': {(): iv(n, n)}, 'pure': True}
  # ---- lengths: one symbolic length per slice / Vec / String, kept at the pseudo-field '#len' of the referent, so that a guard
  # on x.len() also bounds later bounds checks and range indexing on the same x
  if last == 'len' and call.args and re.search(r'(slice::<impl \[T\]>|vec::Vec|str::<impl str>|string::String|VecDeque)::len$', name):
    k, _ = _referent(an, st, call.args[0])
    if k is not None:
      lk = (k[0], k[1] + ('#len',))
      cur = st.m.get(lk)
      if cur is None:
        cur = iv(0, ISIZE_MAX)
        st.m[lk] = cur
      return {'sub': {(): cur}, 'pure': True, 'copyof': lk}
  if last == 'is_empty' and call.args and re.search(r'(slice::<impl \[T\]>|vec::Vec|str::<impl str>|string::String|VecDeque)::is_empty$', name):
    k, _ = _referent(an, st, call.args[0])
    if k is not None:
      lk = (k[0], k[1] + ('#len',))
      if st.m.get(lk) is None:
        st.m[lk] = iv(0, ISIZE_MAX)
      cur = st.m[lk]
      res = {'sub': {(): iv(0, 1)}, 'pure': True, 'pred': ('cmp', 'Eq', ('key', lk, 'usize'), ('val', iv(0, 0)), False)}
      if cur[1] > 0:
        res['sub'] = {(): iv(0, 0)}
      return res
  if re.search(r'(slice::<impl \[T\]>|vec::Vec|str::<impl str>|string::String|VecDeque|collections::\w+::\w+)::len$', name) or re.search(r'ExactSizeIterator(>|)::len$', name):
    return {'sub': {(): iv(0, ISIZE_MAX)}, 'pure': True}
  if last in ('is_empty', 'is_some', 'is_none', 'is_ok', 'is_err', 'contains', 'contains_key', 'starts_with', 'ends_with', 'is_ascii_digit', 'is_char_boundary') and dest_ty == 'bool':
    return {'sub': {(): iv(0, 1)}, 'pure': True}

  # ---- clone of a tracked scalar-bearing value
  if re.search(r'clone::Clone(>|)::clone$', name) and call.args:
    k, ty = _referent(an, st, call.args[0])
    if k is not None:
      return {'sub': dict(st.subtree(k)), 'pure': True}
    return {'sub': {}, 'pure': True}

  # ---- workspace callee: context-sensitive return summary
  raw = call.raw
  cb = an.F.bodies.get(raw) if raw else None
  if cb is None:
    # std blanket impls forwarding to a workspace impl (Into -> From): same argument, same result
    from .facts import blanket_target
    tgt = blanket_target(call.f, an.F.bodies)
    if tgt is not None and call.f.get('fn') == 'std::convert::Into::into':
      cb = an.F.bodies.get(tgt)
  if cb is not None:
    arg_sub = {}
    for i, a in enumerate(call.args):
      p = op_place(a)
      if p is None:
        if 'k' in a:
          for path, v in an.const_sub(a['k']).items():
            arg_sub[(i + 1, path)] = v
        continue
      k = an.key_of_place(st, p)
      if k is None:
        continue
      v = st.m.get(k)
      if v is not None and v[0] == 'r':
        for path, sv in st.subtree((v[1], v[2])).items():
          if sv[0] != 'r':
            arg_sub[(i + 1, ('*',) + path)] = sv
      else:
        for path, sv in st.subtree(k).items():
          if sv[0] != 'r':
            arg_sub[(i + 1, path)] = sv
        ev = an.read_place(st, p)
        if ev is not None and ev[0] != 'r':
          arg_sub[(i + 1, ())] = ev
    if an.record:
      an.callctx.append((cb.path, call, arg_sub))
    out = an.eng.summary(cb, arg_sub, an.depth + 1)
    if out is not None:
      return {'sub': out}
    return None

  if name:
    an.eng.unmodelled[name] += 1
  return None
