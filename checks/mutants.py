"""Sensitivity pack (thorough tier): seeded rule-breaking edits are applied to a scratch copy of /repo, facts are extracted from
the copy, the property's rules are evaluated on it, and every seeded edit must be reported by name.  Nothing under /repo is touched;
the scratch copy and its facts are removed afterwards.  A seeded edit whose context no longer exists is skipped and counted."""
import importlib
import os
import shutil
import subprocess
import tempfile

from . import extract
from .facts import Facts

SEEDED = os.path.join(extract.VERIF, 'seeded')


def _copy_repo(dst):
  ignore = shutil.ignore_patterns('target', '.git', '*.redb')
  shutil.copytree(extract.REPO, dst, ignore=ignore, symlinks=True)


def run_neutral(pid, mod):
  """behaviour-preserving edits (renamed locals, flipped comparisons, reordered independent statements, extra logging): the
  property still holds on the edited copy, so the rules must stay silent — any violation here is a false alarm of the checker"""
  from .core import Ctx
  edits = list(getattr(mod, 'NEUTRAL', []))
  res = {'seeded': len(edits), 'silent': [], 'alarmed': [], 'not_applicable_patch': []}
  if not edits:
    return res
  base = tempfile.mkdtemp(prefix='ordverif.', dir='/var/tmp')
  scratch = os.path.join(base, 'repo')
  fdir = None
  try:
    _copy_repo(scratch)
    applied = []
    for m in edits:
      p = os.path.join(scratch, m['file'])
      try:
        s = open(p).read()
      except OSError:
        s = None
      if s is not None and s.count(m['old']) == 1:
        open(p, 'w').write(s.replace(m['old'], m['new']))
        applied.append(m)
      else:
        res['not_applicable_patch'].append(m['name'])
    if not applied:
      return res
    try:
      fdir, digest, _, dt = extract.ensure_facts('dev', repo=scratch, quiet=True)
    except SystemExit:
      res['not_applicable_patch'] += [m['name'] + ' (scratch copy does not compile)' for m in applied]
      return res
    ctx = Ctx(pid, 'quick', Facts(fdir))
    mod.run(ctx)
    if ctx.violations:
      res['alarmed'] = [{'edits': [m['name'] for m in applied], 'reported': [v.key for v in ctx.violations][:10]}]
    else:
      res['silent'] = [m['name'] for m in applied]
    return res
  finally:
    shutil.rmtree(base, ignore_errors=True)
    if fdir and os.path.isdir(fdir) and fdir != extract.facts_dir('dev'):
      shutil.rmtree(fdir, ignore_errors=True)


def _apply(scratch, m):
  if 'patch' in m:
    pf = m['patch'] if os.path.isabs(m['patch']) else os.path.join(SEEDED, m['patch'])
    r = subprocess.run(['patch', '-p1', '--forward', '--silent', '-i', pf], cwd=scratch, capture_output=True, text=True)
    if r.returncode != 0:
      # leave no half-applied hunks behind
      subprocess.run(['patch', '-p1', '-R', '--silent', '--force', '-i', pf], cwd=scratch, capture_output=True, text=True)
      for root, _, files in os.walk(scratch):
        for f in files:
          if f.endswith('.rej') or f.endswith('.orig'):
            os.unlink(os.path.join(root, f))
    return r.returncode == 0
  p = os.path.join(scratch, m['file'])
  try:
    s = open(p).read()
  except OSError:
    return False
  if s.count(m['old']) == 1:
    open(p, 'w').write(s.replace(m['old'], m['new']))
    return True
  return False


def _evaluate(pid, mod, muts, res):
  """apply `muts` together to a fresh scratch copy; returns (fired, missed, unapplied, compiled)"""
  from .core import Ctx
  base = tempfile.mkdtemp(prefix='ordverif.', dir='/var/tmp')
  scratch = os.path.join(base, 'repo')
  fdir = None
  try:
    _copy_repo(scratch)
    applied, unapplied = [], []
    for m in muts:
      (applied if _apply(scratch, m) else unapplied).append(m)
    if not applied:
      return [], [], unapplied, True
    try:
      fdir, digest, _, dt = extract.ensure_facts('dev', repo=scratch, quiet=True)
    except SystemExit:
      return [], applied, unapplied, False
    res['scratch_extraction_s'] = round((res.get('scratch_extraction_s') or 0) + dt, 1)
    ctx = Ctx(pid, 'quick', Facts(fdir))
    mod.run(ctx)
    fired, missed = [], []
    for m in applied:
      rule, fn_sub, inst_sub = m['expect']
      hit = [v for v in ctx.violations if v.rule == rule and fn_sub in (v.fn or '') and inst_sub in (v.desc or '')]
      if hit:
        fired.append({'mutant': m['name'], 'reported_as': hit[0].key})
      else:
        missed.append(m)
    return fired, missed, unapplied, True
  finally:
    shutil.rmtree(base, ignore_errors=True)
    if fdir and os.path.isdir(fdir) and fdir != extract.facts_dir('dev'):
      shutil.rmtree(fdir, ignore_errors=True)


def run_pack(pid, mod):
  """all edits together first (one extraction); whatever did not apply on top of the others, did not compile in combination, or
  was not reported (one report can mask another, e.g. a lost anchor ends a rule early) is then evaluated alone"""
  muts = list(getattr(mod, 'MUTANTS', []))
  res = {'seeded': len(muts), 'fired': [], 'missed': [], 'not_applicable_patch': [], 'scratch_extraction_s': None, 'evaluated_alone': []}
  if not muts:
    return res
  # edits known to end a rule early (a lost anchor) carry a `group` of their own so that they do not mask the others
  groups = {}
  for m in muts:
    groups.setdefault(m.get('group', 0), []).append(m)
  alone = []
  for g in sorted(groups, key=str):
    gm = groups[g]
    fired, missed, unapplied, compiled = _evaluate(pid, mod, gm, res)
    res['fired'] += fired
    if len(gm) == 1:
      if not compiled:
        res['not_applicable_patch'] += [m['name'] + ' (scratch copy does not compile)' for m in missed]
      else:
        res['missed'] += [{'mutant': m['name'], 'expect': list(m['expect'])} for m in missed]
        res['not_applicable_patch'] += [m['name'] for m in unapplied]
    else:
      alone += missed + unapplied
  for m in alone:
    res['evaluated_alone'].append(m['name'])
    f1, m1, u1, c1 = _evaluate(pid, mod, [m], res)
    res['fired'] += f1
    if u1:
      res['not_applicable_patch'].append(m['name'])
    elif not c1:
      res['not_applicable_patch'].append(m['name'] + ' (scratch copy does not compile)')
    elif m1:
      res['missed'].append({'mutant': m['name'], 'expect': list(m['expect'])})
  return res
