"""Sensitivity pack (thorough tier): seeded rule-breaking edits are applied to a scratch copy of /repo, facts are extracted from
the copy, the property's rules are evaluated on it, and every seeded edit must be reported by name.  Nothing under /repo is touched;
the scratch copy and its facts are removed afterwards.  A seeded edit whose context no longer exists is skipped and counted."""
import importlib
import os
import shutil
import subprocess
import tempfile

from . import extract
from .facts import Facts

SEEDED = os.path.join(extract.VERIF, 'seeded')


def _copy_repo(dst):
  ignore = shutil.ignore_patterns('target', '.git', '*.redb')
  shutil.copytree(extract.REPO, dst, ignore=ignore, symlinks=True)


def run_neutral(pid, mod):
  """behaviour-preserving edits (renamed locals, flipped comparisons, reordered independent statements, extra logging): the
  property still holds on the edited copy, so the rules must stay silent — any violation here is a false alarm of the checker"""
  from .core import Ctx
  edits = list(getattr(mod, 'NEUTRAL', []))
  res = {'seeded': len(edits), 'silent': [], 'alarmed': [], 'not_applicable_patch': []}
  if not edits:
    return res
  base = tempfile.mkdtemp(prefix='ordverif.', dir='/var/tmp')
  scratch = os.path.join(base, 'repo')
  fdir = None
  try:
    _copy_repo(scratch)
    applied = []
    for m in edits:
      p = os.path.join(scratch, m['file'])
      try:
        s = open(p).read()
      except OSError:
        s = None
      if s is not None and s.count(m['old']) == 1:
        open(p, 'w').write(s.replace(m['old'], m['new']))
        applied.append(m)
      else:
        res['not_applicable_patch'].append(m['name'])
    if not applied:
      return res
    try:
      fdir, digest, _, dt = extract.ensure_facts('dev', repo=scratch, quiet=True)
    except SystemExit:
      res['not_applicable_patch'] += [m['name'] + ' (scratch copy does not compile)' for m in applied]
      return res
    ctx = Ctx(pid, 'quick', Facts(fdir))
    mod.run(ctx)
    if ctx.violations:
      res['alarmed'] = [{'edits': [m['name'] for m in applied], 'reported': [v.key for v in ctx.violations][:10]}]
    else:
      res['silent'] = [m['name'] for m in applied]
    return res
  finally:
    shutil.rmtree(base, ignore_errors=True)
    if fdir and os.path.isdir(fdir) and fdir != extract.facts_dir('dev'):
      shutil.rmtree(fdir, ignore_errors=True)


def run_pack(pid, mod):
  from .core import Ctx
  muts = list(getattr(mod, 'MUTANTS', []))
  res = {'seeded': len(muts), 'fired': [], 'missed': [], 'not_applicable_patch': [], 'scratch_extraction_s': None}
  if not muts:
    return res
  base = tempfile.mkdtemp(prefix='ordverif.', dir='/var/tmp')
  scratch = os.path.join(base, 'repo')
  fdir = None
  try:
    _copy_repo(scratch)
    applied = []
    for m in muts:
      ok = False
      if 'patch' in m:
        pf = m['patch'] if os.path.isabs(m['patch']) else os.path.join(SEEDED, m['patch'])
        r = subprocess.run(['patch', '-p1', '--forward', '--silent', '-i', pf], cwd=scratch, capture_output=True, text=True)
        ok = r.returncode == 0
      else:
        p = os.path.join(scratch, m['file'])
        try:
          s = open(p).read()
        except OSError:
          s = None
        if s is not None and s.count(m['old']) == 1:
          open(p, 'w').write(s.replace(m['old'], m['new']))
          ok = True
      if ok:
        applied.append(m)
      else:
        res['not_applicable_patch'].append(m['name'])
    if not applied:
      return res
    try:
      fdir, digest, _, dt = extract.ensure_facts('dev', repo=scratch, quiet=True)
    except SystemExit:
      # the combination does not compile: nothing can be said
      res['not_applicable_patch'] += [m['name'] + ' (scratch copy does not compile)' for m in applied]
      return res
    res['scratch_extraction_s'] = round(dt, 1)
    ctx = Ctx(pid, 'quick', Facts(fdir))
    mod.run(ctx)
    for m in applied:
      rule, fn_sub, inst_sub = m['expect']
      hit = [v for v in ctx.violations if v.rule == rule and fn_sub in (v.fn or '') and inst_sub in (v.desc or '')]
      if hit:
        res['fired'].append({'mutant': m['name'], 'reported_as': hit[0].key})
      else:
        res['missed'].append({'mutant': m['name'], 'expect': list(m['expect'])})
    return res
  finally:
    shutil.rmtree(base, ignore_errors=True)
    if fdir and os.path.isdir(fdir) and fdir != extract.facts_dir('dev'):
      shutil.rmtree(fdir, ignore_errors=True)
    # the scratch path left its own member fingerprints / incremental data in the shared target dir
    tgt = os.path.join(extract.WORK, 'target', 'debug')
    for sub in ('incremental',):
      d = os.path.join(tgt, sub)
      if os.path.isdir(d):
        for x in os.listdir(d):
          if x.startswith('ord-') or x.startswith('ordinals-'):
            pass
