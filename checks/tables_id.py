"""Identity of redb tables: which `define_table!` constant a Table handle was opened from.

A handle's identity is the constant operand of the `open_table`/`open_multimap_table` call it
originates from, followed through locals, `&mut` reborrows, struct-literal fields
(InscriptionUpdater / RuneUpdater) and function parameters (call sites of the function).
"""
from .facts import norm, op_place, describe_operand, origins

OPEN = ('redb::WriteTransaction::open_table', 'redb::WriteTransaction::open_multimap_table',
        'redb::ReadTransaction::open_table', 'redb::ReadTransaction::open_multimap_table',
        're:redb::.*::open_(multimap_)?table$')

WRITE_METHODS = {
    'redb::Table::insert': 'insert', 'redb::Table::remove': 'remove', 'redb::Table::pop_first': 'remove', 'redb::Table::pop_last': 'remove',
    'redb::Table::retain': 'remove', 'redb::Table::retain_in': 'remove', 'redb::Table::extract_if': 'remove', 'redb::Table::extract_from_if': 'remove',
    'redb::Table::insert_reserve': 'insert', 'redb::Table::drain': 'remove', 'redb::Table::drain_filter': 'remove',
    'redb::MultimapTable::insert': 'insert', 'redb::MultimapTable::remove': 'remove', 'redb::MultimapTable::remove_all': 'remove',
}


def short_table(t):
  return t.split('::')[-1]


class TableId:

  def __init__(self, facts):
    self.F = facts
    self._struct_fields = {}
    self._param_cache = {}

  def is_open(self, c):
    return c.is_(*OPEN)

  def of_operand(self, body, op, depth=0, seen=None):
    """set of table constant names (short) this operand may denote (precise origin tracing)"""
    if depth > 8:
      return set()
    out = set()
    for o in origins(body, op):
      if o.kind == 'call':
        c = o.call
        if self.is_open(c) and len(c.args) >= 2:
          k = c.args[1].get('k')
          if k and 'def' in k:
            out.add(short_table(norm(k['def'])))
      elif o.kind == 'param':
        ty = body.local_ty(o.local)
        sname = _struct_of(ty)
        if o.fields and sname in self.F.adts:
          out |= self.struct_field(sname, o.fields[0], depth + 1, seen)
        elif not o.fields:
          out |= self.param(body, o.local, depth + 1, seen)
      elif o.kind == 'upvar':
        out |= self.upvar(body, o.name, depth + 1, seen)
    return out

  def struct_field(self, sname, field, depth=0, seen=None):
    key = (sname, field)
    if key in self._struct_fields:
      return self._struct_fields[key]
    self._struct_fields[key] = set()
    out = set()
    for b in self.F.bodies.values():
      for blk in b.blocks:
        if blk['cleanup']:
          continue
        for s in blk['s']:
          rv = s.get('rv')
          if rv and rv['k'] == 'agg' and rv['ak'] == 'adt' and norm(rv['adt']) == sname and field in rv['fields']:
            i = rv['fields'].index(field)
            out |= self.of_operand(b, rv['ops'][i], depth + 1, seen)
    self._struct_fields[key] = out
    return out

  def param(self, body, l, depth=0, seen=None):
    key = (body.path, l)
    if key in self._param_cache:
      return self._param_cache[key]
    self._param_cache[key] = set()
    out = set()
    for cp in self.F.callers(body.path):
      cb = self.F.bodies.get(cp)
      if cb is None:
        continue
      for c in cb.calls:
        if c.raw == body.path and len(c.args) >= l:
          out |= self.of_operand(cb, c.args[l - 1], depth + 1, seen)
    self._param_cache[key] = out
    return out

  def upvar(self, body, name, depth=0, seen=None):
    """table identity of a variable captured by closure `body` — look at the closure aggregate in the parent"""
    out = set()
    for cp in self.F.callers(body.path):
      pb = self.F.bodies.get(cp)
      if pb is None:
        continue
      for blk in pb.blocks:
        if blk['cleanup']:
          continue
        for s in blk['s']:
          rv = s.get('rv')
          if rv and rv['k'] == 'agg' and rv['ak'] in ('closure', 'coroutine') and rv['def'] == body.path:
            for fn, o in zip(rv['fields'], rv['ops']):
              if fn == name:
                out |= self.of_operand(pb, o, depth + 1, seen)
    return out

  def writes(self, bodies=None):
    """all table write call sites: list of (call, kind, tables:set)"""
    out = []
    for b in (bodies if bodies is not None else self.F.bodies.values()):
      for c in b.calls:
        kind = WRITE_METHODS.get(c.name)
        if kind:
          out.append((c, kind, self.of_operand(b, c.args[0])))
    return out


def _struct_of(ty):
  t = ty
  for pre in ('&mut ', '&'):
    while t.startswith(pre):
      t = t[len(pre):]
  # strip lifetimes like &'a mut
  if t.startswith("'"):
    t = t.split(' ', 1)[1] if ' ' in t else t
    if t.startswith('mut '):
      t = t[4:]
  return norm(t)


def _direct_field(body, op):
  d = describe_operand(body, op)
  # unwrap refs: describe_place already looks through refs
  if d and d[0] == 'var' and len(d) > 2:
    return (d[1], d[2].split('.')[0])
  return None
