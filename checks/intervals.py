"""E6 — interval / known-bits / NaN-aware abstract interpretation over the MIR facts, and the E5 panic-site inventory.

Forward analysis per body.  Abstract locations are (local, path) keys, path = tuple of field indices ('0', '1', ..), variant
markers ('v:Some') and '*' for a dereference of an unknown pointer.  References to tracked locations are tracked as values
('r', local, path, mut), so reads/writes through `&`/`&mut` temporaries reach the referent.

Values:  ('i', lo, hi, kz)  integer interval over Z with a known-zero bit mask (for non-negative values)
         ('f', lo, hi, nan) float interval (lo/hi python floats, may be +-inf) and a may-be-NaN flag
         ('r', local, path, mut)
         None               unknown / not a scalar
The engine is sound for what it models and answers "unknown" otherwise.  Unknown is never accepted silently by the rules.
"""
import math
import re
from collections import defaultdict

from .facts import norm, op_place, describe_operand

INT_TYPES = {}
for _b in (8, 16, 32, 64, 128):
  INT_TYPES[f'u{_b}'] = (_b, False)
  INT_TYPES[f'i{_b}'] = (_b, True)
INT_TYPES['usize'] = (64, False)
INT_TYPES['isize'] = (64, True)
ISIZE_MAX = (1 << 63) - 1
INF = float('inf')


def ty_bounds(ty):
  t = INT_TYPES.get(ty)
  if t is None:
    return None
  b, s = t
  return (-(1 << (b - 1)), (1 << (b - 1)) - 1) if s else (0, (1 << b) - 1)


def top_of(ty):
  if ty is None:
    return None
  bnd = ty_bounds(ty)
  if bnd:
    return ('i', bnd[0], bnd[1], 0)
  if ty == 'bool':
    return ('i', 0, 1, 0)
  if ty == 'char':
    return ('i', 0, 0x10FFFF, 0)
  if ty in ('f32', 'f64'):
    return ('f', -INF, INF, True)
  return None


def iv(lo, hi, kz=0):
  return ('i', lo, hi, kz)


def is_int(v):
  return v is not None and v[0] == 'i'


def is_f(v):
  return v is not None and v[0] == 'f'


def join_val(a, b):
  if a is None or b is None:
    return None
  if a[0] != b[0]:
    return None
  if a[0] == 'i':
    return ('i', min(a[1], b[1]), max(a[2], b[2]), a[3] & b[3])
  if a[0] == 'f':
    return ('f', min(a[1], b[1]), max(a[2], b[2]), a[3] or b[3])
  if a[0] == 'v':
    return ('v', a[1] | b[1])
  return a if a == b else None


def meet_int(a, lo=None, hi=None, kz=0):
  """returns refined int value or 'bot'"""
  l = a[1] if lo is None else max(a[1], lo)
  h = a[2] if hi is None else min(a[2], hi)
  z = a[3] | kz
  if z and l >= 0:
    # upper bound implied by the known-zero bits (for values that fit in 128 bits)
    m = ((1 << 128) - 1) & ~z
    h = min(h, m)
  if l > h:
    return 'bot'
  return ('i', l, h, z)


def fits(v, ty):
  b = ty_bounds(ty)
  return b is not None and is_int(v) and b[0] <= v[1] and v[2] <= b[1]


def bitlen_mask(hi):
  return (1 << max(hi, 0).bit_length()) - 1


class State:
  __slots__ = ('m', 'copyof', 'pred', 'lt')

  def __init__(self, m=None, copyof=None, pred=None, lt=None):
    self.m = m if m is not None else {}
    self.copyof = copyof if copyof is not None else {}
    self.pred = pred if pred is not None else {}
    self.lt = lt if lt is not None else set()

  def clone(self):
    return State(dict(self.m), dict(self.copyof), dict(self.pred), set(self.lt))

  def same(self, o):
    return self.m == o.m and self.copyof == o.copyof and self.pred == o.pred and self.lt == o.lt

  # -- writes
  def kill(self, key):
    l, p = key
    n = len(p)
    dead = [k for k in self.m if k[0] == l and (k[1][:n] == p or p[:len(k[1])] == k[1])]
    for k in dead:
      del self.m[k]

    def hit(k):
      return k[0] == l and (k[1][:n] == p or p[:len(k[1])] == k[1])

    for k in [k for k, v in self.copyof.items() if hit(k) or hit(v)]:
      del self.copyof[k]
    for k in [k for k, v in self.pred.items() if hit(k) or any(isinstance(x, tuple) and len(x) == 2 and isinstance(x[0], int) and isinstance(x[1], tuple) and hit(x) for x in v)]:
      del self.pred[k]
    if self.lt:
      self.lt = {(a, b) for a, b in self.lt if not hit(a) and not hit(b)}

  def set(self, key, val):
    self.kill(key)
    if val is not None:
      self.m[key] = val

  def subtree(self, key):
    l, p = key
    n = len(p)
    return {k[1][n:]: v for k, v in self.m.items() if k[0] == l and k[1][:n] == p}

  def root(self, key):
    seen = 0
    while key in self.copyof and seen < 16:
      key = self.copyof[key]
      seen += 1
    return key

  def eqclass(self, key):
    r = self.root(key)
    out = {key, r}
    for k in self.copyof:
      if self.root(k) == r:
        out.add(k)
    return out


def join_state(a, b):
  if a is None:
    return b
  if b is None:
    return a
  m = {}
  for k, v in a.m.items():
    w = b.m.get(k)
    if w is not None:
      j = join_val(v, w)
      if j is not None:
        m[k] = j
    elif _only_in_other_variant(k, b):
      m[k] = v
  for k, v in b.m.items():
    if k not in a.m and _only_in_other_variant(k, a):
      m[k] = v
  co = {k: v for k, v in a.copyof.items() if b.copyof.get(k) == v}
  pr = {k: v for k, v in a.pred.items() if b.pred.get(k) == v}
  return State(m, co, pr, a.lt & b.lt)


def _only_in_other_variant(k, other):
  """k lies under a variant payload `.. v:X ..`; the other state is known to hold a different variant at that place, so the
  payload of X is meaningless there and the join may keep this state's value (disjoint-sum join)"""
  path = k[1]
  for i, e in enumerate(path):
    if e.startswith('v:'):
      tag = other.m.get((k[0], path[:i] + ('#v',)))
      if tag is not None and tag[0] == 'v' and e[2:] not in tag[1]:
        return True
  return False


def widen_state(old, new, thresholds):
  """old ∇ new : unstable bounds jump to the next threshold"""
  if old is None:
    return new
  j = join_state(old, new)
  m = {}
  for k, v in j.m.items():
    o = old.m.get(k)
    if o is None:
      continue
    if v[0] == 'i' and o[0] == 'i':
      lo, hi = v[1], v[2]
      if lo < o[1]:
        c = [t for t in thresholds if t <= lo]
        lo = max(c) if c else -(1 << 200)
      if hi > o[2]:
        c = [t for t in thresholds if t >= hi]
        hi = min(c) if c else (1 << 200)
      m[k] = ('i', lo, hi, v[3] & o[3])
    elif v[0] == 'f' and o[0] == 'f':
      m[k] = ('f', -INF if v[1] < o[1] else v[1], INF if v[2] > o[2] else v[2], v[3] or o[3])
    elif v[0] == 'v':
      m[k] = v
    else:
      if v == o:
        m[k] = v
  return State(m, j.copyof, j.pred, j.lt)


CMP = {'Lt', 'Le', 'Gt', 'Ge', 'Eq', 'Ne'}
NEG = {'Lt': 'Ge', 'Le': 'Gt', 'Gt': 'Le', 'Ge': 'Lt', 'Eq': 'Ne', 'Ne': 'Eq'}
FLIP = {'Lt': 'Gt', 'Le': 'Ge', 'Gt': 'Lt', 'Ge': 'Le', 'Eq': 'Eq', 'Ne': 'Ne'}


class Site:
  __slots__ = ('kind', 'body', 'bb', 'line', 'op', 'desc', 'ok', 'why', 'call')

  def __init__(self, kind, body, bb, line, op, desc, ok, why, call=None):
    self.kind, self.body, self.bb, self.line, self.op, self.desc, self.ok, self.why, self.call = kind, body, bb, line, op, desc, ok, why, call

  def where(self):
    return f"{self.body.file}:{self.line}"

  def __repr__(self):
    return f"<site {self.kind} {self.op} {self.desc} ok={self.ok} {self.why} @{self.where()}>"


def fmt_desc(d, depth=0):
  """compact rendering of a describe_operand tuple (semantic, no local indices or lines)"""
  if not isinstance(d, tuple) or not d:
    return str(d)
  t = d[0]
  if depth > 5:
    return '…'
  if t == 'var':
    return d[1] + ('.' + d[2] if len(d) > 2 else '')
  if t == 'const':
    v = d[1]
    if isinstance(v, dict):
      return 'lit'
    return str(v)
  if t == 'constdef':
    return d[1].split('::')[-1]
  if t == 'call':
    nm = (d[1] or '?')
    nm = re.sub(r'<impl [^>]*>::', '', nm)
    nm = '::'.join(nm.replace('<', '').replace('>', '').split('::')[-2:])
    s = nm + '(' + ','.join(fmt_desc(a, depth + 1) for a in d[2]) + ')'
    if len(d) > 3:
      s += '.' + str(d[3])
    return s
  if t == 'bin':
    return f"{d[1]}({fmt_desc(d[2], depth + 1)},{fmt_desc(d[3], depth + 1)})"
  if t == 'un':
    return f"{d[1]}({fmt_desc(d[2], depth + 1)})"
  if t == 'cast':
    return f"({fmt_desc(d[2], depth + 1)} as {d[1]})"
  if t == 'proj':
    return f"{fmt_desc(d[1], depth + 1)}.{d[2]}"
  if t == 'discr':
    return f"discr({fmt_desc(d[1], depth + 1)})"
  if t == 'agg':
    nm = (d[1] or '').split('::')[-1]
    if d[2] and d[2] != nm:
      nm += '::' + str(d[2])
    return f"{nm}{{{','.join(fmt_desc(x, depth + 1) for x in d[3])}}}"
  if t == 'cmp':
    return f"{d[1]}({fmt_desc(d[2], depth + 1)},{fmt_desc(d[3], depth + 1)})"
  if t == 'not':
    return f"Not({fmt_desc(d[1], depth + 1)})"
  if t == 'tmp':
    return 'tmp' + ('.' + d[2] if len(d) > 2 else '')
  if t == 'fn':
    return 'fn:' + d[1].split('::')[-1]
  return t


# --------------------------------------------------------------------------- call models

PASS_VARIANTS = ('v:Some', 'v:Ok', 'v:Continue')


def _payload(st, eng, op):
  """value of the success payload of an Option/Result/ControlFlow operand"""
  key = eng.key_of_operand(st, op)
  if key is None:
    return None, None
  for v in PASS_VARIANTS:
    k = (key[0], key[1] + (v, '0'))
    if k in st.m or st.subtree(k):
      return k, v
  return None, None


class Engine:
  """shared across bodies: summaries cache, options"""

  def __init__(self, facts, partition=1, max_depth=5, assumes=None):
    self.facts = facts
    self.partition = partition
    self.max_depth = max_depth
    # reviewed result ranges: {(fn, kind, desc): (lo, hi)} — trusted annotations from the reviewed table
    self.assumes = assumes or {}
    self.assume_fns = {k[0] for k in self.assumes}
    self.assumes_used = set()
    self.summaries = {}
    self.truncations = 0
    self.in_progress = set()
    self.unmodelled = defaultdict(int)

  def analyse(self, body, arg_state=None, depth=0, record=True):
    a = Analysis(self, body, arg_state, depth, record)
    a.run()
    return a

  def summary(self, callee_body, arg_sub, depth):
    """return-value subtree {path: val} of a workspace callee for the given argument subtrees"""
    key = (callee_body.path, repr(sorted((k, v) for k, v in arg_sub.items())))
    if key in self.summaries:
      return self.summaries[key]
    if callee_body.path in self.in_progress or depth > self.max_depth or len(callee_body.blocks) > 400:
      self.truncations += 1
      return None
    self.in_progress.add(callee_body.path)
    trunc_before = self.truncations
    try:
      st = State()
      for (l, p), v in arg_sub.items():
        st.m[(l, p)] = v
      a = Analysis(self, callee_body, st, depth, record=False)
      a.run()
      acc = None
      for rb in callee_body.return_blocks():
        for s in a.out_states(rb):
          raw = s.subtree((0, ()))
          sub = {p: v for p, v in raw.items() if v[0] != 'r'}
          # a returned reference: what it points to is visible to the caller behind a dereference
          for p, v in raw.items():
            if v[0] == 'r':
              for tp, tv in s.subtree((v[1], v[2])).items():
                if tv[0] != 'r':
                  sub[p + ('*',) + tp] = tv
          # join the return states with the variant-aware state join (several disjuncts reach the return under partitioning)
          acc = join_state(acc, State({(0, p): v for p, v in sub.items()}))
      out = None if acc is None else {k[1]: v for k, v in acc.m.items()}
      if self.truncations == trunc_before:
        # only results that did not depend on a depth-truncated inner call are reusable at other depths
        self.summaries[key] = out
      return out
    finally:
      self.in_progress.discard(callee_body.path)


class Analysis:

  def __init__(self, engine, body, arg_state=None, depth=0, record=True):
    self.eng = engine
    self.F = engine.facts
    self.body = body
    self.depth = depth
    self.record = record
    self.init = arg_state if arg_state is not None else State()
    self.edge = {}  # (u, v) -> [State]
    self.ins = {}  # bb -> [State]
    self.sites = {}  # (bb, idx, kind) -> Site
    self.callctx = []  # (callee path, Call, arg subtrees) seen in the final pass
    self.call_vals = {}  # bb -> abstract values of the call's arguments (final pass, joined over states)
    self.thresholds = self._thresholds()
    self.mut_borrowed = self._mut_borrowed()
    self._finalised = False

  # ---------------------------------------------------------------- setup

  def _thresholds(self):
    ts = {0, 1, -1}
    for ty in INT_TYPES:
      lo, hi = ty_bounds(ty)
      ts.add(lo)
      ts.add(hi)

    def visit(o):
      if isinstance(o, dict):
        k = o.get('k')
        if isinstance(k, dict) and isinstance(k.get('v'), int) and not isinstance(k.get('v'), bool):
          v = k['v']
          ts.update((v - 1, v, v + 1))

    for blk in self.body.blocks:
      for s in blk['s']:
        rv = s.get('rv')
        if rv:
          for f in ('o', 'a', 'b'):
            visit(rv.get(f))
          for o in rv.get('ops', []) or []:
            visit(o)
      t = blk['t']
      for o in t.get('args', []) or []:
        visit(o)
      if t['k'] == 'switch':
        for v, _ in t['vals']:
          ts.update((v - 1, v, v + 1))
    return sorted(ts)

  def _mut_borrowed(self):
    out = set()
    for blk in self.body.blocks:
      for s in blk['s']:
        rv = s.get('rv')
        if rv and ((rv['k'] == 'ref' and rv.get('mut')) or rv['k'] == 'rawptr'):
          out.add(rv['p']['l'])
    return out

  # ---------------------------------------------------------------- places

  def place_ty(self, p):
    if p.get('p'):
      return p.get('ty')
    return self.body.local_ty(p['l'])

  def key_of_place(self, st, p):
    l = p['l']
    path = ()
    for e in p.get('p') or []:
      if e == '*':
        v = st.m.get((l, path))
        if v is not None and v[0] == 'r':
          l, path = v[1], v[2]
        else:
          path = path + ('*',)
      elif isinstance(e, dict) and 'f' in e:
        path = path + (str(e['f']),)
      elif isinstance(e, dict) and 'v' in e:
        path = path + ('v:' + e['v'],)
      elif isinstance(e, dict) and 'ci' in e and not e.get('fe'):
        path = path + ('[%d]' % e['ci'],)
      elif isinstance(e, dict) and 'i' in e:
        iv_ = st.m.get((e['i'], ()))
        if iv_ is not None and iv_[0] == 'i' and iv_[1] == iv_[2] and st.subtree((l, path + ('[%d]' % iv_[1],))):
          path = path + ('[%d]' % iv_[1],)
        else:
          path = path + ('[*]',)
      else:
        return None  # subslice: not tracked
    return (l, path)

  def key_of_operand(self, st, o):
    p = op_place(o)
    if p is None:
      return None
    return self.key_of_place(st, p)

  def read_place(self, st, p):
    k = self.key_of_place(st, p)
    ty = self.place_ty(p)
    if k is None:
      return top_of(ty)
    v = st.m.get(k)
    if v is not None:
      t = top_of(ty)
      if t is not None and t[0] == 'i' and v[0] == 'i':
        # never wider than the type
        m = meet_int(v, t[1], t[2])
        return v if m == 'bot' else m
      return v
    return top_of(ty)

  def read(self, st, o):
    if o is None:
      return None
    if 'k' in o:
      k = o['k']
      v = k.get('v')
      ty = k.get('ty')
      if isinstance(v, bool):
        return iv(int(v), int(v))
      if isinstance(v, int):
        if ty in INT_TYPES or ty == 'char' or ty == 'bool':
          return iv(v, v, (~v) & ((1 << 128) - 1) if v >= 0 else 0)
        return None
      if isinstance(v, str) and ty in ('f32', 'f64'):
        try:
          f = float(v)
        except ValueError:
          return top_of(ty)
        if f != f:
          return ('f', INF, -INF, True)
        return ('f', f, f, False)
      return top_of(ty) if ty else None
    p = op_place(o)
    if p is None:
      return None
    return self.read_place(st, p)

  def op_ty(self, o):
    if 'k' in o:
      return o['k'].get('ty')
    p = op_place(o)
    return self.place_ty(p) if p else None

  # ---------------------------------------------------------------- assignment

  @staticmethod
  def _elem_base(k):
    """if the key addresses (something inside) an array element, the key of the array itself"""
    for i, e in enumerate(k[1]):
      if e.startswith('['):
        return (k[0], k[1][:i])
    return None

  def assign_val(self, st, p, val):
    k = self.key_of_place(st, p)
    if k is None:
      # write through an index: forget the whole base local
      st.kill((p['l'], ()))
      return
    if '[*]' in k[1]:
      # element of unknown index: weak update of the summary, and every concrete element is forgotten
      i = k[1].index('[*]')
      base = (k[0], k[1][:i])
      old = st.m.get(k)
      for kk in [kk for kk in st.m if kk[0] == k[0] and kk[1][:i] == k[1][:i] and len(kk[1]) > i and kk[1][i].startswith('[') and kk[1][i] != '[*]']:
        del st.m[kk]
      j = join_val(old, val) if old is not None else None
      st.kill(k)
      if j is not None:
        st.m[k] = j
      return
    for i, e in enumerate(k[1]):
      if e.startswith('[') and e != '[*]':
        # a concrete element is written: the summary element of that array no longer covers it
        for kk in [kk for kk in st.m if kk[0] == k[0] and kk[1][:i] == k[1][:i] and len(kk[1]) > i and kk[1][i] == '[*]']:
          del st.m[kk]
    st.set(k, val)

  def const_sub(self, k):
    """{path: val} behind a constant operand: scalars, one-field newtypes, references to those, integer arrays"""
    v, ty = k.get('v'), k.get('ty') or ''
    out = {}
    if v is None:
      return out
    pre = ()
    t = ty
    while t.startswith('&'):
      pre = pre + ('*',)
      t = t[1:].lstrip()
      if t.startswith('mut '):
        t = t[4:]
    if isinstance(v, bool):
      if t == 'bool':
        out[pre] = iv(int(v), int(v))
      return out
    if isinstance(v, int):
      if top_of(t) is not None and top_of(t)[0] == 'i':
        out[pre] = iv(v, v, (~v) & ((1 << 128) - 1) if v >= 0 else 0)
      else:
        from .models import newtype_int
        if newtype_int(self, t):
          out[pre + ('0',)] = iv(v, v)
      return out
    if isinstance(v, str) and t in ('f32', 'f64'):
      try:
        f = float(v)
        if f == f:
          out[pre] = ('f', f, f, False)
      except ValueError:
        pass
      return out
    if isinstance(v, dict) and 'arr' in v and v['arr'] and all(isinstance(x, int) for x in v['arr']):
      m = re.match(r'\[(.+); \d+\]$', t) or re.match(r'\[(.+)\]$', t)
      if not m:
        return out
      et = m.group(1)
      suffix = ()
      if top_of(et) is None:
        from .models import newtype_int
        if not newtype_int(self, et):
          return out
        suffix = ('0',)
      out[pre + ('#len',)] = iv(len(v['arr']), len(v['arr']))
      out[pre + ('[*]',) + suffix] = iv(min(v['arr']), max(v['arr']))
      for i, x in enumerate(v['arr'][:64]):
        out[pre + ('[%d]' % i,) + suffix] = iv(x, x)
    return out

  def _const_structure(self, st, p, k):
    dk = self.key_of_place(st, p)
    if dk is None:
      return
    for path, val in self.const_sub(k).items():
      if path == ():
        continue  # plain scalar: stored by the caller
      st.m[(dk[0], dk[1] + path)] = val

  def assign_copy(self, st, p, src_op):
    """p = use(src_op) for a place source: copy the whole subtree"""
    dk = self.key_of_place(st, p)
    sp = op_place(src_op)
    sk = self.key_of_place(st, sp) if sp else None
    if dk is None:
      st.kill((p['l'], ()))
      return
    if sk is None or self._elem_base(dk) is not None:
      self.assign_val(st, p, self.read(st, src_op))
      return
    sub = st.subtree(sk)
    exact = self.read_place(st, sp)
    st.kill(dk)
    for path, v in sub.items():
      if path == ():
        continue
      st.m[(dk[0], dk[1] + path)] = v
    if exact is not None:
      st.m[dk] = exact
    if dk != sk:
      st.copyof[dk] = sk

  # ---------------------------------------------------------------- refinement

  def refine(self, st, key, lo=None, hi=None, kz=0, ty=None):
    """intersect every member of key's equality class with [lo, hi]; returns False if infeasible"""
    for k in st.eqclass(key):
      cur = st.m.get(k)
      if cur is None:
        if k == key and ty is not None:
          cur = top_of(ty)
        if cur is None:
          if lo is not None and hi is not None:
            st.m[k] = iv(lo, hi, kz)
          continue
      if cur[0] != 'i':
        continue
      m = meet_int(cur, lo, hi, kz)
      if m == 'bot':
        return False
      st.m[k] = m
      # derived facts
      pr = st.pred.get(k)
      if pr and pr[0] == 'bitand' and m[1] == 0 and m[2] == 0:
        if not self.refine(st, pr[1], kz=pr[2]):
          return False
      if pr and pr[0] == 'castof':
        if not self.refine(st, pr[1], lo=m[1], hi=m[2]):
          return False
      if pr and pr[0] == 'shrof' and m[1] >= 0:
        # (x >> c) in [lo, hi]  =>  x in [lo << c, ((hi + 1) << c) - 1]
        if not self.refine(st, pr[1], lo=m[1] << pr[2], hi=((m[2] + 1) << pr[2]) - 1):
          return False
    return True

  def refine_f(self, st, key, lo=None, hi=None, nonnan=False, ty=None):
    for k in st.eqclass(key):
      cur = st.m.get(k)
      if cur is None:
        cur = top_of(ty) if (k == key and ty) else None
      if cur is None or cur[0] != 'f':
        continue
      l = cur[1] if lo is None else max(cur[1], lo)
      h = cur[2] if hi is None else min(cur[2], hi)
      nan = cur[3] and not nonnan
      if l > h and not nan:
        return False
      st.m[k] = ('f', l, h, nan)
    return True

  def assume_cmp(self, st, op, A, B):
    """A, B: ('key', key, ty) | ('val', val). returns False if infeasible"""

    def val(x):
      if x[0] == 'val':
        return x[1]
      v = st.m.get(x[1])
      return v if v is not None else top_of(x[2])

    va, vb = val(A), val(B)
    if va is None or vb is None:
      if op == 'Lt' and A[0] == 'key' and B[0] == 'key':
        st.lt.add((st.root(A[1]), st.root(B[1])))
      if op == 'Gt' and A[0] == 'key' and B[0] == 'key':
        st.lt.add((st.root(B[1]), st.root(A[1])))
      return True
    if va[0] == 'f' and vb[0] == 'f':
      if op in ('Lt', 'Le', 'Gt', 'Ge', 'Eq'):
        # an ordered comparison that holds excludes NaN on both sides
        if op in ('Lt', 'Le'):
          okA = self.refine_f(st, A[1], hi=vb[2], nonnan=True, ty=A[2]) if A[0] == 'key' else True
          okB = self.refine_f(st, B[1], lo=va[1], nonnan=True, ty=B[2]) if B[0] == 'key' else True
        elif op in ('Gt', 'Ge'):
          okA = self.refine_f(st, A[1], lo=vb[1], nonnan=True, ty=A[2]) if A[0] == 'key' else True
          okB = self.refine_f(st, B[1], hi=va[2], nonnan=True, ty=B[2]) if B[0] == 'key' else True
        else:
          okA = self.refine_f(st, A[1], lo=vb[1], hi=vb[2], nonnan=True, ty=A[2]) if A[0] == 'key' else True
          okB = self.refine_f(st, B[1], lo=va[1], hi=va[2], nonnan=True, ty=B[2]) if B[0] == 'key' else True
        return okA and okB
      return True
    if va[0] != 'i' or vb[0] != 'i':
      return True
    ok = True
    if op == 'Lt':
      if A[0] == 'key':
        ok = ok and self.refine(st, A[1], hi=vb[2] - 1, ty=A[2])
      if B[0] == 'key':
        ok = ok and self.refine(st, B[1], lo=va[1] + 1, ty=B[2])
      if A[0] == 'key' and B[0] == 'key':
        st.lt.add((st.root(A[1]), st.root(B[1])))
    elif op == 'Le':
      if A[0] == 'key':
        ok = ok and self.refine(st, A[1], hi=vb[2], ty=A[2])
      if B[0] == 'key':
        ok = ok and self.refine(st, B[1], lo=va[1], ty=B[2])
    elif op == 'Gt':
      return self.assume_cmp(st, 'Lt', B, A)
    elif op == 'Ge':
      return self.assume_cmp(st, 'Le', B, A)
    elif op == 'Eq':
      lo, hi = max(va[1], vb[1]), min(va[2], vb[2])
      if lo > hi:
        return False
      if A[0] == 'key':
        ok = ok and self.refine(st, A[1], lo=lo, hi=hi, kz=vb[3], ty=A[2])
      if B[0] == 'key':
        ok = ok and self.refine(st, B[1], lo=lo, hi=hi, kz=va[3], ty=B[2])
    elif op == 'Ne':
      if va[1] == va[2] == vb[1] == vb[2]:
        return False
      if vb[1] == vb[2] and A[0] == 'key':
        c = vb[1]
        if va[1] == c:
          ok = ok and self.refine(st, A[1], lo=c + 1, ty=A[2])
        elif va[2] == c:
          ok = ok and self.refine(st, A[1], hi=c - 1, ty=A[2])
      if va[1] == va[2] and B[0] == 'key':
        c = va[1]
        if vb[1] == c:
          ok = ok and self.refine(st, B[1], lo=c + 1, ty=B[2])
        elif vb[2] == c:
          ok = ok and self.refine(st, B[1], hi=c - 1, ty=B[2])
    return ok

  def assume(self, st, key, truth, depth=0):
    """assume the bool at `key` has value `truth`; False if infeasible"""
    cur = st.m.get(key)
    if cur is not None and cur[0] == 'i':
      if cur[1] == cur[2] and cur[1] != int(truth):
        return False
    pr = st.pred.get(key)
    ok = True
    if pr is not None and depth < 6:
      if pr[0] == 'cmp':
        _, op, A, B, isfloat = pr
        if truth:
          ok = self.assume_cmp(st, op, A, B)
        else:
          if isfloat:
            # negation of an ordered float comparison: NaN possible -> only usable when both are known non-NaN
            def nn(x):
              v = x[1] if x[0] == 'val' else (st.m.get(x[1]) or top_of(x[2]))
              return v is not None and v[0] == 'f' and not v[3]
            if nn(A) and nn(B):
              ok = self.assume_cmp(st, NEG[op], A, B)
          else:
            ok = self.assume_cmp(st, NEG[op], A, B)
      elif pr[0] == 'not':
        ok = self.assume(st, pr[1], not truth, depth + 1)
      elif pr[0] == 'fcheck':
        # result of f64::is_nan / is_finite / is_infinite on a tracked float
        _, which, fk, fty = pr
        if which == 'is_nan' and not truth:
          ok = self.refine_f(st, fk, nonnan=True, ty=fty)
        if which == 'is_finite' and truth:
          ok = self.refine_f(st, fk, lo=-1.7976931348623157e308, hi=1.7976931348623157e308, nonnan=True, ty=fty)
        if which == 'is_infinite' and not truth:
          # not infinite: finite or NaN — the bounds apply to the non-NaN part, the NaN flag is untouched
          ok = self.refine_f(st, fk, lo=-1.7976931348623157e308, hi=1.7976931348623157e308, ty=fty)
    if not ok:
      return False
    for k in st.eqclass(key):
      st.m[k] = iv(int(truth), int(truth))
    return True

  # ---------------------------------------------------------------- sites

  def site(self, kind, bb, idx, line, op, operands, ok, why, call=None):
    """records a site (final pass only); returns the reviewed result range for it, if the table gives one"""
    has_assume = self.body.n in self.eng.assume_fns
    if not self.record and not has_assume:
      return None
    desc = op + '(' + ','.join(fmt_desc(describe_operand(self.body, o)) if isinstance(o, dict) else str(o) for o in operands) + ')'
    asm = None
    if has_assume:
      asm = self.eng.assumes.get((self.body.n, kind, desc))
      if asm is not None:
        self.eng.assumes_used.add((self.body.n, kind, desc))
        if not ok:
          ok, why = True, 'reviewed-range'
    if not self.record:
      return asm
    self._site_rec(kind, bb, idx, line, op, desc, ok, why, call)
    return asm

  def _site_rec(self, kind, bb, idx, line, op, desc, ok, why, call):
    k = (bb, idx, kind)
    prev = self.sites.get(k)
    if prev is not None:
      # a site visited under several states is discharged only if it is discharged every time
      prev.ok = prev.ok and ok
      if not ok:
        prev.why = why
      return
    self.sites[k] = Site(kind, self.body, bb, line, op, desc, ok, why, call)

  # ---------------------------------------------------------------- transfer: rvalues

  def eval_bin(self, st, rv, bb, idx, line):
    op = rv['op']
    ty = rv.get('ty')
    a, b = self.read(st, rv['a']), self.read(st, rv['b'])
    base = op.replace('WithOverflow', '').replace('Unchecked', '')
    checked = op.endswith('WithOverflow')
    if base in CMP:
      res = iv(0, 1)
      if is_int(a) and is_int(b):
        t = self.decide(base, a, b)
        if t is not None:
          res = iv(int(t), int(t))
      elif is_f(a) and is_f(b) and not a[3] and not b[3]:
        if base == 'Lt' and a[2] < b[1] or base == 'Gt' and a[1] > b[2] or base == 'Le' and a[2] <= b[1] or base == 'Ge' and a[1] >= b[2]:
          res = iv(1, 1)
        elif base == 'Lt' and a[1] >= b[2] or base == 'Gt' and a[2] <= b[1] or base == 'Le' and a[1] > b[2] or base == 'Ge' and a[2] < b[1]:
          res = iv(0, 0)
      return res, ('cmp', base)
    if ty in ('f32', 'f64'):
      return self.float_bin(base, a, b), None
    bnd = ty_bounds(ty) if ty else None
    if bnd is None or not is_int(a) or not is_int(b):
      if base in ('Add', 'Sub', 'Mul', 'Shl', 'Shr', 'Div', 'Rem') and bnd is not None:
        self.site('arith' if base in ('Add', 'Sub', 'Mul') else 'shift' if base in ('Shl', 'Shr') else 'div', bb, idx, line, base, [rv['a'], rv['b']], False, 'operand unknown')
      return (top_of(ty) if base not in CMP else iv(0, 1)), None
    lo, hi = bnd
    if base in ('Add', 'Sub', 'Mul'):
      if base == 'Add':
        l, h = a[1] + b[1], a[2] + b[2]
      elif base == 'Sub':
        l, h = a[1] - b[2], a[2] - b[1]
      else:
        c = [a[1] * b[1], a[1] * b[2], a[2] * b[1], a[2] * b[2]]
        l, h = min(c), max(c)
      okf = lo <= l and h <= hi
      if not op.endswith('Unchecked'):
        asm = self.site('arith', bb, idx, line, base, [rv['a'], rv['b']], okf, '' if okf else f'{base} of {self.show(a)} and {self.show(b)} can leave {ty} range (result in [{l}, {h}])')
        if asm is not None:
          l, h = max(l, asm[0]), min(h, asm[1])
          okf = lo <= l and h <= hi
      if okf:
        val = iv(l, h)
      elif checked:
        val = iv(max(l, lo), min(h, hi))  # the overflow assert follows: on the continuing path the result is exact
      else:
        val = iv(lo, hi)
      if base == 'Add' and l >= 0 and okf:
        pass
      return val, ('ovf', okf)
    if base in ('BitAnd', 'BitOr', 'BitXor'):
      if a[1] >= 0 and b[1] >= 0:
        if base == 'BitAnd':
          kz = (a[3] | b[3])
          m = meet_int(iv(0, min(a[2], b[2])), kz=kz)
          return (m if m != 'bot' else iv(0, 0)), None
        if base == 'BitOr':
          return iv(max(a[1], b[1]), max(bitlen_mask(a[2]), bitlen_mask(b[2])), a[3] & b[3]), None
        return iv(0, max(bitlen_mask(a[2]), bitlen_mask(b[2])), a[3] & b[3]), None
      if ty == 'bool':
        return iv(0, 1), None
      return top_of(ty), None
    if base in ('Shl', 'Shr'):
      bits = INT_TYPES[ty][0]
      okf = b[1] >= 0 and b[2] < bits
      if not op.endswith('Unchecked'):
        self.site('shift', bb, idx, line, base, [rv['a'], rv['b']], okf, '' if okf else f'shift amount {self.show(b)} is not provably < {bits}')
      if not okf or a[1] < 0:
        return top_of(ty), None
      if base == 'Shl':
        l, h = a[1] << b[1], a[2] << b[2]
        lossless = h <= hi
        self.site('shl-lossy', bb, idx, line, 'Shl', [rv['a'], rv['b']], lossless, '' if lossless else f'{self.show(a)} << {self.show(b)} can shift set bits out of {ty}')
        if lossless:
          return iv(l, h), None
        return top_of(ty), None
      return iv(a[1] >> b[2], a[2] >> b[1]), None
    if base in ('Div', 'Rem'):
      nz = b[1] > 0 or b[2] < 0
      self.site('div', bb, idx, line, base, [rv['a'], rv['b']], nz, '' if nz else f'divisor {self.show(b)} may be zero')
      if a[1] >= 0 and b[1] >= 0:
        d_lo, d_hi = max(b[1], 1), max(b[2], 1)
        if base == 'Div':
          return iv(a[1] // d_hi, a[2] // d_lo), None
        return iv(0, min(a[2], d_hi - 1)), None
      return top_of(ty), None
    return top_of(ty), None

  def decide(self, op, a, b):
    if op == 'Lt':
      return True if a[2] < b[1] else False if a[1] >= b[2] else None
    if op == 'Le':
      return True if a[2] <= b[1] else False if a[1] > b[2] else None
    if op == 'Gt':
      return self.decide('Lt', b, a)
    if op == 'Ge':
      return self.decide('Le', b, a)
    if op == 'Eq':
      if a[1] == a[2] == b[1] == b[2]:
        return True
      if a[2] < b[1] or b[2] < a[1]:
        return False
      return None
    if op == 'Ne':
      r = self.decide('Eq', a, b)
      return None if r is None else (not r)
    return None

  def float_bin(self, base, a, b):
    if not is_f(a) or not is_f(b):
      return ('f', -INF, INF, True)
    nan = a[3] or b[3]
    vals = []
    try:
      for x in (a[1], a[2]):
        for y in (b[1], b[2]):
          if base == 'Add':
            vals.append(x + y)
          elif base == 'Sub':
            vals.append(x - y)
          elif base == 'Mul':
            vals.append(x * y)
          elif base == 'Div':
            if b[1] <= 0.0 <= b[2]:
              return ('f', -INF, INF, True)
            vals.append(x / y)
          else:
            return ('f', -INF, INF, True)
    except (OverflowError, ZeroDivisionError):
      return ('f', -INF, INF, True)
    if any(v != v for v in vals):
      return ('f', -INF, INF, True)
    lo, hi = min(vals), max(vals)
    # one ulp of slack for rounding
    lo = math.nextafter(lo, -INF) if lo not in (INF, -INF) else lo
    hi = math.nextafter(hi, INF) if hi not in (INF, -INF) else hi
    if lo == -INF and hi == INF:
      nan = True if (a[1] == -INF or a[2] == INF or b[1] == -INF or b[2] == INF) else nan
    if base in ('Add', 'Sub') and (INF in (abs(a[1]), abs(a[2])) and INF in (abs(b[1]), abs(b[2]))):
      nan = True
    if base == 'Mul' and ((INF in (abs(a[1]), abs(a[2])) and b[1] <= 0 <= b[2]) or (INF in (abs(b[1]), abs(b[2])) and a[1] <= 0 <= a[2])):
      nan = True
    return ('f', lo, hi, nan)

  def show(self, v):
    if v is None:
      return '?'
    if v[0] == 'i':
      return f'[{v[1]}, {v[2]}]'
    if v[0] == 'f':
      return f'[{v[1]}, {v[2]}{", NaN" if v[3] else ""}]'
    return str(v)

  def eval_cast(self, st, rv, bb, idx, line):
    ck = rv.get('ck')
    to, frm = rv.get('ty'), rv.get('from')
    v = self.read(st, rv['o'])
    if ck == 'IntToInt':
      tb = ty_bounds(to)
      if to == 'char':
        tb = (0, 0x10FFFF)
      if tb is None:
        return top_of(to), None
      if not is_int(v):
        v = top_of(frm)
      if v is None:
        return top_of(to), None
      okf = tb[0] <= v[1] and v[2] <= tb[1]
      fb = ty_bounds(frm) or ((0, 1) if frm == 'bool' else (0, 0x10FFFF) if frm == 'char' else None)
      widening = fb is not None and tb[0] <= fb[0] and fb[1] <= tb[1]
      if not widening:
        self.site('trunc', bb, idx, line, f'as {to}', [rv['o']], okf, '' if okf else f'`as {to}` of {self.show(v)} ({frm}) can truncate / change sign')
      if okf:
        return v, 'castof'
      return top_of(to), None
    if ck == 'FloatToInt':
      tb = ty_bounds(to)
      if tb is None:
        return top_of(to), None
      if not is_f(v):
        v = top_of(frm) or ('f', -INF, INF, True)
      okf = (not v[3]) and v[1] >= tb[0] and v[2] <= tb[1]
      self.site('fcast', bb, idx, line, f'as {to}', [rv['o']], okf, '' if okf else f'float→{to} cast of {self.show(v)}: NaN becomes 0 and out-of-range values saturate')
      lo = tb[0] if v[1] == -INF else max(tb[0], math.floor(v[1]))
      hi = tb[1] if v[2] == INF else min(tb[1], math.ceil(v[2]))
      if v[3]:
        lo, hi = min(lo, 0), max(hi, 0)
      if lo > hi:
        lo, hi = tb
      return iv(int(lo), int(hi)), None
    if ck == 'IntToFloat':
      if is_int(v):
        lo, hi = float(v[1]), float(v[2])
        return ('f', math.nextafter(lo, -INF), math.nextafter(hi, INF), False), None
      return ('f', -INF, INF, False), None
    if ck == 'FloatToFloat':
      return (v if is_f(v) else top_of(to)), None
    # pointer coercions keep reference identity
    if v is not None and v[0] == 'r':
      return v, None
    return top_of(to), None

  # ---------------------------------------------------------------- transfer: statements

  def step_stmt(self, st, s, bb, idx):
    if 'setdiscr' in s:
      return
    if 'p' not in s:
      return
    p, rv, line = s['p'], s['rv'], s.get('l')
    k = rv['k']
    if k == 'use':
      o = rv['o']
      if 'k' in o:
        self.assign_val(st, p, self.read(st, o))
        self._const_structure(st, p, o['k'])
      else:
        self.assign_copy(st, p, o)
      return
    if k == 'bin':
      val, extra = self.eval_bin(st, rv, bb, idx, line)
      op = rv['op']
      dk = self.key_of_place(st, p)
      if op.endswith('WithOverflow'):
        if dk is None:
          return
        st.kill(dk)
        if val is not None:
          st.m[(dk[0], dk[1] + ('0',))] = val
        okf = extra[1] if extra and extra[0] == 'ovf' else False
        st.m[(dk[0], dk[1] + ('1',))] = iv(0, 0) if okf else iv(0, 1)
        return
      self.assign_val(st, p, val)
      if dk is None:
        return
      base = op.replace('Unchecked', '')
      if base in CMP:
        A, B = self._cmp_side(st, rv['a']), self._cmp_side(st, rv['b'])
        if A and B:
          st.pred[dk] = ('cmp', base, A, B, rv.get('ty') in ('f32', 'f64'))
      elif base == 'Shr':
        ka = self.key_of_operand(st, rv['a'])
        cb = self.read(st, rv['b'])
        if ka is not None and is_int(cb) and cb[1] == cb[2] and 0 <= cb[1] < 128:
          st.pred[dk] = ('shrof', ka, cb[1])
      elif base == 'BitAnd':
        # x & C : remember so that (x & C) == 0 refines x's known-zero bits
        ka, kb = self.key_of_operand(st, rv['a']), self.key_of_operand(st, rv['b'])
        ca, cb = self.read(st, rv['a']), self.read(st, rv['b'])
        if ka is not None and is_int(cb) and cb[1] == cb[2] and cb[1] >= 0:
          st.pred[dk] = ('bitand', ka, cb[1])
        elif kb is not None and is_int(ca) and ca[1] == ca[2] and ca[1] >= 0:
          st.pred[dk] = ('bitand', kb, ca[1])
      return
    if k == 'un':
      v = self.read(st, rv['o'])
      op = rv['op']
      ty = rv.get('ty')
      if op == 'Not':
        if ty == 'bool':
          res = iv(1 - v[2], 1 - v[1]) if is_int(v) else iv(0, 1)
          self.assign_val(st, p, res)
          dk = self.key_of_place(st, p)
          sk = self.key_of_operand(st, rv['o'])
          if dk is not None and sk is not None:
            st.pred[dk] = ('not', sk)
        else:
          self.assign_val(st, p, top_of(ty))
      elif op == 'Neg':
        bnd = ty_bounds(ty) if ty else None
        if bnd and is_int(v):
          okf = v[1] > bnd[0]
          self.site('neg', bb, idx, line, 'Neg', [rv['o']], okf, '' if okf else f'negation of {self.show(v)} can overflow {ty}')
          self.assign_val(st, p, iv(max(-v[2], bnd[0]), min(-v[1], bnd[1])))
        elif is_f(v):
          self.assign_val(st, p, ('f', -v[2], -v[1], v[3]))
        else:
          if bnd:
            self.site('neg', bb, idx, line, 'Neg', [rv['o']], False, 'operand unknown')
          self.assign_val(st, p, top_of(ty))
      elif op == 'PtrMetadata':
        # the length of the slice behind the pointer: the symbolic '#len' of the referent
        sk = self.key_of_operand(st, rv['o'])
        lk = None
        if sk is not None:
          rvv = st.m.get(sk)
          lk = (rvv[1], rvv[2] + ('#len',)) if rvv is not None and rvv[0] == 'r' else (sk[0], sk[1] + ('*', '#len'))
        cur = st.m.get(lk) if lk is not None else None
        if lk is not None and cur is None:
          cur = iv(0, ISIZE_MAX)
          st.m[lk] = cur
        self.assign_val(st, p, cur if cur is not None else iv(0, ISIZE_MAX))
        dk = self.key_of_place(st, p)
        if lk is not None and dk is not None:
          st.copyof[dk] = lk
      else:
        self.assign_val(st, p, top_of(self.place_ty(p)))
      return
    if k == 'cast':
      val, extra = self.eval_cast(st, rv, bb, idx, line)
      self.assign_val(st, p, val)
      dk = self.key_of_place(st, p)
      sk = self.key_of_operand(st, rv['o'])
      if extra == 'castof' and dk is not None and sk is not None and is_int(val):
        st.pred[dk] = ('castof', sk)
      return
    if k in ('ref', 'rawptr'):
      tk = self.key_of_place(st, rv['p'])
      if tk is None:
        self.assign_val(st, p, None)
      else:
        self.assign_val(st, p, ('r', tk[0], tk[1], bool(rv.get('mut')) or k == 'rawptr'))
      return
    if k == 'agg':
      dk = self.key_of_place(st, p)
      if dk is None:
        st.kill((p['l'], ()))
        return
      if self._elem_base(dk) is not None:
        st.kill(self._elem_base(dk))
        return
      vals = []
      for o in rv['ops']:
        if 'k' in o:
          vals.append(('v', self.read(st, o)))
        else:
          sk = self.key_of_operand(st, o)
          vals.append(('t', st.subtree(sk) if sk is not None else {}, self.read(st, o), st.root(sk) if sk is not None else None))
      st.kill(dk)
      pre = dk[1]
      ak = rv['ak']
      if ak == 'adt':
        adt = self.F.adts.get(norm(rv['adt']))
        if adt is not None and adt.get('kind') == 'enum' or rv.get('variant') in ('Some', 'Ok', 'Err', 'None', 'Continue', 'Break'):
          st.m[(dk[0], pre + ('#v',))] = ('v', frozenset([rv['variant']]))  # which variant this value holds
          pre = pre + ('v:' + rv['variant'],)
      if ak in ('adt', 'tuple', 'closure', 'coroutine'):
        for i, x in enumerate(vals):
          base = pre + (str(i),)
          if x[0] == 'v':
            if x[1] is not None:
              st.m[(dk[0], base)] = x[1]
          else:
            for path, v in x[1].items():
              if path != ():
                st.m[(dk[0], base + path)] = v
            if x[2] is not None:
              st.m[(dk[0], base)] = x[2]
              if x[3] is not None and x[3][0] != dk[0] and x[2][0] in ('i', 'f'):
                st.copyof[(dk[0], base)] = x[3]  # the field is a copy of that scalar (keeps relational facts usable)
      elif ak == 'array':
        for i, x in enumerate(vals):
          v = x[1] if x[0] == 'v' else x[2]
          if v is not None:
            st.m[(dk[0], pre + ('[%d]' % i,))] = v
      return
    if k == 'discr':
      self.assign_val(st, p, self._discr_range(rv['p']))
      dk = self.key_of_place(st, p)
      sk = self.key_of_place(st, rv['p'])
      if dk is not None and sk is not None:
        st.pred[dk] = ('discr', sk)
      return
    if k == 'repeat':
      self.assign_val(st, p, None)
      return
    self.assign_val(st, p, top_of(self.place_ty(p)))

  def _discr_range(self, place):
    """range of the discriminant values of a workspace enum (explicit or implicit discriminants)"""
    ty = self.place_ty(place) or ''
    while ty.startswith('&'):
      ty = ty[1:].lstrip()
      if ty.startswith('mut '):
        ty = ty[4:]
    base = ty.split('<')[0]
    adt = self.F.adts.get(base)
    if adt is None or adt.get('kind') != 'enum' or not adt.get('variants'):
      if base in ('std::option::Option', 'std::result::Result', 'std::ops::ControlFlow'):
        return iv(0, 1)
      return None
    ds = [v.get('discr') for v in adt['variants']]
    if any(d is None for d in ds):
      return iv(0, len(ds) - 1) if all(d is None for d in ds) else None
    return iv(min(ds), max(ds))

  def _cmp_side(self, st, o):
    if 'k' in o:
      v = self.read(st, o)
      return ('val', v) if v is not None else None
    k = self.key_of_operand(st, o)
    if k is None:
      v = self.read(st, o)
      return ('val', v) if v is not None else None
    return ('key', k, self.op_ty(o))

  # ---------------------------------------------------------------- transfer: calls

  def havoc_args(self, st, call):
    for a in call.args:
      p = op_place(a)
      if p is None:
        continue
      k = self.key_of_place(st, p)
      ty = self.place_ty(p) or ''
      if k is None:
        continue
      v = st.m.get(k)
      if v is not None and v[0] == 'r':
        if v[3] or ty.startswith('&mut') or ty.startswith('*mut'):
          st.kill((v[1], v[2]))
      elif ty.startswith('&mut') or ty.startswith('*mut'):
        # unknown mutable pointer: the pointee location itself
        st.kill((k[0], k[1] + ('*',)))
        for l in self.mut_borrowed:
          st.kill((l, ()))
      # references stored inside an aggregate argument (closure environments, iterator adaptors)
      for path, sv in list(st.subtree(k).items()):
        if path != () and sv[0] == 'r' and sv[3]:
          st.kill((sv[1], sv[2]))

  def step_call(self, st, call, bb):
    """returns list of (target_bb, state)"""
    from . import models
    dest = call.dest
    if self.record:
      vals = [self.read(st, a) for a in call.args]
      prev = self.call_vals.get(bb)
      self.call_vals[bb] = vals if prev is None else [join_val(x, y) for x, y in zip(prev, vals)]
    res = models.apply(self, st, call, bb)
    if res is models.DIVERGES:
      return []
    # effects on &mut arguments, then the destination
    if res is None or not res.get('pure'):
      self.havoc_args(st, call)
    dk = self.key_of_place(st, dest) if dest is not None else None
    if dest is not None:
      if dk is None:
        st.kill((dest['l'], ()))
      elif self._elem_base(dk) is not None:
        st.kill(self._elem_base(dk))
      else:
        st.kill(dk)
        if res is not None:
          for path, v in (res.get('sub') or {}).items():
            if v is not None:
              st.m[(dk[0], dk[1] + path)] = v
          if res.get('pred') is not None:
            st.pred[dk] = res['pred']
          if res.get('copyof') is not None and res['copyof'] != dk:
            st.copyof[dk] = res['copyof']
    if call.target is None:
      return []
    return [(call.target, st)]

  # ---------------------------------------------------------------- block / fixpoint

  def step_block(self, st, bb):
    """returns list of (succ, state)"""
    blk = self.body.blocks[bb]
    for idx, s in enumerate(blk['s']):
      self.step_stmt(st, s, bb, idx)
    t = blk['t']
    k = t['k']
    if k == 'goto':
      return [(t['t'], st)]
    if k == 'drop':
      return [(t['t'], st)]
    if k == 'return':
      self._ret.setdefault(bb, []).append(st)
      return []
    if k == 'call':
      from .facts import Call
      call = self._callobj(bb)
      return self.step_call(st, call, bb)
    if k == 'assert':
      m = t['msg']
      if m['k'] == 'BoundsCheck':
        ln, ix = self.read(st, m['len']), self.read(st, m['index'])
        okf = is_int(ln) and is_int(ix) and ix[1] >= 0 and ix[2] < ln[1]
        if not okf:
          ki, kl = self.key_of_operand(st, m['index']), self.key_of_operand(st, m['len'])
          if ki is not None and kl is not None and (st.root(ki), st.root(kl)) in st.lt:
            okf = True
        self.site('index', bb, 'T', t.get('l'), 'index', [m['index'], m['len']], okf, '' if okf else f'index {self.show(ix)} not provably < len {self.show(ln)}')
      elif m['k'] == 'Overflow' and m.get('op') in ('Shl', 'Shr'):
        # debug builds: the shift-amount check precedes the shift; it is the panic site
        b = self.read(st, m['b'])
        bits = INT_TYPES.get(self.op_ty(m['a']) or '', (None,))[0]
        okf = bits is not None and is_int(b) and b[1] >= 0 and b[2] < bits
        self.site('shift', bb, 'T', t.get('l'), m['op'], [m['a'], m['b']], okf, '' if okf else f'shift amount {self.show(b)} is not provably < {bits}')
      elif m['k'] in ('DivisionByZero', 'RemainderByZero'):
        opn, ops = self._div_operands(t, m)
        dv = self.read(st, ops[1]) if isinstance(ops[1], dict) else None
        okf = is_int(dv) and (dv[1] > 0 or dv[2] < 0)
        self.site('div', bb, 'T', t.get('l'), opn, ops, okf, '' if okf else f'divisor {self.show(dv)} may be zero')
      elif m['k'] == 'OverflowNeg':
        v = self.read(st, m['a'])
        bnd = ty_bounds(self.op_ty(m['a']) or '')
        okf = bnd is not None and is_int(v) and v[1] > bnd[0]
        self.site('neg', bb, 'T', t.get('l'), 'Neg', [m['a']], okf, '' if okf else f'negation of {self.show(v)} can overflow')
      elif m['k'] == 'Overflow' and m.get('op') in ('Div', 'Rem'):
        a, b = self.read(st, m['a']), self.read(st, m['b'])
        bnd = ty_bounds(self.op_ty(m['a']) or '')
        okf = bnd is not None and is_int(a) and is_int(b) and (a[1] > bnd[0] or b[1] > -1 or b[2] < -1)
        self.site('div', bb, 'T', t.get('l'), m['op'] + '-overflow', [m['a'], m['b']], okf, '' if okf else 'MIN / -1 possible')
      ck = self.key_of_operand(st, t['c'])
      if ck is not None:
        if not self.assume(st, ck, bool(t['exp'])):
          return []
      else:
        v = self.read(st, t['c'])
        if is_int(v) and v[1] == v[2] and bool(v[1]) != bool(t['exp']):
          return []
      return [(t['t'], st)]
    if k == 'switch':
      return self.step_switch(st, t, bb)
    if k == 'yield':
      return [(t['t'], st)]
    return []

  def _div_operands(self, t, m):
    """the Div/Rem rvalue guarded by a DivisionByZero / RemainderByZero assert (first statement of the target block)"""
    want = 'Div' if m['k'] == 'DivisionByZero' else 'Rem'
    seen = 0
    tb = t['t']
    while tb is not None and seen < 3:
      for s in self.body.blocks[tb]['s']:
        rv = s.get('rv')
        if rv and rv['k'] == 'bin' and rv['op'] == want and op_place(rv['a']) == op_place(m['a']) and rv['a'].get('k') == m['a'].get('k'):
          return want, [rv['a'], rv['b']]
      nt = self.body.blocks[tb]['t']
      tb = nt.get('t') if nt['k'] == 'assert' else None
      seen += 1
    return want, [m['a'], '?']

  def _callobj(self, bb):
    for c in self.body.calls:
      if c.bb == bb:
        return c
    from .facts import Call
    return Call(self.body, bb, self.body.blocks[bb]['t'])

  def step_switch(self, st, t, bb):
    d = t['d']
    dty = t.get('dty')
    dv = self.read(st, d)
    dk = self.key_of_operand(st, d)
    out = []
    vals = t['vals']
    taken = []
    for v, tgt in vals:
      if is_int(dv) and not (dv[1] <= v <= dv[2]):
        continue
      s2 = st.clone()
      ok = True
      if dk is not None:
        if dty == 'bool':
          ok = self.assume(s2, dk, bool(v))
        else:
          ok = self.refine(s2, dk, lo=v, hi=v, ty=dty)
      if ok:
        out.append((tgt, s2))
      taken.append(v)
    # otherwise edge
    if not self.body._is_unreachable(t['o']):
      s2 = st.clone()
      ok = True
      allv = [v for v, _ in vals]
      if is_int(dv):
        lo, hi = dv[1], dv[2]
        # trim endpoints covered by explicit values
        sv = set(allv)
        while lo in sv and lo <= hi:
          lo += 1
        while hi in sv and hi >= lo:
          hi -= 1
        if lo > hi:
          ok = False
        elif dk is not None:
          if dty == 'bool':
            ok = self.assume(s2, dk, True) if allv == [0] else True
          else:
            ok = self.refine(s2, dk, lo=lo, hi=hi, ty=dty)
      elif dk is not None and dty == 'bool' and allv == [0]:
        ok = self.assume(s2, dk, True)
      if ok:
        out.append((t['o'], s2))
    return out

  def run(self):
    body = self.body
    self._ret = {}
    want_record = self.record
    self.record = False
    rpo = body._rpo()
    order = {b: i for i, b in enumerate(rpo)}
    dom = body.dominators()
    loop_heads = set()
    for u in rpo:
      for v in body.succ(u):
        if v in dom.get(u, ()):  # back edge
          loop_heads.add(v)
    self.loop_heads = loop_heads
    preds = body.preds()
    self.ins = {0: [self.init.clone()]}
    visits = defaultdict(int)
    work = {0}
    narrowing_budget = defaultdict(lambda: 2)
    steps = 0
    cap = max(1, self.eng.partition)
    while work and steps < 20000:
      steps += 1
      bb = min(work, key=lambda b: order.get(b, 1 << 30))
      work.discard(bb)
      states = self.ins.get(bb) or []
      outs = defaultdict(list)
      for s in states:
        for tgt, ns in self.step_block(s.clone(), bb):
          outs[tgt].append(ns)
      for v in body.succ(bb):
        new = outs.get(v, [])
        old = self.edge.get((bb, v))
        if old is not None and len(old) == len(new) and all(a.same(b) for a, b in zip(old, new)):
          continue
        self.edge[(bb, v)] = new
        incoming = []
        for u in preds.get(v, []):
          incoming.extend(self.edge.get((u, v), []))
        if v == 0:
          incoming.append(self.init.clone())
        if v in loop_heads:
          j = None
          for s in incoming:
            j = join_state(j, s)
          oldin = (self.ins.get(v) or [None])[0]
          visits[v] += 1
          if j is None:
            newin = []
          elif oldin is None or visits[v] <= 3:
            newin = [j]
          elif self._leq(j, oldin):
            if narrowing_budget[v] > 0 and not j.same(oldin):
              narrowing_budget[v] -= 1
              newin = [j]
            else:
              newin = [oldin]
          else:
            newin = [widen_state(oldin, j, self.thresholds)]
        else:
          newin = self._pack(incoming, cap)
        oldl = self.ins.get(v)
        if oldl is not None and len(oldl) == len(newin) and all(a.same(b) for a, b in zip(oldl, newin)):
          continue
        self.ins[v] = newin
        work.add(v)
    self.steps = steps
    self.converged = not work
    # final pass over the fixpoint: collect return states and (if requested) the sites
    self.record = want_record
    self._ret = {}
    self.sites = {}
    self.callctx = []
    self.call_vals = {}
    for bb in rpo:
      for s in self.ins.get(bb) or []:
        self.step_block(s.clone(), bb)

  def _leq(self, a, b):
    """a ⊑ b on the value maps (every bound of b is implied by a)"""
    for k, vb in b.m.items():
      va = a.m.get(k)
      if va is None:
        return False
      if va[0] != vb[0]:
        return False
      if va[0] == 'i' and not (vb[1] <= va[1] and va[2] <= vb[2]):
        return False
      if va[0] == 'f' and not (vb[1] <= va[1] and va[2] <= vb[2] and (vb[3] or not va[3])):
        return False
      if va[0] == 'r' and va != vb:
        return False
      if va[0] == 'v' and not va[1] <= vb[1]:
        return False
    for k, v in b.copyof.items():
      if a.copyof.get(k) != v:
        return False
    for k, v in b.pred.items():
      if a.pred.get(k) != v:
        return False
    if not b.lt <= a.lt:
      return False
    return True

  def _pack(self, states, cap):
    if not states:
      return []
    if cap <= 1:
      j = None
      for s in states:
        j = join_state(j, s)
      return [j]
    uniq = []
    for s in states:
      if not any(s.same(u) for u in uniq):
        uniq.append(s)
    if len(uniq) > cap:
      j = None
      for s in uniq:
        j = join_state(j, s)
      return [j]
    return uniq

  def out_states(self, bb):
    return self._ret.get(bb, [])

  def all_sites(self):
    return sorted(self.sites.values(), key=lambda s: (s.bb, str(s.kind), s.desc))
