"""Fact extraction: run the ordfacts driver over /repo's current working tree.

Facts are keyed by a digest of every build input under /repo; extraction is
re-done whenever the digest differs from the one stored next to the facts.
"""
import fcntl
import hashlib
import json
import os
import shutil
import subprocess
import sys
import time

VERIF = os.path.dirname(os.path.dirname(os.path.abspath(__file__)))
REPO = os.environ.get("ORDVERIF_REPO", "/repo")
WORK = os.environ.get("ORDVERIF_WORK", os.path.join(VERIF, ".work"))
DRIVER = os.path.join(VERIF, "driver", "target", "release", "ordfacts")
CRATES = ["ordinals", "ord"]
KINDS = ["mir", "hir", "adt", "const", "meta"]

DIGEST_DIRS = ["src", "crates", "templates", "static", "tests", "fuzz/fuzz_targets"]
DIGEST_FILES = ["Cargo.toml", "Cargo.lock", "build.rs", "rust-toolchain", "rust-toolchain.toml"]


def source_digest(repo=None):
  repo = repo or REPO
  h = hashlib.sha256()
  paths = []
  for d in DIGEST_DIRS:
    root = os.path.join(repo, d)
    for dp, dn, fn in os.walk(root):
      dn[:] = sorted(x for x in dn if x not in ("target", ".git"))
      for f in sorted(fn):
        paths.append(os.path.join(dp, f))
  for f in DIGEST_FILES:
    p = os.path.join(repo, f)
    if os.path.exists(p):
      paths.append(p)
  for p in paths:
    h.update(os.path.relpath(p, repo).encode())
    h.update(b"\0")
    try:
      with open(p, "rb") as fh:
        h.update(hashlib.sha256(fh.read()).digest())
    except OSError:
      h.update(b"?")
  # the driver itself is part of the key
  try:
    with open(DRIVER, "rb") as fh:
      h.update(hashlib.sha256(fh.read()).digest())
  except OSError:
    h.update(b"nodriver")
  return h.hexdigest()


def sysroot():
  return subprocess.check_output(["rustc", "+nightly", "--print", "sysroot"], text=True).strip()


def build_driver():
  if os.path.exists(DRIVER):
    src = os.path.join(VERIF, "driver", "src", "main.rs")
    if os.path.getmtime(src) <= os.path.getmtime(DRIVER):
      return
  env = dict(os.environ, CARGO_NET_OFFLINE="true")
  r = subprocess.run(["cargo", "build", "--release", "--offline"], cwd=os.path.join(VERIF, "driver"),
                     env=env, stdout=subprocess.PIPE, stderr=subprocess.STDOUT, text=True)
  if r.returncode != 0:
    sys.stderr.write(r.stdout)
    raise SystemExit(2)


def facts_dir(config="dev", repo=None):
  repo = repo or REPO
  tag = config if repo == "/repo" else config + "-" + hashlib.sha1(repo.encode()).hexdigest()[:10]
  return os.path.join(WORK, "facts", tag)


def ensure_facts(config="dev", repo=None, quiet=False):
  """Returns (facts_dir, digest, extracted_now: bool, seconds)."""
  repo = repo or REPO
  os.makedirs(WORK, exist_ok=True)
  build_driver()
  out = facts_dir(config, repo)
  os.makedirs(out, exist_ok=True)
  lock = open(os.path.join(WORK, "extract.lock"), "w")
  fcntl.flock(lock, fcntl.LOCK_EX)
  try:
    digest = source_digest(repo)
    stamp = os.path.join(out, "DIGEST")
    if os.path.exists(stamp) and open(stamp).read().strip() == digest and all(
        os.path.exists(os.path.join(out, f"{c}.{k}.jsonl")) for c in CRATES for k in KINDS):
      return out, digest, False, 0.0
    t0 = time.time()
    if os.path.exists(stamp):
      os.remove(stamp)
    for c in CRATES:
      for k in KINDS:
        p = os.path.join(out, f"{c}.{k}.jsonl")
        if os.path.exists(p):
          os.remove(p)
    target = os.path.join(WORK, "target")
    fp = os.path.join(target, "debug", ".fingerprint")
    if os.path.isdir(fp):
      for d in os.listdir(fp):
        if d.startswith("ord-") or d.startswith("ordinals-"):
          shutil.rmtree(os.path.join(fp, d), ignore_errors=True)
    env = dict(os.environ)
    env.update({
        "CARGO_NET_OFFLINE": "true",
        "CARGO_TARGET_DIR": target,
        "LD_LIBRARY_PATH": os.path.join(sysroot(), "lib") + ":" + env.get("LD_LIBRARY_PATH", ""),
        "RUSTC_WORKSPACE_WRAPPER": DRIVER,
        "ORDFACTS_OUT": out,
    })
    env.pop("RUSTFLAGS", None)
    if config == "release":
      env["ORDFACTS_RELEASE"] = "1"
    else:
      env.pop("ORDFACTS_RELEASE", None)
    cmd = ["cargo", "+nightly", "check", "--offline", "-p", "ord", "-p", "ordinals", "--lib"]
    r = subprocess.run(cmd, cwd=repo, env=env, stdout=subprocess.PIPE, stderr=subprocess.STDOUT, text=True)
    if r.returncode != 0:
      sys.stderr.write(r.stdout[-6000:])
      sys.stderr.write("\nordverif: /repo does not compile under the fact extractor; no verdict\n")
      raise SystemExit(2)
    for c in CRATES:
      for k in KINDS:
        p = os.path.join(out, f"{c}.{k}.jsonl")
        if not os.path.exists(p) or os.path.getmtime(p) < t0 - 1:
          sys.stderr.write(f"ordverif: fact file {p} was not rewritten by this extraction\n")
          sys.stderr.write(r.stdout[-3000:])
          raise SystemExit(2)
    # the digest must not have changed while we were extracting
    if source_digest(repo) != digest:
      sys.stderr.write("ordverif: sources changed during extraction\n")
      raise SystemExit(2)
    with open(stamp, "w") as fh:
      fh.write(digest)
    dt = time.time() - t0
    if not quiet:
      sys.stderr.write(f"ordverif: extracted facts ({config}) in {dt:.1f}s -> {out}\n")
    return out, digest, True, dt
  finally:
    fcntl.flock(lock, fcntl.LOCK_UN)
    lock.close()


if __name__ == "__main__":
  cfg = sys.argv[1] if len(sys.argv) > 1 else "dev"
  print(json.dumps(ensure_facts(cfg)))
