"""Affine value numbering over one MIR body (static dataflow, no execution, no solver).

Domain  : every scalar place holds an affine expression  c0 + sum(ci * sym_i)  over symbols that
          name opaque definitions of *this iteration* of the enclosing loops:
            ('init', place)      value of the place at function entry
            ('call', bb)         value returned by the call terminating block bb
            ('pure', fn, args)   value of a whitelisted pure call (same args => same symbol)
            ('def', bb, i)       an opaque rvalue
            ('phi', bb, place)   value at a merge point where the incoming values differ
            ('f', sym, path)     field `path` of the compound value sym
            ('variant', name)    discriminant token of an enum aggregate
          compound places are stored per leaf; a read of `x.0` when only `x` is known yields
          ('f', sym(x), (.0,)).
Paths   : inside a loop body the state is a *list* of alternatives (one per acyclic path, capped);
          alternatives are merged (phi) only at loop heads and when the cap is exceeded.  Values
          that mention a symbol defined inside a loop never survive that loop's head: they are
          replaced by the head's phi, so equalities are only ever claimed within one iteration.
Result  : Analysis.at_term(bb) -> list of State reaching the terminator of bb; State.val(place)
          -> Aff; State.guards -> comparison facts established on the path since the last merge.
The rule modules state obligations as equalities between Aff values at anchored call sites.
"""
from collections import defaultdict

CAP = 48

PURE = ('bitcoin::Amount::to_sat', 'ordinals::sat::Sat::n', 'bitcoin_units::Amount::to_sat')


class Aff:
  __slots__ = ('c', 't', '_h')

  def __init__(self, c=0, t=()):
    self.c = c
    self.t = tuple(sorted(((s, k) for s, k in t if k != 0), key=repr))
    self._h = hash((self.c, self.t))

  @staticmethod
  def sym(s):
    return Aff(0, ((s, 1),))

  @staticmethod
  def const(c):
    return Aff(int(c), ())

  def __hash__(self):
    return self._h

  def __eq__(self, o):
    return isinstance(o, Aff) and self.c == o.c and self.t == o.t

  def _comb(self, o, sign):
    d = defaultdict(int)
    for s, k in self.t:
      d[s] += k
    for s, k in o.t:
      d[s] += sign * k
    return Aff(self.c + sign * o.c, d.items())

  def __add__(self, o):
    return self._comb(o, 1)

  def __sub__(self, o):
    return self._comb(o, -1)

  def scale(self, k):
    return Aff(self.c * k, ((s, c * k) for s, c in self.t))

  def is_const(self):
    return not self.t

  def single(self):
    """the symbol if this is exactly one symbol with coefficient 1 and no constant"""
    if self.c == 0 and len(self.t) == 1 and self.t[0][1] == 1:
      return self.t[0][0]
    return None

  def syms(self):
    out = set()
    for s, _ in self.t:
      _collect(s, out)
    return out

  def __repr__(self):
    parts = []
    for s, k in self.t:
      parts.append(('' if k == 1 else '-' if k == -1 else f'{k}*') + _sname(s))
    if self.c or not parts:
      parts.append(str(self.c))
    return ' + '.join(parts).replace('+ -', '- ')


def _collect(s, out):
  out.add(s)
  if isinstance(s, tuple):
    if s[0] == 'f':
      _collect(s[1], out)
    elif s[0] == 'pure':
      for a in s[2]:
        if isinstance(a, Aff):
          out |= a.syms()


def _sname(s):
  if not isinstance(s, tuple):
    return str(s)
  if s[0] == 'f':
    return _sname(s[1]) + ''.join(_pe(e) for e in s[2])
  if s[0] == 'init':
    return 'init(' + _kname(s[1]) + ')'
  if s[0] == 'phi':
    return f'phi{s[1]}(' + _kname(s[2]) + ')'
  if s[0] == 'call':
    return f'call@bb{s[1]}'
  if s[0] == 'pure':
    return s[1].split('::')[-1] + '(' + ', '.join(map(repr, s[2])) + ')'
  if s[0] == 'variant':
    return '#' + s[1]
  return str(s)


def _pe(e):
  if e == '*':
    return '.*'
  if e[0] == 'f':
    return f'.{e[1]}'
  if e[0] == 'v':
    return f'@{e[1]}'
  return '[]'


def _kname(k):
  return f'_{k[0]}' + ''.join(_pe(e) for e in k[1])


def pkey(p):
  out = []
  for e in p.get('p') or []:
    if e == '*':
      out.append('*')
    elif isinstance(e, dict) and 'f' in e:
      out.append(('f', e['f']))
    elif isinstance(e, dict) and 'v' in e:
      out.append(('v', e['v']))
    elif isinstance(e, dict) and 'i' in e:
      out.append(('i', e['i']))
    else:
      out.append(('?',))
  return (p['l'], tuple(out))


DISCR = ('#d',)


class State:
  __slots__ = ('m', 'ref', 'cmp', 'guards', '_fz')

  def __init__(self, m=None, ref=None, cmp=None, guards=()):
    self.m = m if m is not None else {}
    self.ref = ref if ref is not None else {}
    self.cmp = cmp if cmp is not None else {}
    self.guards = guards
    self._fz = None

  def copy(self):
    return State(dict(self.m), dict(self.ref), dict(self.cmp), self.guards)

  def frozen(self):
    # states are never mutated once they sit in an in/out list (the transfer works on copies), so the key is computed once
    if self._fz is None:
      self._fz = (frozenset(self.m.items()), frozenset(self.ref.items()), frozenset(self.cmp.items()), self.guards)
    return self._fz

  # ---------------------------------------------------------------- places
  def resolve(self, key):
    """follow a leading deref through a tracked reference"""
    l, pr = key
    seen = 0
    while pr and pr[0] == '*' and l in self.ref and seen < 8:
      tgt = self.ref[l]
      if len(tgt) != 1:
        break
      (tk, _mut), = tuple(tgt)
      l, pr = tk[0], tk[1] + pr[1:]
      seen += 1
    return (l, pr)

  def val(self, key):
    key = self.resolve(key)
    v = self.m.get(key)
    if v is not None:
      return v
    l, pr = key
    for n in range(len(pr) - 1, -1, -1):
      v = self.m.get((l, pr[:n]))
      if v is not None:
        s = v.single()
        if s is None:
          return Aff.sym(('opaque', key))
        return Aff.sym(_fsym(s, pr[n:]))
    return Aff.sym(('init', key))

  def subtree(self, key):
    key = self.resolve(key)
    l, pr = key
    n = len(pr)
    return {k[1][n:]: v for k, v in self.m.items() if k[0] == l and k[1][:n] == pr}

  def kill(self, key, fresh):
    key = self.resolve(key)
    l, pr = key
    n = len(pr)
    for k in [k for k in self.m if k[0] == l and k[1][:n] == pr]:
      del self.m[k]
    for k in [k for k in self.cmp if k[0] == l and k[1][:n] == pr]:
      del self.cmp[k]
    if fresh is not None:
      self.m[key] = fresh
    if not pr:
      self.ref.pop(l, None)

  def assign_tree(self, key, tree, default):
    """tree: {suffix: Aff}; empty tree -> default single value"""
    self.kill(key, None)
    key = self.resolve(key)
    if not tree:
      self.m[key] = default
      return
    for suf, v in tree.items():
      self.m[(key[0], key[1] + suf)] = v


def _fsym(s, path):
  if isinstance(s, tuple) and s[0] == 'f':
    return ('f', s[1], s[2] + tuple(path))
  return ('f', s, tuple(path))


class Analysis:
  def __init__(self, body, cap=CAP, adts=None):
    self.b = body
    self.cap = cap
    self.adts = adts or {}
    self.reach = body.reachable_from(0)
    self.preds = body.preds()
    self.order = [x for x in body._rpo() if x in self.reach]
    self.dom = body.dominators()
    self.heads = {}
    for u in self.reach:
      for v in body.succ(u):
        if v in self.dom.get(u, ()):
          self.heads.setdefault(v, set()).add(u)
    self.loop = {}
    for h, tails in self.heads.items():
      nodes = {h}
      st = list(tails)
      while st:
        x = st.pop()
        if x in nodes:
          continue
        nodes.add(x)
        st.extend(self.preds.get(x, ()))
      self.loop[h] = nodes
    self.fnames = {}      # projection path (as in pkey) -> tuple of field names, for reporting and name-based queries
    for blk in body.blocks:
      for st_ in blk['s']:
        self._note_names(st_.get('p'))
        rv = st_.get('rv') or {}
        for o in [rv.get('o'), rv.get('a'), rv.get('b')] + list(rv.get('ops') or []):
          if o:
            self._note_names(o.get('c') or o.get('m'))
        self._note_names(rv.get('p'))
      t = blk['t']
      for o in [t.get('d') if t['k'] == 'switch' else None] + list(t.get('args') or []):
        if isinstance(o, dict):
          self._note_names(o.get('c') or o.get('m'))
    self.symdef = {}      # symbol -> bb where it is defined (for loop scoping)
    self.ins = {}
    self.outs = {}        # bb -> {succ: [State]}
    self.term_states = {}
    self.collapsed = set()
    self._entry_sig = {}
    self._sticky = {}
    self._run()

  def _note_names(self, p):
    if not isinstance(p, dict) or not p.get('p'):
      return
    path = pkey(p)[1]
    names = tuple(e.get('n', e.get('f')) if isinstance(e, dict) and 'f' in e else None for e in p['p'])
    keep = [i for i, e in enumerate(path) if e != '*']
    path = tuple(path[i] for i in keep)
    names = tuple(names[i] for i in keep)
    for n in range(1, len(path) + 1):
      self.fnames.setdefault(path[-n:], set()).add(tuple(x for x in names[-n:] if x is not None))

  def field_names(self, aff):
    """field names along the path of a single-symbol value (('f', base, path)), or ()"""
    sy = aff.single() if isinstance(aff, Aff) else None
    if isinstance(sy, tuple) and sy[0] == 'f':
      path = sy[2]
      base = sy[1]
      if isinstance(base, tuple) and base[0] in ('phi', 'init'):
        path = base[-1][1] + path
    elif isinstance(sy, tuple) and sy[0] in ('phi', 'init'):
      path = sy[-1][1]
    else:
      return ()
    path = tuple(e for e in path if e != '*')
    path = tuple(e for e in path if e != '#d' and e != '#len')
    out = set()
    for n in range(1, len(path) + 1):
      for names in self.fnames.get(path[-n:], ()):
        out |= set(map(str, names))
    return tuple(sorted(out))

  # ---------------------------------------------------------------- operands
  def _opv(self, st, o):
    if 'k' in o:
      k = o['k']
      v = k.get('v')
      if isinstance(v, bool):
        return Aff.const(int(v))
      if isinstance(v, int):
        return Aff.const(v)
      return Aff.sym(('const', repr(v) if not isinstance(v, (str, type(None))) else v, k.get('def') or k.get('fn') or k.get('ty')))
    p = o.get('c') or o.get('m')
    return st.val(pkey(p))

  def _optree(self, st, o):
    if 'k' in o:
      return {}, self._opv(st, o)
    p = o.get('c') or o.get('m')
    k = pkey(p)
    return st.subtree(k), st.val(k)

  def _fresh(self, bb, tag):
    s = (tag[0], bb) + tuple(tag[1:])
    self.symdef[s] = bb
    return Aff.sym(s)

  # ---------------------------------------------------------------- transfer
  def _stmt(self, st, bb, i, s):
    if 'p' not in s or 'rv' not in s:
      return
    dst = pkey(s['p'])
    rv = s['rv']
    k = rv['k']
    if k == 'use':
      tree, v = self._optree(st, rv['o'])
      src = rv['o'].get('c') or rv['o'].get('m')
      r = st.ref.get(src['l']) if src and not src.get('p') else None
      c = st.cmp.get(st.resolve(pkey(src))) if src else None
      st.assign_tree(dst, tree, v)
      if not dst[1]:
        if r is not None:
          st.ref[dst[0]] = r
      if c is not None:
        st.cmp[st.resolve(dst)] = c
      return
    if k == 'ref':
      tgt = st.resolve(pkey(rv['p']))
      st.kill(dst, self._fresh(bb, ('def', i)))
      if not dst[1]:
        # reborrow of *x where x is a tracked ref: resolve() already followed it
        st.ref[dst[0]] = frozenset({(tgt, bool(rv.get('mut')))})
      return
    if k == 'bin':
      op = rv['op']
      a = self._opv(st, rv['a'])
      b = self._opv(st, rv['b'])
      base = op.replace('WithOverflow', '').replace('Unchecked', '')
      res = None
      if base == 'Add':
        res = a + b
      elif base == 'Sub':
        res = a - b
      elif base == 'Mul' and (a.is_const() or b.is_const()):
        res = b.scale(a.c) if a.is_const() else a.scale(b.c)
      if op.endswith('WithOverflow'):
        st.kill(dst, None)
        d = st.resolve(dst)
        st.m[(d[0], d[1] + (('f', 0),))] = res if res is not None else self._fresh(bb, ('def', i))
        st.m[(d[0], d[1] + (('f', 1),))] = self._fresh(bb, ('def', i, 'ovf'))
        return
      if res is not None:
        st.assign_tree(dst, {}, res)
        return
      st.assign_tree(dst, {}, self._fresh(bb, ('def', i)))
      if base in ('Gt', 'Ge', 'Lt', 'Le', 'Eq', 'Ne'):
        st.cmp[st.resolve(dst)] = (base, a, b)
      return
    if k == 'un':
      v = self._opv(st, rv['o'])
      src = rv['o'].get('c') or rv['o'].get('m')
      c = st.cmp.get(st.resolve(pkey(src))) if src else None
      if rv['op'] == 'Neg':
        st.assign_tree(dst, {}, Aff.const(0) - v)
        return
      st.assign_tree(dst, {}, self._fresh(bb, ('def', i)))
      if rv['op'] == 'Not' and c is not None:
        st.cmp[st.resolve(dst)] = (_NEG[c[0]], c[1], c[2])
      return
    if k == 'cast':
      # integer widening keeps the value; anything else is opaque but deterministic in its operand
      v = self._opv(st, rv['o'])
      ck = rv.get('ck', '')
      if ck in ('IntToInt',) and _widening(self.b, rv):
        st.assign_tree(dst, {}, v)
      elif ck.startswith('PointerCoercion') or ck == 'Transmute' or ck == 'PtrToPtr':
        tree, v = self._optree(st, rv['o'])
        src = rv['o'].get('c') or rv['o'].get('m')
        r = st.ref.get(src['l']) if src and not src.get('p') else None
        st.assign_tree(dst, tree, v)
        if r is not None and not dst[1]:
          st.ref[dst[0]] = r
      else:
        st.assign_tree(dst, {}, Aff.sym(('cast', rv.get('ty'), v)))
      return
    if k == 'discr':
      st.assign_tree(dst, {}, st.val(_sub(st.resolve(pkey(rv['p'])), DISCR)))
      pty = rv['p'].get('ty') if rv['p'].get('p') else self.b.local_ty(rv['p']['l'])
      st.cmp[st.resolve(dst)] = ('discr', st.resolve(pkey(rv['p'])), pty)
      return
    if k == 'agg':
      st.kill(dst, None)
      d = st.resolve(dst)
      ak = rv.get('ak')
      pre = d[1]
      refs = set()
      if ak == 'adt' and rv.get('variant') is not None and _is_enum(rv):
        st.m[(d[0], pre + DISCR)] = Aff.sym(('variant', rv['variant']))
        pre = pre + (('v', rv['variant']),)
      for idx, o in enumerate(rv.get('ops', [])):
        tree, v = self._optree(st, o)
        src = o.get('c') or o.get('m')
        if src and not src.get('p') and src['l'] in st.ref:
          refs |= set(st.ref[src['l']])
        base = pre + (('f', idx),)
        if tree:
          for suf, tv in tree.items():
            st.m[(d[0], base + suf)] = tv
        else:
          st.m[(d[0], base)] = v
      if not rv.get('ops'):
        st.m.setdefault((d[0], pre), self._fresh(bb, ('def', i)))
      if refs and not d[1]:
        st.ref[d[0]] = frozenset(refs)
      return
    st.kill(dst, self._fresh(bb, ('def', i)))

  def _call(self, st, bb, t):
    from .facts import norm
    fn = norm(t['f'].get('res') or t['f'].get('fn') or '?')
    args = t['args']
    dst = pkey(t['d']) if t.get('d') else None
    # effects through &mut arguments
    def mut_targets(o):
      src = o.get('c') or o.get('m')
      if not src or src.get('p'):
        return []
      return [tk for tk, m in st.ref.get(src['l'], ()) if m]
    if fn == 'std::option::Option::take' and len(args) == 1:
      tg = mut_targets(args[0])
      if len(tg) == 1 and dst is not None:
        tree = st.subtree(tg[0])
        v = st.val(tg[0])
        st.assign_tree(dst, dict(tree), v)
        st.kill(tg[0], None)
        r = st.resolve(tg[0])
        st.m[(r[0], r[1] + DISCR)] = Aff.sym(('variant', 'None'))
        return
    if fn in ('std::option::Option::unwrap_or_else', 'std::option::Option::unwrap_or', 'std::option::Option::unwrap', 'std::option::Option::expect') and dst is not None:
      src = args[0].get('c') or args[0].get('m')
      if src:
        k = pkey(src)
        d = st.m.get(_sub(st.resolve(k), DISCR))
        if d == Aff.sym(('variant', 'Some')):
          inner = _sub(st.resolve(k), (('v', 'Some'), ('f', 0)))
          st.assign_tree(dst, st.subtree(inner), st.val(inner))
          return
    LEN = ('#len',)
    def ref_target(o):
      src = o.get('c') or o.get('m')
      if not src or src.get('p'):
        return None
      tg = [tk for tk, m in st.ref.get(src['l'], ())]
      return tg[0] if len(tg) == 1 else None
    if dst is not None and fn in ('std::vec::Vec::len', 'core::slice::<impl [T]>::len') and len(args) == 1:
      tg = ref_target(args[0])
      if tg is not None:
        st.assign_tree(dst, {}, st.val(_sub(st.resolve(tg), LEN)))
        return
    if fn == 'std::vec::Vec::push' and len(args) == 2:
      tg = ref_target(args[0])
      if tg is not None:
        k = _sub(st.resolve(tg), LEN)
        st.m[k] = st.val(k) + Aff.const(1)
        if dst is not None:
          st.kill(dst, self._fresh(bb, ('call',)))
        return
    if dst is not None and len(args) == 1 and (fn.endswith('TryFrom>::try_from') or fn.endswith('TryInto>::try_into') or fn.endswith('::try_from') and 'convert::num' in fn):
      v = self._opv(st, args[0])
      st.kill(dst, None)
      d = st.resolve(dst)
      st.m[(d[0], d[1] + DISCR)] = self._fresh(bb, ('call', 'd'))
      st.m[(d[0], d[1] + (('v', 'Ok'), ('f', 0)))] = v
      return
    if dst is not None and fn in ('std::result::Result::unwrap', 'std::result::Result::expect', 'std::option::Option::unwrap', 'std::option::Option::expect') and args:
      src = args[0].get('c') or args[0].get('m')
      if src:
        k = st.resolve(pkey(src))
        inner = _sub(k, (('v', 'Ok' if 'Result' in fn else 'Some'), ('f', 0)))
        sub = st.subtree(inner)
        if sub:
          st.assign_tree(dst, sub, st.val(inner))
          return
    if dst is not None and fn.endswith('bool>::then_some') and len(args) == 2:
      tree, v = self._optree(st, args[1])
      st.kill(dst, None)
      d = st.resolve(dst)
      src = args[0].get('c') or args[0].get('m')
      c = st.cmp.get(st.resolve(pkey(src))) if src else None
      st.m[(d[0], d[1] + DISCR)] = Aff.sym(('then_some', c)) if c is not None else self._fresh(bb, ('call', 'd'))
      base = d[1] + (('v', 'Some'), ('f', 0))
      if tree:
        for suf, tv in tree.items():
          st.m[(d[0], base + suf)] = tv
      else:
        st.m[(d[0], base)] = v
      return
    killed = []
    for a in args:
      killed += mut_targets(a)
    # a callee that receives `&mut c` where c is a closure (or any aggregate) holding `&mut x` may write x as well
    seen_k = set(killed)
    work = list(killed)
    while work:
      tk = work.pop()
      if not tk[1] and tk[0] in st.ref:
        for tk2, m in st.ref[tk[0]]:
          if m and tk2 not in seen_k:
            seen_k.add(tk2)
            killed.append(tk2)
            work.append(tk2)
    # a closure / aggregate passed by value carries its captured `&mut` places with it
    for a in args:
      src_ = a.get('c') or a.get('m')
      if src_ and not src_.get('p') and src_['l'] in st.ref and len(st.ref[src_['l']]) > 1:
        for tk2, m in st.ref[src_['l']]:
          if m and tk2 not in seen_k:
            seen_k.add(tk2)
            killed.append(tk2)
    if dst is not None:
      if fn in PURE and not killed:
        s = ('pure', fn, tuple(self._opv(st, a) for a in args))
        ins = set()
        for a in s[2]:
          ins |= a.syms()
        inner = [self.symdef[x] for x in ins if x in self.symdef]
        if inner:
          self.symdef[s] = inner[0]
        st.assign_tree(dst, {}, Aff.sym(s))
      else:
        st.kill(dst, self._fresh(bb, ('call',)))
    for n, tk in enumerate(killed):
      st.kill(tk, self._fresh(bb, ('callmut', n)))

  # ---------------------------------------------------------------- edges
  def _edges(self, st, bb):
    t = self.b.blocks[bb]['t']
    k = t['k']
    succ = self.b.succ(bb)
    if k == 'switch':
      src = t['d'].get('c') or t['d'].get('m')
      c = st.cmp.get(st.resolve(pkey(src))) if src else None
      out = []
      for lab, tgt in self.b.switch_edges(bb):
        if tgt not in succ:
          continue
        s2 = st.copy()
        if c is not None and c[0] == 'discr' and self._enum_variants(c[2]) is not None and _variant_name(self.b, c[1], 0) is None:
          vs = self._enum_variants(c[2])
          dv = s2.val(_sub(c[1], DISCR))
          if lab != 'otherwise':
            gl = [('Eq', dv, Aff.sym(('variant', vs.get(lab, f'#{lab}'))))]
          else:
            gl = [('Ne', dv, Aff.sym(('variant', vs.get(v, f'#{v}')))) for v, _ in t['vals']]
          bad = False
          for g in gl:
            if (_NEG[g[0]], g[1], g[2]) in s2.guards:
              bad = True
            if g[0] == 'Eq' and any(h[0] == 'Eq' and h[1] == g[1] and h[2] != g[2] and h[2].single() and h[2].single()[0] == 'variant' for h in s2.guards):
              bad = True
          if bad:
            continue
          for g in gl:
            if g not in s2.guards:
              s2.guards = s2.guards + (g,)
        elif c is not None and c[0] == 'discr':
          if lab != 'otherwise':
            nm = _variant_name(self.b, c[1], lab)
            if nm is not None:
              cur = s2.m.get(_sub(c[1], DISCR))
              if cur is not None and cur.single() and cur.single()[0] == 'variant' and cur.single()[1] != nm:
                continue      # infeasible edge
              s2.m[_sub(c[1], DISCR)] = Aff.sym(('variant', nm))
          else:
            cur = s2.m.get(_sub(c[1], DISCR))
            labs = [_variant_name(self.b, c[1], v) for v, _ in t['vals']]
            if cur is not None and cur.single() and cur.single()[0] == 'variant' and cur.single()[1] in labs:
              continue
        elif c is not None:
          truth = None
          if lab == 'otherwise':
            vals = [v for v, _ in t['vals']]
            truth = True if vals == [0] else (False if vals == [1] else None)
          else:
            truth = bool(lab)
          if truth is not None:
            g = (c[0] if truth else _NEG[c[0]], c[1], c[2])
            if (_NEG[g[0]], g[1], g[2]) in s2.guards:
              continue      # contradicts a test already taken on this path
            if g not in s2.guards:
              s2.guards = s2.guards + (g,)
        elif src is not None and len(t['vals']) == 1:
          # test of a plain integer / bool place
          v = s2.val(pkey(src))
          k0 = Aff.const(int(t['vals'][0][0]))
          g = ('Eq' if lab != 'otherwise' else 'Ne', v, k0)
          if (_NEG[g[0]], g[1], g[2]) in s2.guards:
            continue
          if g not in s2.guards:
            s2.guards = s2.guards + (g,)
        out.append((tgt, s2))
      return out
    if k == 'assert':
      return [(x, st) for x in succ]
    return [(x, st) for x in succ]

  def _enum_variants(self, ty):
    from .facts import norm
    if not ty:
      return None
    a = self.adts.get(norm(ty).split('<')[0])
    if not a or a.get('kind') != 'enum':
      return None
    out = {}
    for i, v in enumerate(a.get('variants', [])):
      d = v.get('discr')
      try:
        out[int(d) if d is not None else i] = v['n']
      except (TypeError, ValueError):
        out[i] = v['n']
    return out

  # ---------------------------------------------------------------- merge
  def _merge(self, bb, states, force_loop=None, sticky=None):
    keys = set()
    for s in states:
      keys |= set(s.m)
    out = State()
    for key in keys:
      vals = [s.m.get(key) for s in states]
      v0 = vals[0]
      same = all(v == v0 for v in vals) and v0 is not None
      if sticky is not None and key in sticky:
        same = False
      if same and force_loop is not None and any(self.symdef.get(x) in force_loop for x in v0.syms()):
        same = False
      if same:
        out.m[key] = v0
      else:
        sym = ('phi', bb, key)
        self.symdef[sym] = bb
        out.m[key] = Aff.sym(sym)
        if sticky is not None:
          sticky.add(key)
    # drop leaf phis whose ancestors are phis too: keep things small but sound
    rk = set()
    for s in states:
      rk |= set(s.ref)
    for l in rk:
      vs = [s.ref.get(l) for s in states]
      if all(v == vs[0] for v in vs) and vs[0] is not None:
        out.ref[l] = vs[0]
    ck = set()
    for s in states:
      ck |= set(s.cmp)
    for l in ck:
      vs = [s.cmp.get(l) for s in states]
      if all(v == vs[0] for v in vs) and vs[0] is not None:
        out.cmp[l] = vs[0]
    return out

  def _run(self):
    b = self.b
    init = State()
    self.ins[0] = [init]
    changed = True
    rounds = 0
    while changed and rounds < 40:
      changed = False
      rounds += 1
      for bb in self.order:
        if bb == 0:
          cur = [init]
        else:
          inc = []
          for p in self.preds.get(bb, ()):
            inc += self.outs.get(p, {}).get(bb, [])
          if not inc:
            continue
          if bb in self.heads:
            # a loop is solved for one entry state at a time: when the entry changes, what the back edges said under the old
            # entry is discarded and the phis of this head start afresh; under a fixed entry a key only ever goes value -> phi
            ent = []
            back = []
            for p in self.preds.get(bb, ()):
              (back if p in self.heads[bb] else ent).extend(self.outs.get(p, {}).get(bb, []))
            sig = frozenset(s.frozen() for s in ent)
            if self._entry_sig.get(bb) != sig:
              self._entry_sig[bb] = sig
              self._sticky[bb] = set()
              back = []
            if not ent:
              continue
            cur = [self._merge(bb, ent + back, force_loop=self.loop[bb], sticky=self._sticky[bb])]
          else:
            seen = {}
            for s in inc:
              seen.setdefault(s.frozen(), s)
            cur = list(seen.values())
            if len(cur) > self.cap:
              self.collapsed.add(bb)
              cur = [self._merge(bb, cur)]
        fz = frozenset(s.frozen() for s in cur)
        if self.ins.get(('fz', bb)) == fz:
          continue
        self.ins[('fz', bb)] = fz
        self.ins[bb] = cur
        changed = True
        outs = defaultdict(list)
        ts = []
        for s in cur:
          s = s.copy()
          for i, stm in enumerate(b.blocks[bb]['s']):
            self._stmt(s, bb, i, stm)
          ts.append(s.copy())
          t = b.blocks[bb]['t']
          if t['k'] == 'call':
            self._call(s, bb, t)
          for tgt, s2 in self._edges(s, bb):
            outs[tgt].append(s2)
        self.term_states[bb] = ts
        self.outs[bb] = outs
    self.rounds = rounds
    self.converged = not changed

  # ---------------------------------------------------------------- queries
  def at_term(self, bb):
    return self.term_states.get(bb, [])

  def after(self, bb, succ):
    return self.outs.get(bb, {}).get(succ, [])

  def opval(self, st, o):
    return self._opv(st, o)


_NEG = {'Gt': 'Le', 'Le': 'Gt', 'Ge': 'Lt', 'Lt': 'Ge', 'Eq': 'Ne', 'Ne': 'Eq'}


def _sub(key, suffix):
  return (key[0], key[1] + tuple(suffix))


def _is_enum(rv):
  from .facts import norm
  adt = norm(rv.get('adt') or '').split('<')[0]
  return adt.split('::')[-1] != rv.get('variant')


def _variant_name(body, key, lab):
  ty = body.local_ty(key[0]) or ''
  if key[1]:
    return None
  base = ty.split('<')[0]
  if base.endswith('::Option'):
    return {0: 'None', 1: 'Some'}.get(lab)
  if base.endswith('::Result'):
    return {0: 'Ok', 1: 'Err'}.get(lab)
  if base.endswith('::ControlFlow'):
    return {0: 'Continue', 1: 'Break'}.get(lab)
  return None


_W = {'u8': 8, 'u16': 16, 'u32': 32, 'u64': 64, 'u128': 128, 'usize': 64}


def _widening(body, rv):
  o = rv['o']
  p = o.get('c') or o.get('m')
  if not p:
    return True
  if p.get('p'):
    sty = p.get('ty') or ''
  else:
    sty = body.local_ty(p['l']) or ''
  return sty in _W and rv.get('ty') in _W and _W[sty] <= _W[rv['ty']]


# --------------------------------------------------------------------------- helpers for rule modules

def le_forms(guards):
  """normalise comparison guards to expressions known to be <= 0"""
  out = []
  one = Aff.const(1)
  for op, a, b in guards:
    if op == 'Le':
      out.append(a - b)
    elif op == 'Lt':
      out.append(a - b + one)
    elif op == 'Ge':
      out.append(b - a)
    elif op == 'Gt':
      out.append(b - a + one)
    elif op == 'Eq':
      out.append(a - b)
      out.append(b - a)
  return out


def implies_le(guards, x, y):
  """x <= y follows from one guard (x - y = g + c with g <= 0 known and constant c <= 0), or trivially"""
  d = x - y
  if d.is_const():
    return d.c <= 0
  for g in le_forms(guards):
    r = d - g
    if r.is_const() and r.c <= 0:
      return True
  return False


def smallest_loop(an, bb):
  best = None
  for h, nodes in an.loop.items():
    if bb in nodes and (best is None or len(nodes) < len(an.loop[best])):
      best = h
  return best


def back_edge_states(an, h):
  out = []
  for t in an.heads.get(h, ()):
    out += an.after(t, h)
  return out


def entry_edge_states(an, h):
  out = []
  for p in an.preds.get(h, ()):
    if p not in an.heads.get(h, ()):
      out += an.after(p, h)
  return out


def head_control(an, h):
  """(key, op, other) of the loop-head test when it compares one phi of this head with a constant"""
  t = an.b.blocks[h]['t']
  if t['k'] != 'switch':
    return None
  src = t['d'].get('c') or t['d'].get('m')
  for s in an.at_term(h):
    c = s.cmp.get(s.resolve(pkey(src))) if src else None
    if c is None or c[0] == 'discr':
      return None
    for x, y in ((c[1], c[2]), (c[2], c[1])):
      sx = x.single()
      if sx is not None and sx[0] == 'phi' and sx[1] == h and y.is_const():
        return sx[2], c[0], y
  return None


def agg_sites(body, adt_regex):
  import re
  from .facts import norm
  out = []
  for bb in body.reachable_from(0):
    if body.blocks[bb].get('cleanup'):
      continue
    for i, s in enumerate(body.blocks[bb]['s']):
      rv = s.get('rv')
      if rv and rv['k'] == 'agg' and rv.get('ak') == 'adt' and re.search(adt_regex, norm(rv.get('adt') or '')):
        out.append((bb, i, s))
  return out


def state_after_stmt(an, bb, idx):
  """alternatives just after statement idx of block bb"""
  out = []
  for s in an.ins.get(bb, []):
    s = s.copy()
    for i, stm in enumerate(an.b.blocks[bb]['s'][:idx + 1]):
      an._stmt(s, bb, i, stm)
    out.append(s)
  return out
