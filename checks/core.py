"""Check runner: obligations, violations, known findings, evidence, replay."""
import hashlib
import importlib
import json
import os
import sys
import time

from . import extract
from .facts import Facts, norm

VERIF = extract.VERIF
EVIDENCE = os.environ.get('ORDVERIF_EVIDENCE') or os.path.join(VERIF, 'evidence')
KNOWN = os.path.join(VERIF, 'known_findings.json')

COMMON_ASSUMPTIONS = [
    "analysed program = non-test lib targets of workspace crates `ord` and `ordinals` as type-checked by "
    "`cargo +nightly check --offline -p ord -p ordinals --lib` on /repo's working tree (cfg(test) code absent, cfg!(test)=false)",
    "mockcore, audit-*, update-contributors, the binary shim and integration tests contain no anchor and are not analysed",
    "rustc's type checking, MIR construction (mir-opt-level 0) and trait-method resolution (Instance::try_resolve) are trusted",
    "external crates (std, redb, bitcoin, bitcoincore-rpc, axum, tower-http, clap, minicbor, brotli) behave as documented",
    "this check decides the named structural clauses only, never the value-level behaviour of the property",
]


class Violation:

  def __init__(self, rule, fn, desc, msg, where=None, kind='violation', detail=None):
    self.rule = rule
    self.fn = fn
    self.desc = desc
    self.msg = msg
    self.where = where
    self.kind = kind
    self.detail = detail or {}

  @property
  def key(self):
    return [self.rule, self.fn, self.desc]

  def keyhash(self):
    return hashlib.sha1(json.dumps(self.key).encode()).hexdigest()[:12]

  def to_json(self):
    return {'rule': self.rule, 'function': self.fn, 'instance': self.desc, 'message': self.msg, 'where': self.where,
            'kind': self.kind, 'key': self.key, 'detail': self.detail}


class Ctx:

  def __init__(self, pid, tier, facts, config='dev'):
    self.pid = pid
    self.tier = tier
    self.facts = facts
    self.config = config
    self.obligations = []  # dicts
    self.violations = []
    self.rules = {}  # rule id -> text
    self.functions = set()
    self.call_sites = 0
    self.notes = []
    self.info = []
    self.extra = {}

  # -- declaration
  def rule(self, rid, text):
    self.rules[rid] = text

  def analysed(self, *bodies):
    for b in bodies:
      if b is not None:
        self.functions.add(b.n if hasattr(b, 'n') else str(b))

  def sites(self, n):
    self.call_sites += n

  # -- obligations
  def ob(self, rule, fn, desc, ok, msg='', where=None, nontrivial=True, detail=None):
    """record one rule instance; a failed one is a violation keyed (rule, fn, desc)"""
    msg = str(msg)[:700] if msg else msg
    rec = {'rule': rule, 'function': fn, 'instance': desc, 'ok': bool(ok), 'where': where, 'nontrivial': nontrivial}
    if msg and not ok:
      rec['note'] = msg
    self.obligations.append(rec)
    if not ok:
      self.violations.append(Violation(rule, fn, desc, msg, where, detail=detail))
    return bool(ok)

  def anchor(self, rule, what, found, fn=''):
    """fail closed when something the rule needs is missing"""
    if not found:
      self.violations.append(Violation(rule, fn, f'anchor:{what}', f'anchor lost: {what} not found on this tree', None, kind='anchor-lost'))
      self.obligations.append({'rule': rule, 'function': fn, 'instance': f'anchor:{what}', 'ok': False, 'where': None, 'nontrivial': False})
    return bool(found)

  def body(self, rule, npath):
    b = self.facts.body(npath)
    self.anchor(rule, npath, b is not None, npath)
    if b is not None:
      self.functions.add(b.n)
    return b

  def floor(self, rule, what, count, floor):
    ok = count >= floor
    self.obligations.append({'rule': rule, 'function': '', 'instance': f'floor:{what}>={floor}', 'ok': ok, 'where': None, 'nontrivial': False,
                             'note': f'counted {count}'})
    if not ok:
      self.violations.append(Violation(rule, '', f'floor:{what}', f'instance count {count} fell below the confirmed floor {floor} for {what}', None, kind='anchor-lost'))
    return ok

  def note(self, s):
    self.notes.append(s)

  def informational(self, s):
    self.info.append(s)


def where(body, line):
  return f"{body.file}:{line}"


def load_known():
  if not os.path.exists(KNOWN):
    return {'known': [], 'fixed': []}
  with open(KNOWN) as fh:
    return json.load(fh)


def run_check(pid, tier='quick', replay=None, seed=0):
  t0 = time.time()
  os.makedirs(EVIDENCE, exist_ok=True)
  os.makedirs(os.path.join(EVIDENCE, 'replay'), exist_ok=True)
  fdir, digest, extracted, ext_s = extract.ensure_facts('dev')
  facts = Facts(fdir)
  mod = importlib.import_module(f'checks.rules.{pid}')
  ctx = Ctx(pid, tier, facts)
  mod.run(ctx)
  configs = ['dev']
  if tier == 'thorough' and getattr(mod, 'RELEASE_TOO', True):
    # second extraction in a release-like configuration (overflow checks and debug assertions off)
    rdir, rdigest, _, rs = extract.ensure_facts('release')
    rfacts = Facts(rdir)
    rctx = Ctx(pid, tier, rfacts, config='release')
    mod.run(rctx)
    configs.append('release')
    have = {json.dumps(v.key) for v in ctx.violations}
    for v in rctx.violations:
      if json.dumps(v.key) not in have:
        v.detail['config'] = 'release-like'
        ctx.violations.append(v)
    for o in rctx.obligations:
      o = dict(o)
      o['config'] = 'release-like'
      ctx.obligations.append(o)
    ctx.functions |= rctx.functions
    ctx.call_sites += rctx.call_sites
  sens = None
  neutral = None
  if tier == 'thorough' and hasattr(mod, 'MUTANTS'):
    from . import mutants
    sens = mutants.run_pack(pid, mod)
  if tier == 'thorough' and hasattr(mod, 'NEUTRAL'):
    from . import mutants
    neutral = mutants.run_neutral(pid, mod)

  known = load_known()
  known_keys = {json.dumps(k['key']): k for k in known.get('known', []) if k.get('property') == pid}
  unlisted = []
  listed = []
  seen = set()
  for v in ctx.violations:
    kj = json.dumps(v.key)
    if kj in seen:
      continue
    seen.add(kj)
    if kj in known_keys:
      listed.append((v, known_keys[kj]))
    else:
      unlisted.append(v)
  if neutral is not None:
    for a in neutral.get('alarmed', []):
      unlisted.append(Violation('NEUTRAL', pid, 'false-alarm', f"behaviour-preserving edits {a['edits']} made the rules report {a['reported'][:3]}", None, kind='checker-false-alarm'))
  if sens is not None:
    for m in sens.get('missed', []):
      unlisted.append(Violation('SENS', m['mutant'], 'sensitivity', f"seeded mutant {m['mutant']} was not reported by {m['expect']}", None, kind='checker-insensitive'))

  # replay mode: only report on the one key
  if replay:
    with open(replay) as fh:
      rec = json.load(fh)
    key = json.dumps(rec['key'])
    still = [v for v in ctx.violations if json.dumps(v.key) == key]
    if still:
      v = still[0]
      print(f"REPLAY: still violated on this tree: {v.rule} {v.fn} {v.desc}: {v.msg} [{v.where}]")
      if key in known_keys:
        print(f"KNOWN-FINDING: property={pid} {known_keys[key].get('what', v.msg)}")
        return 0
      print(f"VIOLATION property={pid} replay={replay}")
      return 1
    print(f"REPLAY: rule instance {rec['key']} is discharged on this tree")
    return 0

  for v, k in listed:
    print(f"KNOWN-FINDING: property={pid} {k.get('what', v.msg)} [{v.rule} {v.fn} {v.desc}]")
  for v in unlisted:
    rp = os.path.join(EVIDENCE, 'replay', f'{pid}-{v.keyhash()}.json')
    rec = v.to_json()
    rec['property'] = pid
    rec['rule_text'] = ctx.rules.get(v.rule, '')
    rec['source_digest'] = digest
    with open(rp, 'w') as fh:
      json.dump(rec, fh, indent=1)
    print(f"{v.kind}: {v.rule} in {v.fn}: {v.desc}: {v.msg} [{v.where}]")
    print(f"VIOLATION property={pid} replay={rp}")

  n_ob = len(ctx.obligations)
  n_ok = sum(1 for o in ctx.obligations if o['ok'])
  distinct = {(o['rule'], o['function'], o['instance']) for o in ctx.obligations if o.get('nontrivial')}
  samples = []
  per_rule = {}
  for o in ctx.obligations:
    per_rule.setdefault(o['rule'], 0)
    per_rule[o['rule']] += 1
  shown = {}
  for o in ctx.obligations:
    if shown.get(o['rule'], 0) < 3:
      shown[o['rule']] = shown.get(o['rule'], 0) + 1
      samples.append({k: o[k] for k in ('rule', 'function', 'instance', 'ok', 'where') if k in o} | ({'note': o['note']} if 'note' in o else {}))
  coverage = {
      'explanation': (f"static rule check over the type-checked program (MIR with resolved callees / HIR with typeck results) of /repo's working tree; "
                      f"{n_ob} rule instances (obligations) enumerated on this run, {n_ok} discharged; configurations analysed: {configs}"),
      'obligations': n_ob,
      'discharged': n_ok,
      'evaluations': max(n_ob, 1),
      'distinct_nontrivial': len(distinct),
      'rule': 'one evaluation = one rule instance (a call site, guard, table slot, arithmetic site or path) found in the current source; '
              'non-trivial = its discharge needed dominance/dataflow/range reasoning rather than a presence lookup; distinct by (rule, function, instance)',
      'samples': samples,
      'rules': [{'id': r, 'text': t, 'instances': per_rule.get(r, 0)} for r, t in ctx.rules.items()],
      'functions_analysed': sorted(ctx.functions),
      'functions_analysed_count': len(ctx.functions),
      'call_sites': ctx.call_sites,
      'bodies_in_fact_base': len(facts.bodies),
      'source_digest': digest,
      'facts_extracted_this_run': extracted,
      'extraction_s': round(ext_s, 2),
      'known_findings_reported': [k.get('what') for _, k in listed],
      'violations_unlisted': [v.to_json() for v in unlisted],
      'notes': ctx.notes,
      'informational': ctx.info,
      'exhaustive': True,
      'checker_cmd': f'./check {pid} --tier {tier}',
      'trusted_base': ['rustc nightly front end (typeck, MIR build, instance resolution)', 'checks/tables/* reviewed tables', 'documented behaviour of external crates'],
  }
  coverage.update(ctx.extra)
  if sens is not None:
    coverage['sensitivity'] = sens
  if neutral is not None:
    coverage['neutral_edits'] = neutral
  ev = {
      'property_id': pid,
      'tier': tier,
      'seed': seed,
      'level': 'other',
      'coverage': coverage,
      'assumptions': COMMON_ASSUMPTIONS + list(getattr(mod, 'ASSUMPTIONS', [])),
      'wall_s': round(time.time() - t0, 3),
      'violations': len(unlisted),
  }
  with open(os.path.join(EVIDENCE, f'{pid}.json'), 'w') as fh:
    json.dump(ev, fh, indent=1, default=str)
  print(f"{pid}: {n_ok}/{n_ob} obligations discharged, {len(listed)} known finding(s), {len(unlisted)} unlisted violation(s), "
        f"{len(ctx.functions)} functions, {round(time.time() - t0, 1)}s")
  return 1 if unlisted else 0


def main(argv):
  import argparse
  ap = argparse.ArgumentParser()
  ap.add_argument('pid')
  ap.add_argument('--tier', default=os.environ.get('VERIF_TIER', 'quick'))
  ap.add_argument('--replay')
  a = ap.parse_args(argv)
  tier = a.tier if a.tier in ('quick', 'thorough') else 'quick'
  seed = int(os.environ.get('VERIF_SEED', '0') or 0)
  return run_check(a.pid, tier, a.replay, seed)
