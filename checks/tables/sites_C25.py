"""Reviewed sites for C25 (runestone encipher / decipher)."""
MSG = 'ordinals::runestone::message::Message::from_integers'
ENC = 'ordinals::runestone::Runestone::encipher'
STEP = r"^discr\(Iterator::next\(IntoIterator::into_iter\(Iterator::step_by\(Range\{0,slice::len\(.*\)\},2\)\)\)\) in \['1'\]$"
TABLE = {
    ('ordinals::edict::Edict::from_integers', 'unwrap', 'unwrap(ptr_try_from_impls::try_from(Vec::len(tx.output)))'): {
        'reason': 'u32::try_from(tx.output.len()): a transaction inside a consensus-valid block has far fewer than 2^32 outputs (each output is at least 9 bytes; block weight limit 4 MWU)'},
    (ENC, 'unwrap', 'unwrap(RuneId::delta(previous,Iterator::next(IntoIterator::into_iter(Clone::clone(self.edicts))).v:Some.0.id))'): {
        'reason': 'edicts are sorted by id before the loop (checked by R25.1), so each id is >= the previous one and RuneId::delta (checked_sub) is Some',
        'requires': [r'^Vec::is_empty\(self\.edicts\)==False$']},
    (ENC, 'unwrap', 'unwrap(TryInto::try_into(Iterator::next(IntoIterator::into_iter(slice::chunks(Deref::deref(Vec::new()),Result::unwrap(TryInto::try_into(…))))).v:Some.0))'): {
        'reason': '&[u8] -> &PushBytes fails only above u32::MAX bytes and the chunk comes from chunks(u32::MAX)',
        'requires': [r"^discr\(Iterator::next\(IntoIterator::into_iter\(slice::chunks\(.*\)\)\)\) in \['1'\]$"]},
    (MSG, 'index', 'index(Iterator::next(IntoIterator::into_iter(Iterator::step_by(Range{0,slice::len(payload)},2))).v:Some.0,PtrMetadata(payload))'): {
        'reason': 'i is drawn from (0..payload.len()).step_by(2), so i < payload.len()', 'requires': [STEP]},
    (MSG, 'index-call', 'index(payload,RangeFrom{Add(Iterator::next(IntoIterator::into_iter(Iterator::step_by(Range{…,…},2))).v:Some.0,1)})'): {
        'reason': 'i < payload.len() (drawn from 0..len), so i + 1 <= len is a valid RangeFrom start', 'requires': [STEP]},
    ('ordinals::runestone::tag::Tag::take', 'unwrap', 'unwrap(HashMap::remove(fields,Into::into(self)))'): {
        'reason': 'the entry for this tag was obtained by get_mut(&self.into()) at the top of the function and nothing removed it since',
        'requires': [r"^discr\(Try::branch\(HashMap::get_mut\(fields,Into::into\(self\)\)\)\) in \['0'\]$", r'VecDeque::is_empty\(.*\)==True$']},
}
