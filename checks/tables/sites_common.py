"""Reviewed panic/wrap-site entries shared by several properties (one reason per entry; DESIGN §2.3).

key = (function, kind, semantic description of the construct).  An entry may carry
  range:    the value range of the result that the reason establishes (used by the interval engine downstream)
  requires: regexes that must each match a guard dominating the site — the entry is void once such a guard disappears
"""
ISIZE_MAX = (1 << 63) - 1

STARTING_SAT = {
    ('ordinals::height::Height::starting_sat', 'arith', 'Sub(Height::n(self),Height::n(Epoch::starting_height(From::from(self))))'): {
        'reason': 'epoch = Epoch::from(self) = Epoch(h / 210000) and Epoch::starting_height = Height(epoch * 210000): the subtrahend is 210000*floor(h/210000) <= h, '
                  'so the difference is h mod 210000 (relational fact outside the interval domain; both callees are range-checked in their own right)',
        'range': (0, 209999),
    },
}

HUGE_INPUT = 'would need an input text of at least 2^32 bytes; parser inputs are command-line arguments, URL path segments and YAML/JSON string fields, all bounded far below 4 GiB'
