"""Reviewed sites for C31 (text parsers are total and never accept by overflow)."""
from .sites_common import STARTING_SAT, HUGE_INPUT, ISIZE_MAX

IID = '<ord::inscriptions::inscription_id::InscriptionId as std::str::FromStr>::from_str'
IID_REQ = [r'^Lt\(str::len\(s\),MIN_LEN\)==False$', r"^discr\(Iterator::find\(str::chars\(s\),closure\{\}\)\) in \['otherwise'\]$"]
IID_WHY = 'every char is ASCII (the find(!is_ascii) guard returned None), so bytes == chars, and len >= TXID_LEN + 2: byte offsets 64 and 65 are in range and on char boundaries and nth(64) exists'
OUT = '<ord::outgoing::Outgoing as std::str::FromStr>::from_str'
PCT = 'ordinals::sat::Sat::from_percentile'
DEC = '<ord::decimal::Decimal as std::str::FromStr>::from_str'

TABLE = {
    (IID, 'index-call', 'index(s,RangeTo{TXID_LEN})'): {'reason': IID_WHY, 'requires': IID_REQ},
    (IID, 'unwrap', 'unwrap(Iterator::nth(str::chars(s),TXID_LEN))'): {'reason': IID_WHY, 'requires': IID_REQ},
    (IID, 'index-call', 'index(s,RangeFrom{Add(TXID_LEN,1)})'): {'reason': IID_WHY, 'requires': IID_REQ},
    (OUT, 'index-call', 'index(Regex::captures(Deref::deref(None),input).v:Some.0,1)'): {
        'reason': 'the RUNE regex has two unconditional capture groups; captures() returned Some, so groups 1 and 2 participated in the match',
        'requires': [r"^discr\(Regex::captures\(.*input\)\) in \['1'\]$"]},
    (OUT, 'index-call', 'index(Regex::captures(Deref::deref(None),input).v:Some.0,2)'): {
        'reason': 'the RUNE regex has two unconditional capture groups; captures() returned Some, so groups 1 and 2 participated in the match',
        'requires': [r"^discr\(Regex::captures\(.*input\)\) in \['1'\]$"]},
    ('<ord::representation::Representation as std::str::FromStr>::from_str', 'index',
     'index(Iterator::next(IntoIterator::into_iter(RegexSet::matches(Deref::deref(None),input))).v:Some.0,PtrMetadata(PATTERNS))'): {
        'reason': 'REGEX_SET is built from PATTERNS element by element (same length); SetMatches yields pattern indices < the set length',
        'requires': [r"^discr\(Iterator::next\(.*RegexSet::matches.*\)\) in \['1'\]$"]},
    (PCT, 'arith', 'Sub(str::len(percentile),1)'): {
        'reason': "the string ends with '%', so it is at least one byte long", 'range': (0, ISIZE_MAX - 1),
        'requires': [r'^str::ends_with\(percentile,37\)==True$']},
    (PCT, 'index-call', 'index(percentile,RangeTo{Sub(str::len(percentile),1)})'): {
        'reason': "'%' is a one-byte char: len-1 is in range and on a char boundary",
        'requires': [r'^str::ends_with\(percentile,37\)==True$']},
    (DEC, 'arith', 'Sub(Iterator::count(str::chars(str::split_once(s,46).v:Some.0.1)),Iterator::count(Iterator::take_while(Iterator::rev(str::chars(str::split_once(s,46).v:Some.0.1)),closure{})))'): {
        'reason': 'the subtrahend counts a suffix (take_while over .rev()) of the very char sequence the minuend counts', 'range': (0, ISIZE_MAX)},
    (DEC, 'unwrap', 'unwrap(ptr_try_from_impls::try_from(Iterator::count(Iterator::take_while(Iterator::rev(str::chars(str::split_once(…,…).v:Some.0.1)),closure{}))))'): {
        'reason': 'u32::try_from(trailing_zeros): ' + HUGE_INPUT},
    ('<ordinals::spaced_rune::SpacedRune as std::str::FromStr>::from_str', 'unwrap', 'unwrap(TryInto::try_into(String::len(String::new())))'): {
        'reason': 'u32::try_from(rune.len()): ' + HUGE_INPUT},
}
TABLE.update(STARTING_SAT)
