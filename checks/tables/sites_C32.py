"""Reviewed sites for C32 (rune names ↔ integers)."""
from .sites_C31 import TABLE as T31
from .sites_common import ISIZE_MAX

SR_FMT = '<ordinals::spaced_rune::SpacedRune as std::fmt::Display>::fmt'
TABLE = dict(T31)
TABLE.update({
    ('<ordinals::rune::Rune as std::fmt::Display>::fmt', 'unwrap', 'unwrap(Iterator::nth(str::chars(lit),(Rem(Sub(n,1),26) as usize)))'): {
        'reason': 'the literal is the 26-letter ASCII alphabet and the index is (n - 1) % 26 < 26 (the engine bounds the Rem result; the literal length is checked by R32.3)',
        'requires': [r'^Gt\(n,0\)==True$']},
    (SR_FMT, 'arith', 'Sub(String::len(ToString::to_string(self.rune)),1)'): {
        'reason': 'evaluated inside the loop over the chars of that very string, so the string has at least one char', 'range': (0, ISIZE_MAX - 1),
        'requires': [r"^discr\(Iterator::next\(.*str::chars\(.*\)\) in \['1'\]$"]},
    (SR_FMT, 'shift', 'Shl(1,Iterator::next(IntoIterator::into_iter(Iterator::enumerate(str::chars(Deref::deref(ToString::to_string(…)))))).v:Some.0.0)'): {
        'reason': 'i < rune.len() - 1 (the guard) and a rune name has at most 28 letters (u128::MAX prints as the 28-letter BCGDENLQRQWDSLRUGSNLBTMFIJAV), so i <= 26 < 32',
        'requires': [r'^Lt\(Iterator::next\(.*\)\.v:Some\.0\.0,Sub\(String::len\(ToString::to_string\(self\.rune\)\),1\)\)==True$']},
})
