"""Reviewed sites for C27 / C28 / C16 (envelope parsing, inscription accessors, properties decoding, reveal-script building)."""
from .sites_common import ISIZE_MAX

FROM = '<ord::inscriptions::envelope::Envelope as std::convert::From>::from'
FI = 'ord::inscriptions::envelope::Envelope::from_instructions'
PC = 'ord::inscriptions::inscription::Inscription::properties_cbor'
IDV = 'ord::inscriptions::inscription_id::InscriptionId::value'
PUSH = '&[u8] -> &PushBytes fails only for slices longer than u32::MAX bytes'
READ = 'io::Read contract: read(buf) returns n <= buf.len() = BROTLI_BUFFER_SIZE (brotli::Decompressor honours it); value.len() <= max <= MAX_COMPRESSED_PROPERTIES_SIZE by the size guard of the previous iteration'
READ_REQ = [r'^Eq\(Try::branch\(Result::ok\(Read::read\(.*\)\)\)\.v:Continue\.0,0\)==False$']

TABLE = {
    (FROM, 'index-call', 'index(envelope.payload,RangeTo{Option::unwrap_or(Iterator::position(Iterator::enumerate(slice::iter(Deref::deref(…))),closure{}),Vec::len(envelope.payload))})'): {
        'reason': 'the bound is either a position() found inside envelope.payload (< len) or envelope.payload.len() itself'},
    (FROM + '::{closure#3}', 'arith', 'Add(i,1)'): {
        'reason': 'i is the body position found by position() over envelope.payload, so i < payload.len() <= isize::MAX', 'range': (1, ISIZE_MAX)},
    (FROM + '::{closure#3}', 'index-call', 'index(tmp.upvar:envelope__payload,RangeFrom{Add(i,1)})'): {
        'reason': 'i < envelope.payload.len() (position() result), so i + 1 <= len is a valid RangeFrom start'},
    (FI, 'unwrap', 'unwrap(TryInto::try_into(input))'): {
        'reason': 'u32::try_from(input index): a transaction in a consensus-valid block has far fewer than 2^32 inputs (each at least 41 bytes)'},
    (FI, 'unwrap', 'unwrap(TryInto::try_into(offset))'): {
        'reason': 'u32::try_from(envelope count so far): each envelope needs at least 4 script bytes and a witness script is bounded by the block weight limit'},
    ('ord::inscriptions::inscription::Inscription::append_reveal_script_to_builder', 'unwrap', 'unwrap(TryInto::try_into(Iterator::next(IntoIterator::into_iter(slice::chunks(Deref::deref(….v:Some.0),MAX_SCRIPT_ELEMENT_SIZE))).v:Some.0))'): {
        'reason': PUSH + '; the chunk comes from chunks(MAX_SCRIPT_ELEMENT_SIZE = 520)'},
    (PC, 'arith', 'Add(Vec::len(Vec::new()),Try::branch(Result::ok(Read::read(Decompressor::new(Try::branch(Option::as_deref(…)).v:Continue.0,BROTLI_BUFFER_SIZE),DerefMut::deref_mut(vec::from_elem(0,BROTLI_BUFFER_SIZE))))).v:Continue.0)'): {
        'reason': READ, 'range': (1, ISIZE_MAX), 'requires': READ_REQ},
    (PC, 'index-call', 'index(vec::from_elem(0,BROTLI_BUFFER_SIZE),RangeTo{Try::branch(Result::ok(Read::read(Decompressor::new(Try::branch(…).v:Continue.0,BROTLI_BUFFER_SIZE),DerefMut::deref_mut(vec::from_elem(…,…))))).v:Continue.0})'): {
        'reason': READ, 'requires': READ_REQ},
    ('ord::inscriptions::inscription_id::InscriptionId::from_value', 'unwrap', 'unwrap(Hash::from_slice(slice::split_at(value,LEN).0))'): {
        'reason': 'Txid::from_slice fails only on a length other than 32; the slice is the first half of split_at(Txid::LEN = 32)',
        'requires': [r'^Lt\(slice::len\(value\),LEN\)==False$']},
    (IDV, 'arith', 'Sub(slice::len(index_slice),1)'): {
        'reason': 'index_slice.last() returned Some(0), so the slice is not empty', 'range': (0, 3),
        'requires': [r'^Eq\(Option::copied\(slice::last\(index_slice\)\),.*\)==True$']},
    (IDV, 'index-call', 'index(index_slice,Range{0,Sub(slice::len(index_slice),1)})'): {
        'reason': '0 <= len - 1 <= len', 'requires': [r'^Eq\(Option::copied\(slice::last\(index_slice\)\),.*\)==True$']},
    ('ord::inscriptions::tag::Tag::append', 'unwrap', 'unwrap(TryInto::try_into(array::as_slice(Tag::bytes(self))))'): {'reason': PUSH + '; a one-byte array'},
    ('ord::inscriptions::tag::Tag::append', 'unwrap', 'unwrap(TryInto::try_into(Iterator::next(IntoIterator::into_iter(slice::chunks(Deref::deref(value.v:Some.0),MAX_SCRIPT_ELEMENT_SIZE))).v:Some.0))'): {
        'reason': PUSH + '; a chunk of at most 520 bytes'},
    ('ord::inscriptions::tag::Tag::append', 'unwrap', 'unwrap(TryInto::try_into(Vec::as_slice(value.v:Some.0)))'): {
        'reason': PUSH + '; field values are in-memory vectors built by the wallet (content type, pointer, delegate ids ...), far below 4 GiB'},
    ('ord::inscriptions::tag::Tag::append_array', 'unwrap', 'unwrap(TryInto::try_into(array::as_slice(Tag::bytes(self))))'): {'reason': PUSH + '; a one-byte array'},
    ('ord::inscriptions::tag::Tag::append_array', 'unwrap', 'unwrap(TryInto::try_into(Vec::as_slice(Iterator::next(IntoIterator::into_iter(values)).v:Some.0)))'): {
        'reason': PUSH + '; parent ids are at most 36 bytes'},
    ('ord::properties::Properties::from_cbor', 'unwrap', 'unwrap(Hash::from_slice(Iterator::next(IntoIterator::into_iter(Iterator::zip(slice::iter_mut(DerefMut::deref_mut(…)),slice::as_chunks(Deref::deref(…)).0))).v:Some.0.1))'): {
        'reason': 'the element comes from as_chunks::<32>() and is exactly 32 bytes long, the only length Txid::from_slice accepts',
        'requires': [r'slice::as_chunks']},
}
