"""Reviewed sites for C16 (parsers on the indexing path are total): the union of the runestone and envelope tables."""
from .sites_C25 import TABLE as T25
from .sites_C27 import TABLE as T27

TABLE = {}
TABLE.update(T25)
TABLE.update(T27)

DRB = 'ord::index::Index::decode_rune_balance'
TABLE.update({
    (DRB, 'index-call', 'index(buffer,RangeFrom{len})'): {
        'reason': 'len is the sum of the lengths varint::decode returned for successive suffixes of buffer; each returned length is at most the length of the slice it was given, so len <= buffer.len()'},
})
