"""Reviewed sites for C34 (displayed rune amounts parse back)."""
from .sites_C31 import TABLE as T31

TABLE = dict(T31)
TABLE.update({
    ('<ordinals::pile::Pile as std::fmt::Display>::fmt', 'unwrap', 'unwrap(num::checked_pow(10,Into::into(self.divisibility)))'): {
        'reason': "10^divisibility fits u128 exactly when divisibility <= 38 — the property's stated domain (MAX_DIVISIBILITY); Pile is only built from rune entries whose divisibility the decipherer bounded"},
    ('<ordinals::pile::Pile as std::fmt::Display>::fmt', 'arith', 'Sub(width,1)'): {
        'reason': 'fractional = amount mod 10^divisibility is non-zero and < 10^width; while it is a multiple of 10 it has at least two digits, so width >= 2 before the decrement (the loop keeps fractional < 10^width)',
        'range': (0, 254), 'requires': [r'^Eq\(fractional,0\)==False$', r'^num::is_multiple_of\(fractional,10\)==True$']},
    ('<ord::decimal::Decimal as std::fmt::Display>::fmt', 'arith', 'Sub(width,1)'): {
        'reason': 'fraction = value mod 10^scale is non-zero and < 10^width; while it is a multiple of 10 it has at least two digits, so width >= 2 before the decrement',
        'range': (0, 254), 'requires': [r'^Gt\(fraction,0\)==True$', r'^num::is_multiple_of\(fraction,10\)==True$']},
})
