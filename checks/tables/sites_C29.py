"""Reviewed sites for C29 (sat numbering matches heights and derived attributes).  Domain precondition: sat < Sat::SUPPLY."""
from .sites_common import STARTING_SAT

EPOCH_SATS_MAX = 210_000 * 50 * 100_000_000  # sats of the largest epoch (epoch 0)
WHY_POS = ('Epoch::from(sat) returns the k with STARTING_SATS[k] <= sat < STARTING_SATS[k+1] (ladder: R29.2, table: R29.1), so epoch.starting_sat() <= sat '
           'and the difference is below the sat count of that epoch (<= 210000 * 50 * 10^8)')
TABLE = {
    ('ordinals::sat::Sat::epoch_position', 'arith', 'Sub(self.0,Epoch::starting_sat(Sat::epoch(self)).0)'): {'reason': WHY_POS, 'range': (0, EPOCH_SATS_MAX - 1)},
    ('ordinals::sat::Sat::common', 'arith', 'Sub(self.0,Epoch::starting_sat(Sat::epoch(self)).0)'): {'reason': WHY_POS, 'range': (0, EPOCH_SATS_MAX - 1)},
    ('ordinals::sat::Sat::height', 'unwrap', 'unwrap(num::try_from(Div(Sat::epoch_position(self),Epoch::subsidy(Sat::epoch(self)))))'): {
        'reason': 'epoch_position < 210000 * subsidy(epoch) because consecutive STARTING_SATS differ by exactly that product (R29.1); the quotient is a block offset < 210000 and fits u32',
        'range': (0, 209_999)},
    ('ordinals::sat::Sat::name', 'unwrap', 'unwrap(Iterator::nth(str::chars(lit),(Rem(Sub(x,1),26) as usize)))'): {
        'reason': 'the literal is the 26-letter ASCII alphabet (checked by R29.3) and the index is (x - 1) % 26 < 26', 'requires': [r'^Gt\(x,0\)==True$']},
    ('ordinals::sat::Sat::palindrome', 'arith', 'Mul(reversed,10)'): {
        'reason': 'n < SUPPLY < 10^16 has at most 16 decimal digits; reversed holds the digits consumed so far, so before the last step it is < 10^15',
        'range': (0, 10**16), 'requires': [r'^Gt\(n,0\)==True$']},
    ('ordinals::sat::Sat::palindrome', 'arith', 'Add(Mul(reversed,10),Rem(n,10))'): {
        'reason': 'reversed has as many digits as were consumed from n < 10^16', 'range': (0, 10**16), 'requires': [r'^Gt\(n,0\)==True$']},
}
TABLE.update(STARTING_SAT)
