"""Reviewed sites for C20 R20.5 (TransactionBuilder::select_outgoing — the function that touches the user-supplied satpoint)."""
SO = 'ord::wallet::transaction_builder::TransactionBuilder::select_outgoing'
TABLE = {
    (SO, 'unwrap', 'unwrap(slice::last(Deref::deref(self.unused_change_addresses)))'): {
        'reason': 'build_transaction returns Err unless there are at least two change addresses (checked by R20.4) before it calls select_outgoing; unused_change_addresses is initialised from them'},
    (SO, 'arith', 'Add(Iterator::next(IntoIterator::into_iter(Iterator::rev(BTreeMap::iter(self.inscriptions)))).v:Some.0.0.offset,Amount::to_sat(Script::minimal_non_dust(script::deref(Address::script_pubkey(Option::unwrap(slice::last(…)))))))'): {
        'reason': 'an inscription offset is below the value of the wallet output holding it (< 21·10^14 sats) and a dust limit is a few hundred sats',
        'requires': [r'^Eq\(self\.outgoing\.outpoint,.*\.outpoint\)==True$']},
}
