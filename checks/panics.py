"""E5 — panic / wrap-around site inventory over the call-graph closure of a set of entry points.

Every panic-capable or wrap-capable construct in every workspace body reachable from the entry points is a *site*:
arithmetic rvalues (Add/Sub/Mul, shifts, Div/Rem, Neg), bounds checks, truncating `as` casts, float→int casts, calls of
panicking std APIs (unwrap/expect, Index::index, split_at, Vec::remove, pow, ...), explicit panics.  A site must be discharged by
(1) the interval engine, (2) a structural idiom, or (3) a reviewed table entry with its reason; anything else is a violation.
Sites are keyed (function, kind, semantic operand description) — never by line or local index.
"""
import re
from collections import defaultdict

from .facts import norm, op_place, origins, single_def, describe_operand
from .intervals import Engine, fmt_desc

# bodies never followed: formatting / derive machinery is not on a value path of the parsers (they may be *called*, their internals
# are std's or generated code that only formats already-validated values)
STOP_DEFAULT = [
    r'^<.* as std::fmt::(Display|Debug)>::fmt$',
    r'^<.* as std::error::Error>::',
    r'::_::<impl .*serde::',
    r'^<.* as serde::',
    r'^<.* as clap::',
]


def closure(F, entries, stop=None, follow=None):
  """workspace bodies reachable from entry bodies (normalised names or regexes 're:..'); returns {path: pred}"""
  roots = []
  for e in entries:
    if e.startswith('re:'):
      r = re.compile(e[3:])
      roots.extend(b.path for b in F.bodies.values() if r.search(b.n) or r.search(b.path))
    else:
      roots.extend(b.path for b in F.by_norm.get(e, []))
  stops = [re.compile(s) for s in (STOP_DEFAULT if stop is None else stop)]

  def stopf(path):
    n = norm(path)
    return any(r.search(n) for r in stops)

  pred = {}
  work = []
  for r in roots:
    if r not in pred:
      pred[r] = None
      work.append(r)
  while work:
    x = work.pop()
    for y in F.callees(x):
      if y in F.bodies and y not in pred:
        if stopf(y):
          continue
        pred[y] = x
        work.append(y)
  return pred, roots


class Inventory:

  def __init__(self, F, partition=1, assumes=None):
    self.F = F
    self.engine = Engine(F, partition=partition, assumes=assumes)
    self.cache = {}
    self._addr_taken = None

  @staticmethod
  def group(a):
    groups = {}
    for s in a.all_sites():
      k = (s.kind, s.desc)
      g = groups.get(k)
      if g is None:
        groups[k] = s
      elif not s.ok:
        # same construct seen at two program points (e.g. the debug-build shift check and the shift itself):
        # discharged only if every occurrence is
        g.ok = False
        g.why = s.why or g.why
    return groups

  pre = {}

  def sites_of(self, body):
    """sites of a body analysed for arbitrary arguments — or, for a function with a stated domain precondition, under it"""
    if body.path not in self.cache:
      st = None
      pre = self.pre.get(body.path) or self.pre.get(body.n)
      if pre:
        from .intervals import State
        st = State()
        for k, v in pre.items():
          st.m[k] = v
      a = self.engine.analyse(body, st)
      self.cache[body.path] = (list(self.group(a).values()), a)
    return self.cache[body.path]

  def in_context(self, body, arg_sub):
    """site map {(kind, desc): Site} of `body` analysed with the given argument values"""
    from .intervals import State, Analysis
    st = State()
    for k, v in arg_sub.items():
      st.m[k] = v
    a = Analysis(self.engine, body, st, 1, record=True)
    a.run()
    return self.group(a)

  def addr_taken(self, path):
    """is the function referenced as a value (fn pointer / passed to an adaptor) anywhere in the workspace"""
    if self._addr_taken is None:
      at = set()
      for b in self.F.bodies.values():
        for blk in b.blocks:
          for st in blk['s']:
            rv = st.get('rv')
            if not rv:
              continue
            for f in ('o', 'a', 'b'):
              o = rv.get(f)
              if isinstance(o, dict) and isinstance(o.get('k'), dict) and 'fn' in o['k']:
                at.add(o['k']['fn'])
            for o in rv.get('ops', []) or []:
              if isinstance(o.get('k'), dict) and 'fn' in o['k']:
                at.add(o['k']['fn'])
          t = blk['t']
          for o in t.get('args', []) or []:
            if isinstance(o.get('k'), dict) and 'fn' in o['k']:
              at.add(o['k']['fn'])
      self._addr_taken = at
    return path in self._addr_taken


# ------------------------------------------------------------------------------------------ structural idioms


def idiom(F, body, s, an):
  """returns a reason string if the site matches a recognised safe idiom"""
  c = s.call
  if s.kind == 'unwrap' and c is not None and c.args:
    os_ = origins(body, c.args[0])
    for o in os_:
      if o.kind == 'call':
        n = o.call.name or ''
        # <[T; N]>::try_from(chunk).unwrap() on an element of chunks_exact(N) / as_chunks::<N>()
        if re.search(r'try_(from|into)$', n):
          src = origins(body, o.call.args[0]) if o.call.args else []
          if any(x.kind == 'call' and re.search(r'ChunksExact.*::next$|as_chunks', x.call.name or '') for x in src):
            return 'try_into().unwrap() on a chunks_exact / as_chunks element of exactly that length'
        # .last()/.first() on a non-empty constant array
  if s.kind == 'index' and c is None:
    pass
  return None


def guard_strings(body, bb, forms=False):
  """renderings `atom==polarity` of the guards that dominate block bb (conjunctions expanded).
  forms=True: every comparison guard is rendered in all four equivalent spellings (a<b false = a>=b true = b<=a true = b>a false),
  so that a pattern written against one spelling also matches a behaviour-preserving rewrite of the comparison."""
  from .guards import all_guards, expand
  from .facts import CMP_FLIP, CMP_NEG
  gs = [g for g in all_guards(body, bb) if body.dominates(g.bb, bb)]
  out = []
  for g in expand(body, gs):
    if g.pol is None:
      # enum / integer switch: render the live labels
      out.append(f"{fmt_desc(g.atom)} in {sorted(map(str, g.live))}")
      continue
    out.append(f"{fmt_desc(g.atom)}=={g.pol}")
    if forms and isinstance(g.atom, tuple) and g.atom and g.atom[0] == 'cmp':
      _, op, a, b = g.atom
      for o2, x, y, pol in ((CMP_FLIP[op], b, a, g.pol), (CMP_NEG[op], a, b, not g.pol), (CMP_FLIP[CMP_NEG[op]], b, a, not g.pol)):
        out.append(f"{fmt_desc(('cmp', o2, x, y))}=={pol}")
  return out


def requires_ok(body, s, requires):
  """every required guard pattern matches some dominating guard of the site"""
  gs = guard_strings(body, s.bb, forms=True)
  missing = [r for r in requires if not any(re.search(r, g) for g in gs)]
  return missing, gs


def _short(n):
  n = re.sub(r'<impl [^>]*>::', '', n or '?')
  return '::'.join(n.replace('<', '').replace('>', '').split('::')[-2:])


def run_inventory(ctx, rule, entries, table, partition=1, kinds=None, stop=None, floor_fns=0, floor_sites=0, label=None, skip_kinds=('shl-lossy',), extra_idiom=None, pre=None):
  """enumerate and discharge.  table: {(fn, kind, desc): reason | (reason, (lo, hi))}.
  A site of a non-entry helper that is not discharged for arbitrary arguments is re-examined in the context of every call
  site inside the closure (argument ranges of that call); it is then keyed at the *caller*:
  (caller, 'ctx:'+kind, 'callee(args) -> site')."""
  F = ctx.facts
  pred, roots = closure(F, entries, stop)
  table = {k: ({'reason': v} if isinstance(v, str) else v) for k, v in table.items()}
  reasons = {k: v['reason'] for k, v in table.items()}
  assumes = {k: v['range'] for k, v in table.items() if v.get('range') is not None}
  requires = {k: v['requires'] for k, v in table.items() if v.get('requires')}
  inv = Inventory(F, partition, assumes)
  inv.pre = pre or {}
  ctx.anchor(rule, f'entry points {label or entries}', len(roots) >= 1)
  n_sites = 0
  used = set()
  out = []
  contexts = defaultdict(list)
  per_body = {}
  for path in sorted(pred):
    b = F.bodies[path]
    ctx.analysed(b)
    sites, an = inv.sites_of(b)
    per_body[path] = (sites, an)
    if not an.converged:
      ctx.ob(rule, b.n, 'analysis converged', False, 'interval analysis did not converge', f'{b.file}:{b.line}')
    for callee, call, arg_sub in an.callctx:
      contexts[callee].append((b, call, arg_sub))
  rootset = set(roots)

  def record(b, kind, desc, ok, how, why, where_):
    out.append((b, kind, ok, how))
    ctx.ob(rule, b.n, f'{kind}:{desc}', ok, why, where_, nontrivial=True)

  for path in sorted(pred):
    b = F.bodies[path]
    sites, an = per_body[path]
    for s in sites:
      if kinds is not None and s.kind not in kinds:
        continue
      if s.kind in skip_kinds:
        continue
      n_sites += 1
      key = (b.n, s.kind, s.desc)
      if key in requires and (not s.ok or s.why == 'reviewed-range'):
        # a reviewed entry is only valid while the guards it relies on still dominate the site
        missing, gs = requires_ok(b, s, requires[key])
        if missing:
          used.add(key)
          record(b, s.kind, s.desc, False, None, f'the reviewed discharge of this site relies on guard(s) {missing} which no longer dominate it (dominating guards now: {gs[:8]})', s.where())
          continue
      if s.ok:
        how = 'reviewed: ' + reasons[key] if key in reasons and s.why == 'reviewed-range' else 'range'
        if key in reasons:
          used.add(key)
        record(b, s.kind, s.desc, True, how, '', s.where())
        continue
      r = idiom(F, b, s, an) or (extra_idiom(F, b, s, an) if extra_idiom else None)
      if r:
        record(b, s.kind, s.desc, True, 'idiom: ' + r, '', s.where())
        continue
      if key in reasons:
        used.add(key)
        record(b, s.kind, s.desc, True, 'reviewed: ' + reasons[key], '', s.where())
        continue
      cs = contexts.get(path, [])
      if path in rootset or not cs or inv.addr_taken(path):
        record(b, s.kind, s.desc, False, None, s.why, s.where())
        continue
      # context-sensitive: one obligation per call site in the closure
      results = [(cb, call, inv.in_context(b, arg_sub).get((s.kind, s.desc))) for cb, call, arg_sub in cs]
      if all(g is not None and not g.ok for _, _, g in results):
        # fails whatever the caller passes: it is the callee's own site
        record(b, s.kind, s.desc, False, None, s.why, s.where())
        continue
      for cb, call, g in results:
        cdesc = f"{_short(b.n)}({','.join(fmt_desc(describe_operand(cb, a)) for a in call.args)}) -> {s.desc}"
        ckey = (cb.n, 'ctx:' + s.kind, cdesc)
        if g is None or g.ok:
          record(cb, 'ctx:' + s.kind, cdesc, True, 'range-in-context', '', call.where())
        elif ckey in reasons:
          used.add(ckey)
          record(cb, 'ctx:' + s.kind, cdesc, True, 'reviewed: ' + reasons[ckey], '', call.where())
        else:
          record(cb, 'ctx:' + s.kind, cdesc, False, None, f'in this call context: {g.why}', call.where())
  ctx.sites(n_sites)
  cl = {norm(p) for p in pred}
  for k in table:
    if k not in used and k[0] in cl:
      ctx.note(f'{rule}: reviewed entry not needed on this tree (site gone or discharged by the engine): {k}')
  if floor_fns:
    ctx.floor(rule, f'functions in the closure of {label or "the entry points"}', len(pred), floor_fns)
  if floor_sites and getattr(ctx, 'config', 'dev') == 'dev':
    # (the release-like configuration has fewer sites: no overflow-check temporaries)
    ctx.floor(rule, f'panic/wrap-capable sites in the closure of {label or "the entry points"}', n_sites, floor_sites)
  ctx.extra.setdefault('inventory', {})[rule] = {
      'entries': sorted({norm(r) for r in roots}), 'functions': len(pred), 'sites': n_sites,
      'by_kind': _count(out), 'discharged_by': _how(out),
      'unmodelled_callees_top': sorted(inv.engine.unmodelled.items(), key=lambda x: -x[1])[:15],
      'partition': partition,
  }
  return out, pred


def _count(out):
  d = defaultdict(int)
  for b, kind, ok, how in out:
    d[kind] += 1
  return dict(d)


def _how(out):
  d = defaultdict(int)
  for b, kind, ok, how in out:
    d[(how or 'UNDISCHARGED').split(':')[0]] += 1
  return dict(d)
