// ordfacts — rustc_private fact extractor for the ord static-analysis checks.
//
// Used as RUSTC_WORKSPACE_WRAPPER: argv = [ordfacts, <path to rustc>, rustc args...].
// For the workspace lib crates named in ORDFACTS_CRATES (default "ord,ordinals") it
// dumps, after analysis, one JSONL fact file per crate into $ORDFACTS_OUT:
//   <crate>.mir.jsonl   one line per body: MIR at mir-opt-level 0 with resolved callees
//   <crate>.hir.jsonl   one line per fn-like body owner: HIR expression tree with typeck resolutions
//   <crate>.adt.jsonl   structs / enums with fields, variants and discriminants
//   <crate>.const.jsonl evaluated constants (integers, strings, integer arrays)
// Each file is written in one go (one write per process).
#![feature(rustc_private)]
#![allow(clippy::all)]

extern crate rustc_abi;
extern crate rustc_ast;
extern crate rustc_data_structures;
extern crate rustc_driver;
extern crate rustc_hir;
extern crate rustc_interface;
extern crate rustc_middle;
extern crate rustc_session;
extern crate rustc_span;

use rustc_hir as hir;
use rustc_hir::def::{DefKind, Res};
use rustc_hir::def_id::{DefId, LocalDefId, LOCAL_CRATE};
use rustc_middle::mir;
use rustc_middle::ty::{self, print::with_crate_prefix, print::with_no_trimmed_paths, print::with_no_visible_paths, Ty, TyCtxt};
use rustc_span::Span;
use std::fmt::Write as _;

fn esc(s: &str) -> String {
  let mut o = String::with_capacity(s.len() + 2);
  o.push('"');
  for c in s.chars() {
    match c {
      '"' => o.push_str("\\\""),
      '\\' => o.push_str("\\\\"),
      '\n' => o.push_str("\\n"),
      '\r' => o.push_str("\\r"),
      '\t' => o.push_str("\\t"),
      c if (c as u32) < 0x20 => {
        let _ = write!(o, "\\u{:04x}", c as u32);
      }
      c => o.push(c),
    }
  }
  o.push('"');
  o
}

fn join(v: Vec<String>) -> String {
  let mut o = String::from("[");
  for (i, s) in v.iter().enumerate() {
    if i > 0 {
      o.push(',');
    }
    o.push_str(s);
  }
  o.push(']');
  o
}

thread_local! {
  static CRATE_NAME: std::cell::RefCell<String> = std::cell::RefCell::new(String::new());
}

// `with_crate_prefix!` prints local items as `crate::a::b`; rewrite that to `<crate name>::a::b`
// so that paths are the same whether an item is seen from its own crate or from a dependant.
fn qual(s: String) -> String {
  if !s.contains("crate::") {
    return s;
  }
  let name = CRATE_NAME.with(|c| c.borrow().clone());
  let b = s.as_bytes();
  let mut out = String::with_capacity(s.len() + 16);
  let mut i = 0;
  while i < b.len() {
    if s[i..].starts_with("crate::")
      && (i == 0 || !(b[i - 1].is_ascii_alphanumeric() || b[i - 1] == b'_'))
    {
      out.push_str(&name);
      out.push_str("::");
      i += 7;
    } else {
      let ch = s[i..].chars().next().unwrap();
      out.push(ch);
      i += ch.len_utf8();
    }
  }
  out
}

fn path_of(tcx: TyCtxt<'_>, did: DefId) -> String {
  // items of the other workspace crate are named by their definition path (not by the shortest re-export visible from
  // here), so that a call from `ord` into `ordinals` carries the very name the callee's body has in its own fact file
  if !did.is_local() {
    let cn = tcx.crate_name(did.krate);
    let cn = cn.as_str();
    if cn == "ord" || cn == "ordinals" {
      return qual(with_crate_prefix!(with_no_visible_paths!(with_no_trimmed_paths!(
        tcx.def_path_str(did)
      ))));
    }
  }
  qual(with_crate_prefix!(with_no_trimmed_paths!(tcx.def_path_str(did))))
}

fn ty_str(ty: Ty<'_>) -> String {
  qual(with_crate_prefix!(with_no_trimmed_paths!(ty.to_string())))
}

fn line_of(tcx: TyCtxt<'_>, sp: Span) -> usize {
  let sm = tcx.sess.source_map();
  // use the call-site of macro expansions so that reports point at user code
  let sp = sp.source_callsite();
  sm.lookup_char_pos(sp.lo()).line
}

fn file_of(tcx: TyCtxt<'_>, sp: Span) -> String {
  let sm = tcx.sess.source_map();
  let sp = sp.source_callsite();
  let f = sm.lookup_char_pos(sp.lo()).file;
  format!("{}", f.name.prefer_local_unconditionally())
}

// ---------------------------------------------------------------- constants

fn read_int(bytes: &[u8], signed: bool) -> i128 {
  // little endian; for u128 values beyond i128 we return via string elsewhere
  let mut v: u128 = 0;
  for (i, b) in bytes.iter().enumerate() {
    v |= (*b as u128) << (8 * i);
  }
  if signed && bytes.len() < 16 {
    let bits = bytes.len() * 8;
    let sign = 1u128 << (bits - 1);
    if v & sign != 0 {
      return (v as i128) - (1i128 << bits);
    }
  }
  v as i128
}

fn uint_str(bytes: &[u8]) -> String {
  let mut v: u128 = 0;
  for (i, b) in bytes.iter().enumerate() {
    v |= (*b as u128) << (8 * i);
  }
  v.to_string()
}

fn scalar_json<'tcx>(tcx: TyCtxt<'tcx>, ty: Ty<'tcx>, int: ty::ScalarInt) -> Option<String> {
  let size = int.size();
  let bits = int.to_bits(size);
  match ty.kind() {
    ty::Bool => Some(format!("{}", if bits != 0 { "true" } else { "false" })),
    ty::Uint(_) => Some(format!("{}", bits)),
    ty::Int(_) => {
      let nb = size.bits();
      let v: i128 = if nb == 128 {
        bits as i128
      } else if bits & (1u128 << (nb - 1)) != 0 {
        (bits as i128) - (1i128 << nb)
      } else {
        bits as i128
      };
      Some(format!("{}", v))
    }
    ty::Char => Some(format!("{}", bits)),
    ty::Float(ft) => {
      let s = match ft.bit_width() {
        32 => format!("{:?}", f32::from_bits(bits as u32)),
        64 => format!("{:?}", f64::from_bits(bits as u64)),
        _ => format!("bits:{}", bits),
      };
      Some(esc(&s))
    }
    ty::Adt(adt, _) if adt.is_enum() || adt.is_struct() => {
      // newtype / fieldless enum scalars: give raw bits
      let _ = tcx;
      Some(format!("{}", bits))
    }
    _ => None,
  }
}

fn const_value_json<'tcx>(
  tcx: TyCtxt<'tcx>,
  ty: Ty<'tcx>,
  val: mir::ConstValue,
) -> Option<String> {
  match val {
    mir::ConstValue::Scalar(mir::interpret::Scalar::Int(i)) => scalar_json(tcx, ty, i),
    mir::ConstValue::Scalar(mir::interpret::Scalar::Ptr(ptr, _)) => {
      // &[T; N] or &T pointing into an allocation
      if let ty::Ref(_, inner, _) = ty.kind() {
        let (prov, off) = ptr.into_raw_parts();
        let alloc_id = prov.alloc_id();
        if let Some(ga) = tcx.try_get_global_alloc(alloc_id) {
          if let mir::interpret::GlobalAlloc::Memory(a) = ga {
            return alloc_json(tcx, *inner, a.inner(), off.bytes() as usize);
          }
        }
      }
      None
    }
    mir::ConstValue::ZeroSized => None,
    mir::ConstValue::Slice { alloc_id, meta } => {
      // &[integer] / &[newtype-of-integer]: dump the elements
      if let ty::Ref(_, inner, _) = ty.kind() {
        if let ty::Slice(el) = inner.kind() {
          if *el != tcx.types.u8 {
            if let Some(mir::interpret::GlobalAlloc::Memory(a)) = tcx.try_get_global_alloc(alloc_id) {
              let arr_ty = Ty::new_array(tcx, *el, meta);
              return alloc_json(tcx, arr_ty, a.inner(), 0);
            }
          }
        }
      }
      if let ty::Ref(_, inner, _) = ty.kind() {
        if inner.is_str() {
          let b = val.try_get_slice_bytes_for_diagnostics(tcx)?;
          return Some(format!("{{\"s\":{}}}", esc(&String::from_utf8_lossy(b))));
        }
        if let ty::Slice(el) = inner.kind() {
          if *el == tcx.types.u8 {
            let b = val.try_get_slice_bytes_for_diagnostics(tcx)?;
            return Some(format!(
              "{{\"b\":{}}}",
              join(b.iter().map(|x| x.to_string()).collect())
            ));
          }
        }
      }
      None
    }
    mir::ConstValue::Indirect { alloc_id, offset } => {
      if let Some(mir::interpret::GlobalAlloc::Memory(a)) = tcx.try_get_global_alloc(alloc_id) {
        return alloc_json(tcx, ty, a.inner(), offset.bytes() as usize);
      }
      None
    }
  }
}

fn alloc_json<'tcx>(
  tcx: TyCtxt<'tcx>,
  ty: Ty<'tcx>,
  alloc: &mir::interpret::Allocation,
  off: usize,
) -> Option<String> {
  let bytes = alloc.inspect_with_uninit_and_ptr_outside_interpreter(0..alloc.len());
  match ty.kind() {
    ty::Array(el, n) => {
      let n = n.try_to_target_usize(tcx)? as usize;
      // element type: an integer, or a single-field newtype struct over an integer (Sat, Rune, Height, ...)
      let mut elt = *el;
      if let ty::Adt(adt, _) = elt.kind() {
        if adt.is_struct() && adt.non_enum_variant().fields.len() == 1 {
          let v = adt.non_enum_variant();
          elt = tcx.type_of(v.fields[rustc_abi::FieldIdx::from_u32(0)].did).instantiate_identity().skip_norm_wip();
        }
      }
      let esz = match elt.kind() {
        ty::Uint(u) => u.bit_width().map(|b| b / 8).unwrap_or(8) as usize,
        ty::Int(u) => u.bit_width().map(|b| b / 8).unwrap_or(8) as usize,
        _ => return None,
      };
      let signed = matches!(elt.kind(), ty::Int(_));
      if off + n * esz > bytes.len() {
        return None;
      }
      let mut v = Vec::new();
      for i in 0..n {
        let b = &bytes[off + i * esz..off + (i + 1) * esz];
        if signed {
          v.push(read_int(b, true).to_string());
        } else {
          v.push(uint_str(b));
        }
      }
      Some(format!("{{\"arr\":{}}}", join(v)))
    }
    ty::Uint(u) => {
      let esz = u.bit_width().map(|b| b / 8).unwrap_or(8) as usize;
      if off + esz > bytes.len() {
        return None;
      }
      Some(uint_str(&bytes[off..off + esz]))
    }
    ty::Int(u) => {
      let esz = u.bit_width().map(|b| b / 8).unwrap_or(8) as usize;
      if off + esz > bytes.len() {
        return None;
      }
      Some(read_int(&bytes[off..off + esz], true).to_string())
    }
    ty::Ref(_, inner, _) if matches!(inner.kind(), ty::Slice(e) if *e != tcx.types.u8) => {
      // fat pointer to a slice of integers / integer newtypes stored inside an allocation
      let ty::Slice(el) = inner.kind() else { return None };
      if off + 16 > bytes.len() {
        return None;
      }
      let mut target = None;
      for (o, prov) in alloc.provenance().ptrs().iter() {
        if o.bytes() as usize == off {
          target = Some(prov.alloc_id());
        }
      }
      let aid = target?;
      let addend = uint_str(&bytes[off..off + 8]).parse::<usize>().ok()?;
      let len = uint_str(&bytes[off + 8..off + 16]).parse::<u64>().ok()?;
      if let Some(mir::interpret::GlobalAlloc::Memory(a)) = tcx.try_get_global_alloc(aid) {
        let arr_ty = Ty::new_array(tcx, *el, len);
        return alloc_json(tcx, arr_ty, a.inner(), addend);
      }
      None
    }
    ty::Ref(_, inner, _) if inner.is_str() || matches!(inner.kind(), ty::Slice(e) if *e == tcx.types.u8) => {
      // a fat pointer stored inside an allocation (e.g. a promoted `&BROTLI` where BROTLI: &str)
      if off + 16 > bytes.len() {
        return None;
      }
      let mut target = None;
      for (o, prov) in alloc.provenance().ptrs().iter() {
        if o.bytes() as usize == off {
          target = Some(prov.alloc_id());
        }
      }
      let aid = target?;
      let addend = uint_str(&bytes[off..off + 8]).parse::<usize>().ok()?;
      let len = uint_str(&bytes[off + 8..off + 16]).parse::<usize>().ok()?;
      if let Some(mir::interpret::GlobalAlloc::Memory(a)) = tcx.try_get_global_alloc(aid) {
        let a = a.inner();
        let tb = a.inspect_with_uninit_and_ptr_outside_interpreter(0..a.len());
        if addend + len > tb.len() {
          return None;
        }
        let sl = &tb[addend..addend + len];
        if inner.is_str() {
          return Some(format!("{{\"s\":{}}}", esc(&String::from_utf8_lossy(sl))));
        }
        return Some(format!("{{\"b\":{}}}", join(sl.iter().map(|x| x.to_string()).collect())));
      }
      None
    }
    ty::Adt(adt, args) if adt.is_struct() => {
      // single-field newtype over an integer (Sat, Rune, Height, ...)
      let v = adt.non_enum_variant();
      if v.fields.len() == 1 {
        let fty = tcx.type_of(v.fields[rustc_abi::FieldIdx::from_u32(0)].did).instantiate_identity().skip_norm_wip();
        return alloc_json(tcx, fty, alloc, off);
      }
      // a small struct of integers (e.g. a promoted `&(A..B)`: Range<u64>): field name -> value, read at the layout's offsets
      if v.fields.len() <= 4 {
        let lay = tcx.layout_of(ty::TypingEnv::fully_monomorphized().as_query_input(ty)).ok()?;
        let mut out = Vec::new();
        for (i, f) in v.fields.iter().enumerate() {
          let fty = f.ty(tcx, args);
          if matches!(fty.kind(), ty::Bool) {
            let fo = lay.fields.offset(i).bytes() as usize;
            if off + fo >= bytes.len() {
              return None;
            }
            out.push(format!("{}:{}", esc(f.name.as_str()), if bytes[off + fo] != 0 { "true" } else { "false" }));
            continue;
          }
          if !matches!(fty.kind(), ty::Uint(_) | ty::Int(_)) {
            return None;
          }
          let fo = lay.fields.offset(i).bytes() as usize;
          let j = alloc_json(tcx, fty, alloc, off + fo)?;
          out.push(format!("{}:{}", esc(f.name.as_str()), j));
        }
        return Some(format!("{{\"st\":{{{}}}}}", out.join(",")));
      }
      None
    }
    _ => None,
  }
}

fn mir_const_json<'tcx>(
  tcx: TyCtxt<'tcx>,
  env: ty::TypingEnv<'tcx>,
  c: &mir::ConstOperand<'tcx>,
) -> String {
  let cty = c.const_.ty();
  let mut parts = vec![format!("\"ty\":{}", esc(&ty_str(cty)))];
  if let ty::FnDef(did, args) = cty.kind() {
    parts.push(format!("\"fn\":{}", esc(&path_of(tcx, *did))));
    let a = qual(with_crate_prefix!(with_no_trimmed_paths!(format!("{:?}", args))));
    parts.push(format!("\"ga\":{}", esc(&a)));
    return format!("{{{}}}", parts.join(","));
  }
  if let mir::Const::Unevaluated(uv, _) = c.const_ {
    if uv.promoted.is_none() {
      parts.push(format!("\"def\":{}", esc(&path_of(tcx, uv.def))));
    } else {
      parts.push("\"promoted\":true".to_string());
    }
  }
  // constants mentioned inside a promoted constant's body (e.g. `&Some(Ok(Instruction::Op(OP_RETURN)))`): their def paths
  // and values make the content of an otherwise opaque promoted visible to the rules
  if let mir::Const::Unevaluated(uv, _) = c.const_ {
    if let Some(idx) = uv.promoted {
      let pm = tcx.promoted_mir(uv.def);
      if idx.as_usize() < pm.len() {
        let pb = &pm[idx];
        let mut inner: Vec<String> = Vec::new();
        let mut visit = |o: &mir::Operand<'tcx>| {
          if let mir::Operand::Constant(ic) = o {
            let mut ip = vec![format!("\"ty\":{}", esc(&ty_str(ic.const_.ty())))];
            if let mir::Const::Unevaluated(iuv, _) = ic.const_ {
              if iuv.promoted.is_none() {
                ip.push(format!("\"def\":{}", esc(&path_of(tcx, iuv.def))));
              }
            }
            use rustc_middle::ty::TypeVisitableExt;
            if !ic.const_.has_non_region_param() {
              if let Ok(v) = ic.const_.eval(tcx, env, ic.span) {
                if let Some(j) = const_value_json(tcx, ic.const_.ty(), v) {
                  ip.push(format!("\"v\":{}", j));
                }
              }
            }
            inner.push(format!("{{{}}}", ip.join(",")));
          }
        };
        for data in pb.basic_blocks.iter() {
          for st in &data.statements {
            if let mir::StatementKind::Assign(b) = &st.kind {
              match &b.1 {
                mir::Rvalue::Use(o, _) | mir::Rvalue::Cast(_, o, _) | mir::Rvalue::UnaryOp(_, o) | mir::Rvalue::Repeat(o, _) => visit(o),
                mir::Rvalue::BinaryOp(_, ops) => {
                  visit(&ops.0);
                  visit(&ops.1);
                }
                mir::Rvalue::Aggregate(_, ops) => {
                  for o in ops.iter() {
                    visit(o);
                  }
                }
                _ => {}
              }
            }
          }
        }
        if !inner.is_empty() && inner.len() <= 16 {
          parts.push(format!("\"pc\":{}", join(inner)));
        }
      }
    }
  }
  let has_params = {
    use rustc_middle::ty::TypeVisitableExt;
    c.const_.has_non_region_param()
  };
  if !has_params {
    if let Ok(v) = c.const_.eval(tcx, env, c.span) {
      if let Some(j) = const_value_json(tcx, cty, v) {
        parts.push(format!("\"v\":{}", j));
      }
    }
  } else if let mir::Const::Unevaluated(uv, _) = c.const_ {
    // a promoted constant inside a closure: its generic arguments mention the closure's synthetic type parameters, so it
    // cannot be evaluated as such.  The usual shape is `_1 = const ITEM; _0 = &_1`: evaluate the inner, parameter-free constant.
    if let (Some(idx), ty::Ref(_, inner_ty, _)) = (uv.promoted, cty.kind()) {
      let pm = tcx.promoted_mir(uv.def);
      if idx.as_usize() < pm.len() {
        let pb = &pm[idx];
        let mut found: Option<String> = None;
        let mut n_const = 0;
        for data in pb.basic_blocks.iter() {
          for st in &data.statements {
            if let mir::StatementKind::Assign(b) = &st.kind {
              if let mir::Rvalue::Use(mir::Operand::Constant(ic), _) = &b.1 {
                use rustc_middle::ty::TypeVisitableExt;
                n_const += 1;
                if ic.const_.ty() == *inner_ty && !ic.const_.has_non_region_param() {
                  if let Ok(v) = ic.const_.eval(tcx, env, ic.span) {
                    found = const_value_json(tcx, *inner_ty, v);
                  }
                }
              }
            }
          }
        }
        if n_const == 1 {
          if let Some(j) = found {
            parts.push(format!("\"v\":{}", j));
          }
        }
      }
    }
  }
  format!("{{{}}}", parts.join(","))
}

// ---------------------------------------------------------------- MIR

fn place_json<'tcx>(tcx: TyCtxt<'tcx>, body: &mir::Body<'tcx>, p: &mir::Place<'tcx>) -> String {
  let mut projs = Vec::new();
  let mut pty = mir::PlaceTy::from_ty(body.local_decls[p.local].ty);
  for elem in p.projection.iter() {
    match elem {
      mir::ProjectionElem::Deref => projs.push("\"*\"".to_string()),
      mir::ProjectionElem::Field(f, _) => {
        let mut name = None;
        match pty.ty.kind() {
          ty::Adt(adt, _) => {
            let vi = pty.variant_index.unwrap_or(rustc_abi::FIRST_VARIANT);
            if vi.as_usize() < adt.variants().len() {
              let v = adt.variant(vi);
              if f.as_usize() < v.fields.len() {
                name = Some(v.fields[f].name.to_string());
              }
            }
          }
          ty::Closure(did, _) | ty::Coroutine(did, _) | ty::CoroutineClosure(did, _)
            if pty.variant_index.is_none() =>
          {
            if let Some(ldid) = did.as_local() {
              let ups = tcx.closure_captures(ldid);
              if f.as_usize() < ups.len() {
                name = Some(format!("upvar:{}", ups[f.as_usize()].to_symbol()));
              }
            }
          }
          _ => {}
        }
        match name {
          Some(n) => projs.push(format!("{{\"f\":{},\"n\":{}}}", f.as_usize(), esc(&n))),
          None => projs.push(format!("{{\"f\":{}}}", f.as_usize())),
        }
      }
      mir::ProjectionElem::Downcast(sym, vi) => {
        let n = sym.map(|s| s.to_string()).unwrap_or_default();
        projs.push(format!("{{\"v\":{},\"vi\":{}}}", esc(&n), vi.as_usize()));
      }
      mir::ProjectionElem::Index(l) => projs.push(format!("{{\"i\":{}}}", l.as_usize())),
      mir::ProjectionElem::ConstantIndex { offset, from_end, .. } => {
        projs.push(format!("{{\"ci\":{},\"fe\":{}}}", offset, from_end))
      }
      mir::ProjectionElem::Subslice { from, to, from_end } => {
        projs.push(format!("{{\"ss\":[{},{}],\"fe\":{}}}", from, to, from_end))
      }
      _ => projs.push("\"?\"".to_string()),
    }
    pty = pty.projection_ty(tcx, elem);
  }
  if projs.is_empty() {
    format!("{{\"l\":{}}}", p.local.as_usize())
  } else {
    format!(
      "{{\"l\":{},\"p\":{},\"ty\":{}}}",
      p.local.as_usize(),
      join(projs),
      esc(&ty_str(pty.ty))
    )
  }
}

fn operand_json<'tcx>(
  tcx: TyCtxt<'tcx>,
  env: ty::TypingEnv<'tcx>,
  body: &mir::Body<'tcx>,
  o: &mir::Operand<'tcx>,
) -> String {
  match o {
    mir::Operand::Copy(p) => format!("{{\"c\":{}}}", place_json(tcx, body, p)),
    mir::Operand::Move(p) => format!("{{\"m\":{}}}", place_json(tcx, body, p)),
    mir::Operand::Constant(c) => format!("{{\"k\":{}}}", mir_const_json(tcx, env, c)),
    _ => "{\"rt\":true}".to_string(),
  }
}

fn rvalue_json<'tcx>(
  tcx: TyCtxt<'tcx>,
  env: ty::TypingEnv<'tcx>,
  body: &mir::Body<'tcx>,
  rv: &mir::Rvalue<'tcx>,
) -> String {
  let op = |o: &mir::Operand<'tcx>| operand_json(tcx, env, body, o);
  match rv {
    mir::Rvalue::Use(o, _) => format!("{{\"k\":\"use\",\"o\":{}}}", op(o)),
    mir::Rvalue::Repeat(o, _) => format!("{{\"k\":\"repeat\",\"o\":{}}}", op(o)),
    mir::Rvalue::Ref(_, bk, p) => {
      let m = matches!(bk, mir::BorrowKind::Mut { .. });
      format!("{{\"k\":\"ref\",\"mut\":{},\"p\":{}}}", m, place_json(tcx, body, p))
    }
    mir::Rvalue::RawPtr(_, p) => format!("{{\"k\":\"rawptr\",\"p\":{}}}", place_json(tcx, body, p)),
    mir::Rvalue::Cast(ck, o, t) => {
      let ckn = format!("{:?}", ck);
      let ckn = ckn.split('(').next().unwrap_or("").to_string();
      format!(
        "{{\"k\":\"cast\",\"ck\":{},\"o\":{},\"ty\":{},\"from\":{}}}",
        esc(&ckn),
        op(o),
        esc(&ty_str(*t)),
        esc(&ty_str(o.ty(&body.local_decls, tcx)))
      )
    }
    mir::Rvalue::BinaryOp(b, ops) => {
      let t = ops.0.ty(&body.local_decls, tcx);
      format!(
        "{{\"k\":\"bin\",\"op\":{},\"a\":{},\"b\":{},\"ty\":{}}}",
        esc(&format!("{:?}", b)),
        op(&ops.0),
        op(&ops.1),
        esc(&ty_str(t))
      )
    }
    mir::Rvalue::UnaryOp(u, o) => {
      let t = o.ty(&body.local_decls, tcx);
      format!(
        "{{\"k\":\"un\",\"op\":{},\"o\":{},\"ty\":{}}}",
        esc(&format!("{:?}", u)),
        op(o),
        esc(&ty_str(t))
      )
    }
    mir::Rvalue::Discriminant(p) => format!("{{\"k\":\"discr\",\"p\":{}}}", place_json(tcx, body, p)),
    mir::Rvalue::Aggregate(ak, ops) => {
      let ops_j = join(ops.iter().map(|o| op(o)).collect());
      match &**ak {
        mir::AggregateKind::Array(_) => format!("{{\"k\":\"agg\",\"ak\":\"array\",\"ops\":{}}}", ops_j),
        mir::AggregateKind::Tuple => format!("{{\"k\":\"agg\",\"ak\":\"tuple\",\"ops\":{}}}", ops_j),
        mir::AggregateKind::Adt(did, vi, _, _, active) => {
          let adt = tcx.adt_def(*did);
          let v = adt.variant(*vi);
          let names: Vec<String> = match active {
            Some(f) => vec![esc(&v.fields[*f].name.to_string())],
            None => v.fields.iter().map(|f| esc(&f.name.to_string())).collect(),
          };
          format!(
            "{{\"k\":\"agg\",\"ak\":\"adt\",\"adt\":{},\"variant\":{},\"vi\":{},\"fields\":{},\"ops\":{}}}",
            esc(&path_of(tcx, *did)),
            esc(&v.name.to_string()),
            vi.as_usize(),
            join(names),
            ops_j
          )
        }
        mir::AggregateKind::Closure(did, _) => {
          let mut names = Vec::new();
          if let Some(l) = did.as_local() {
            for c in tcx.closure_captures(l) {
              names.push(esc(&c.to_symbol().to_string()));
            }
          }
          format!(
            "{{\"k\":\"agg\",\"ak\":\"closure\",\"def\":{},\"fields\":{},\"ops\":{}}}",
            esc(&path_of(tcx, *did)),
            join(names),
            ops_j
          )
        }
        mir::AggregateKind::Coroutine(did, _) | mir::AggregateKind::CoroutineClosure(did, _) => {
          let mut names = Vec::new();
          if let Some(l) = did.as_local() {
            for c in tcx.closure_captures(l) {
              names.push(esc(&c.to_symbol().to_string()));
            }
          }
          format!(
            "{{\"k\":\"agg\",\"ak\":\"coroutine\",\"def\":{},\"fields\":{},\"ops\":{}}}",
            esc(&path_of(tcx, *did)),
            join(names),
            ops_j
          )
        }
        mir::AggregateKind::RawPtr(..) => format!("{{\"k\":\"agg\",\"ak\":\"rawptr\",\"ops\":{}}}", ops_j),
      }
    }
    mir::Rvalue::CopyForDeref(p) => {
      format!("{{\"k\":\"use\",\"o\":{{\"c\":{}}}}}", place_json(tcx, body, p))
    }
    mir::Rvalue::ThreadLocalRef(d) => format!("{{\"k\":\"tls\",\"def\":{}}}", esc(&path_of(tcx, *d))),
    _ => "{\"k\":\"other\"}".to_string(),
  }
}

fn callee_json<'tcx>(
  tcx: TyCtxt<'tcx>,
  env: ty::TypingEnv<'tcx>,
  body: &mir::Body<'tcx>,
  func: &mir::Operand<'tcx>,
) -> String {
  let fty = func.ty(&body.local_decls, tcx);
  if let ty::FnDef(did, args) = fty.kind() {
    let mut parts = vec![format!("\"fn\":{}", esc(&path_of(tcx, *did)))];
    let a = qual(with_crate_prefix!(with_no_trimmed_paths!(format!("{:?}", args))));
    parts.push(format!("\"ga\":{}", esc(&a)));
    parts.push(format!("\"cr\":{}", esc(&tcx.crate_name(did.krate).to_string())));
    if let Some(tr) = tcx.trait_of_assoc(*did) {
      parts.push(format!("\"trait\":{}", esc(&path_of(tcx, tr))));
    }
    let mut resolved = None;
    {
      use rustc_middle::ty::TypeVisitableExt;
      let _ = args.has_non_region_param();
      if let Ok(Some(inst)) = ty::Instance::try_resolve(tcx, env, *did, args) {
        let rd = inst.def_id();
        resolved = Some(rd);
        parts.push(format!("\"res\":{}", esc(&path_of(tcx, rd))));
        parts.push(format!("\"rcr\":{}", esc(&tcx.crate_name(rd.krate).to_string())));
        let ik = match inst.def {
          ty::InstanceKind::Item(_) => "item",
          ty::InstanceKind::Virtual(..) => "virtual",
          ty::InstanceKind::ClosureOnceShim { .. } => "closure_once",
          ty::InstanceKind::FnPtrShim(..) => "fnptr_shim",
          ty::InstanceKind::DropGlue(..) => "drop_glue",
          ty::InstanceKind::CloneShim(..) => "clone_shim",
          ty::InstanceKind::Intrinsic(..) => "intrinsic",
          _ => "other",
        };
        parts.push(format!("\"ik\":{}", esc(ik)));
      }
    }
    let _ = resolved;
    format!("{{{}}}", parts.join(","))
  } else {
    format!(
      "{{\"ptr\":{},\"ty\":{}}}",
      operand_json(tcx, env, body, func),
      esc(&ty_str(fty))
    )
  }
}

fn body_json<'tcx>(tcx: TyCtxt<'tcx>, ldid: LocalDefId) -> Option<String> {
  let did = ldid.to_def_id();
  let kind = tcx.def_kind(did);
  match kind {
    DefKind::Fn | DefKind::AssocFn | DefKind::Closure | DefKind::SyntheticCoroutineBody => {}
    _ => return None,
  }
  let body: &mir::Body<'tcx> = tcx.optimized_mir(did);
  let env = ty::TypingEnv::post_analysis(tcx, did);
  let mut out = String::new();
  let _ = write!(out, "{{\"path\":{}", esc(&path_of(tcx, did)));
  let _ = write!(out, ",\"kind\":{}", esc(&format!("{:?}", kind)));
  let _ = write!(out, ",\"crate\":{}", esc(&tcx.crate_name(LOCAL_CRATE).to_string()));
  let sp = tcx.def_span(did);
  let _ = write!(out, ",\"file\":{}", esc(&file_of(tcx, body.span)));
  let _ = write!(out, ",\"line\":{}", line_of(tcx, sp));
  let sm = tcx.sess.source_map();
  let _ = write!(out, ",\"end\":{}", sm.lookup_char_pos(body.span.hi()).line);
  if matches!(kind, DefKind::Fn | DefKind::AssocFn) {
    let _ = write!(out, ",\"vis\":{}", esc(&format!("{:?}", tcx.visibility(did))));
  }
  if tcx.is_coroutine(did) {
    let _ = write!(out, ",\"coroutine\":true");
  }
  if let Some(parent) = tcx.opt_parent(did) {
    let pk = tcx.def_kind(parent);
    if matches!(pk, DefKind::Impl { .. }) {
      let self_ty = tcx.type_of(parent).instantiate_identity().skip_norm_wip();
      let _ = write!(out, ",\"impl_self\":{}", esc(&ty_str(self_ty)));
      if let Some(tr) = tcx.impl_opt_trait_ref(parent) {
        let tr = tr.instantiate_identity().skip_norm_wip();
        let _ = write!(out, ",\"impl_trait\":{}", esc(&path_of(tcx, tr.def_id)));
      }
    }
    let _ = write!(out, ",\"parent\":{}", esc(&path_of(tcx, parent)));
  }
  let _ = write!(out, ",\"argc\":{}", body.arg_count);
  // locals
  let mut names: Vec<Option<String>> = vec![None; body.local_decls.len()];
  for vdi in &body.var_debug_info {
    if let mir::VarDebugInfoContents::Place(p) = &vdi.value {
      if p.projection.is_empty() {
        names[p.local.as_usize()] = Some(vdi.name.to_string());
      }
    }
  }
  let mut locals = Vec::new();
  for (l, d) in body.local_decls.iter_enumerated() {
    let n = match &names[l.as_usize()] {
      Some(n) => esc(n),
      None => "null".to_string(),
    };
    locals.push(format!("{{\"ty\":{},\"n\":{}}}", esc(&ty_str(d.ty)), n));
  }
  let _ = write!(out, ",\"locals\":{}", join(locals));
  // debug info for upvars etc (name -> place)
  let mut dbg = Vec::new();
  for vdi in &body.var_debug_info {
    if let mir::VarDebugInfoContents::Place(p) = &vdi.value {
      if !p.projection.is_empty() {
        dbg.push(format!(
          "{{\"n\":{},\"p\":{}}}",
          esc(&vdi.name.to_string()),
          place_json(tcx, body, p)
        ));
      }
    }
  }
  let _ = write!(out, ",\"dbg\":{}", join(dbg));
  // blocks
  let mut blocks = Vec::new();
  for (_bb, data) in body.basic_blocks.iter_enumerated() {
    let mut stmts = Vec::new();
    for st in &data.statements {
      let l = line_of(tcx, st.source_info.span);
      match &st.kind {
        mir::StatementKind::Assign(b) => {
          let (p, rv) = &**b;
          stmts.push(format!(
            "{{\"p\":{},\"rv\":{},\"l\":{}}}",
            place_json(tcx, body, p),
            rvalue_json(tcx, env, body, rv),
            l
          ));
        }
        mir::StatementKind::SetDiscriminant { place, variant_index } => {
          stmts.push(format!(
            "{{\"setdiscr\":{},\"vi\":{},\"l\":{}}}",
            place_json(tcx, body, place),
            variant_index.as_usize(),
            l
          ));
        }
        _ => {}
      }
    }
    let term = data.terminator();
    let l = line_of(tcx, term.source_info.span);
    let exp = term.source_info.span.from_expansion();
    let tj = match &term.kind {
      mir::TerminatorKind::Goto { target } => format!("{{\"k\":\"goto\",\"t\":{}}}", target.as_usize()),
      mir::TerminatorKind::SwitchInt { discr, targets } => {
        let mut vals = Vec::new();
        for (v, t) in targets.iter() {
          vals.push(format!("[{},{}]", v, t.as_usize()));
        }
        format!(
          "{{\"k\":\"switch\",\"d\":{},\"dty\":{},\"vals\":{},\"o\":{},\"l\":{}}}",
          operand_json(tcx, env, body, discr),
          esc(&ty_str(discr.ty(&body.local_decls, tcx))),
          join(vals),
          targets.otherwise().as_usize(),
          l
        )
      }
      mir::TerminatorKind::Return => format!("{{\"k\":\"return\",\"l\":{}}}", l),
      mir::TerminatorKind::Unreachable => "{\"k\":\"unreachable\"}".to_string(),
      mir::TerminatorKind::UnwindResume => "{\"k\":\"resume\"}".to_string(),
      mir::TerminatorKind::UnwindTerminate(_) => "{\"k\":\"abort\"}".to_string(),
      mir::TerminatorKind::Drop { place, target, unwind, .. } => {
        let u = match unwind {
          mir::UnwindAction::Cleanup(b) => b.as_usize().to_string(),
          _ => "null".to_string(),
        };
        format!(
          "{{\"k\":\"drop\",\"p\":{},\"t\":{},\"u\":{}}}",
          place_json(tcx, body, place),
          target.as_usize(),
          u
        )
      }
      mir::TerminatorKind::Call { func, args, destination, target, unwind, .. } => {
        let u = match unwind {
          mir::UnwindAction::Cleanup(b) => b.as_usize().to_string(),
          _ => "null".to_string(),
        };
        let t = match target {
          Some(t) => t.as_usize().to_string(),
          None => "null".to_string(),
        };
        let aj = join(args.iter().map(|a| operand_json(tcx, env, body, &a.node)).collect());
        format!(
          "{{\"k\":\"call\",\"f\":{},\"args\":{},\"d\":{},\"t\":{},\"u\":{},\"l\":{},\"exp\":{}}}",
          callee_json(tcx, env, body, func),
          aj,
          place_json(tcx, body, destination),
          t,
          u,
          l,
          exp
        )
      }
      mir::TerminatorKind::TailCall { func, args, .. } => {
        let aj = join(args.iter().map(|a| operand_json(tcx, env, body, &a.node)).collect());
        format!(
          "{{\"k\":\"tailcall\",\"f\":{},\"args\":{},\"l\":{}}}",
          callee_json(tcx, env, body, func),
          aj,
          l
        )
      }
      mir::TerminatorKind::Assert { cond, expected, msg, target, unwind } => {
        let u = match unwind {
          mir::UnwindAction::Cleanup(b) => b.as_usize().to_string(),
          _ => "null".to_string(),
        };
        let m = match &**msg {
          mir::AssertKind::BoundsCheck { len, index } => format!(
            "{{\"k\":\"BoundsCheck\",\"len\":{},\"index\":{}}}",
            operand_json(tcx, env, body, len),
            operand_json(tcx, env, body, index)
          ),
          mir::AssertKind::Overflow(op, a, b) => format!(
            "{{\"k\":\"Overflow\",\"op\":{},\"a\":{},\"b\":{}}}",
            esc(&format!("{:?}", op)),
            operand_json(tcx, env, body, a),
            operand_json(tcx, env, body, b)
          ),
          mir::AssertKind::OverflowNeg(a) => {
            format!("{{\"k\":\"OverflowNeg\",\"a\":{}}}", operand_json(tcx, env, body, a))
          }
          mir::AssertKind::DivisionByZero(a) => {
            format!("{{\"k\":\"DivisionByZero\",\"a\":{}}}", operand_json(tcx, env, body, a))
          }
          mir::AssertKind::RemainderByZero(a) => {
            format!("{{\"k\":\"RemainderByZero\",\"a\":{}}}", operand_json(tcx, env, body, a))
          }
          other => {
            let s = format!("{:?}", other);
            let s = s.split(|c| c == '(' || c == ' ' || c == '{').next().unwrap_or("").to_string();
            format!("{{\"k\":{}}}", esc(&s))
          }
        };
        format!(
          "{{\"k\":\"assert\",\"c\":{},\"exp\":{},\"msg\":{},\"t\":{},\"u\":{},\"l\":{}}}",
          operand_json(tcx, env, body, cond),
          expected,
          m,
          target.as_usize(),
          u,
          l
        )
      }
      mir::TerminatorKind::Yield { value, resume, drop, .. } => {
        let d = match drop {
          Some(b) => b.as_usize().to_string(),
          None => "null".to_string(),
        };
        format!(
          "{{\"k\":\"yield\",\"v\":{},\"t\":{},\"drop\":{}}}",
          operand_json(tcx, env, body, value),
          resume.as_usize(),
          d
        )
      }
      mir::TerminatorKind::CoroutineDrop => "{\"k\":\"coroutine_drop\"}".to_string(),
      mir::TerminatorKind::FalseEdge { real_target, .. } => {
        format!("{{\"k\":\"goto\",\"t\":{}}}", real_target.as_usize())
      }
      mir::TerminatorKind::FalseUnwind { real_target, .. } => {
        format!("{{\"k\":\"goto\",\"t\":{}}}", real_target.as_usize())
      }
      mir::TerminatorKind::InlineAsm { .. } => "{\"k\":\"asm\"}".to_string(),
    };
    blocks.push(format!(
      "{{\"s\":{},\"t\":{},\"cleanup\":{}}}",
      join(stmts),
      tj,
      data.is_cleanup
    ));
  }
  let _ = write!(out, ",\"blocks\":{}}}", join(blocks));
  Some(out)
}

// ---------------------------------------------------------------- HIR

struct HirDump<'tcx> {
  tcx: TyCtxt<'tcx>,
  tr: &'tcx ty::TypeckResults<'tcx>,
}

impl<'tcx> HirDump<'tcx> {
  fn res(&self, qpath: &hir::QPath<'tcx>, id: hir::HirId) -> String {
    match self.tr.qpath_res(qpath, id) {
      Res::Local(h) => format!("{{\"local\":{}}}", esc(&self.tcx.hir_name(h).to_string())),
      Res::Def(k, d) => {
        let kn = format!("{:?}", k);
        let kn = kn.split(|c| c == '(' || c == ' ' || c == '{').next().unwrap_or("").to_string();
        format!("{{\"def\":{},\"dk\":{}}}", esc(&path_of(self.tcx, d)), esc(&kn))
      }
      Res::SelfCtor(d) | Res::SelfTyAlias { alias_to: d, .. } => {
        format!("{{\"selfty\":{}}}", esc(&path_of(self.tcx, d)))
      }
      Res::SelfTyParam { .. } => "{\"selfty\":\"Self\"}".to_string(),
      Res::PrimTy(p) => format!("{{\"prim\":{}}}", esc(p.name_str())),
      _ => "{\"other\":true}".to_string(),
    }
  }

  fn lit(&self, l: &hir::Lit) -> String {
    use rustc_ast::LitKind;
    match &l.node {
      LitKind::Str(s, _) => format!("{{\"s\":{}}}", esc(s.as_str())),
      LitKind::ByteStr(b, _) | LitKind::CStr(b, _) => {
        format!("{{\"b\":{}}}", join(b.as_byte_str().iter().map(|x| x.to_string()).collect()))
      }
      LitKind::Byte(b) => format!("{}", b),
      LitKind::Char(c) => format!("{{\"ch\":{}}}", esc(&c.to_string())),
      LitKind::Int(i, _) => format!("{}", i.get()),
      LitKind::Float(s, _) => format!("{{\"f\":{}}}", esc(s.as_str())),
      LitKind::Bool(b) => format!("{}", b),
      LitKind::Err(_) => "null".to_string(),
    }
  }

  fn pat(&self, p: &hir::Pat<'tcx>) -> String {
    match &p.kind {
      hir::PatKind::Wild | hir::PatKind::Missing => "{\"k\":\"Wild\"}".to_string(),
      hir::PatKind::Binding(_, _, ident, sub) => match sub {
        Some(s) => format!("{{\"k\":\"Bind\",\"n\":{},\"sub\":{}}}", esc(ident.as_str()), self.pat(s)),
        None => format!("{{\"k\":\"Bind\",\"n\":{}}}", esc(ident.as_str())),
      },
      hir::PatKind::Struct(q, fs, _) => {
        let f = fs
          .iter()
          .map(|f| format!("{{\"n\":{},\"p\":{}}}", esc(f.ident.as_str()), self.pat(f.pat)))
          .collect();
        format!("{{\"k\":\"Struct\",\"res\":{},\"fs\":{}}}", self.res(q, p.hir_id), join(f))
      }
      hir::PatKind::TupleStruct(q, ps, ddp) => format!(
        "{{\"k\":\"TupleStruct\",\"res\":{},\"ps\":{},\"dd\":{}}}",
        self.res(q, p.hir_id),
        join(ps.iter().map(|x| self.pat(x)).collect()),
        ddp.as_opt_usize().map(|x| x as i64).unwrap_or(-1)
      ),
      hir::PatKind::Or(ps) => {
        format!("{{\"k\":\"Or\",\"ps\":{}}}", join(ps.iter().map(|x| self.pat(x)).collect()))
      }
      hir::PatKind::Tuple(ps, ddp) => format!(
        "{{\"k\":\"Tuple\",\"ps\":{},\"dd\":{}}}",
        join(ps.iter().map(|x| self.pat(x)).collect()),
        ddp.as_opt_usize().map(|x| x as i64).unwrap_or(-1)
      ),
      hir::PatKind::Box(s) | hir::PatKind::Deref(s) | hir::PatKind::Ref(s, _, _) => {
        format!("{{\"k\":\"Ref\",\"p\":{}}}", self.pat(s))
      }
      hir::PatKind::Expr(e) => format!("{{\"k\":\"Lit\",\"e\":{}}}", self.pat_expr(e)),
      hir::PatKind::Guard(s, e) => {
        format!("{{\"k\":\"Guard\",\"p\":{},\"e\":{}}}", self.pat(s), self.expr(e))
      }
      hir::PatKind::Range(a, b, end) => format!(
        "{{\"k\":\"Range\",\"lo\":{},\"hi\":{},\"incl\":{}}}",
        a.map(|e| self.pat_expr(e)).unwrap_or("null".into()),
        b.map(|e| self.pat_expr(e)).unwrap_or("null".into()),
        matches!(end, hir::RangeEnd::Included)
      ),
      hir::PatKind::Slice(a, m, b) => format!(
        "{{\"k\":\"Slice\",\"pre\":{},\"mid\":{},\"post\":{}}}",
        join(a.iter().map(|x| self.pat(x)).collect()),
        m.map(|x| self.pat(x)).unwrap_or("null".into()),
        join(b.iter().map(|x| self.pat(x)).collect())
      ),
      _ => "{\"k\":\"Other\"}".to_string(),
    }
  }

  fn pat_expr(&self, e: &hir::PatExpr<'tcx>) -> String {
    match &e.kind {
      hir::PatExprKind::Lit { lit, negated } => {
        format!("{{\"k\":\"Lit\",\"v\":{},\"neg\":{}}}", self.lit(lit), negated)
      }
      hir::PatExprKind::Path(q) => format!("{{\"k\":\"Path\",\"res\":{}}}", self.res(q, e.hir_id)),
    }
  }

  fn block(&self, b: &hir::Block<'tcx>) -> String {
    let mut stmts = Vec::new();
    for s in b.stmts {
      match &s.kind {
        hir::StmtKind::Let(l) => {
          let init = l.init.map(|e| self.expr(e)).unwrap_or("null".into());
          let els = l.els.map(|b| self.block(b)).unwrap_or("null".into());
          stmts.push(format!(
            "{{\"k\":\"LetStmt\",\"pat\":{},\"init\":{},\"els\":{},\"l\":{}}}",
            self.pat(l.pat),
            init,
            els,
            line_of(self.tcx, s.span)
          ));
        }
        hir::StmtKind::Expr(e) | hir::StmtKind::Semi(e) => stmts.push(self.expr(e)),
        hir::StmtKind::Item(_) => {}
      }
    }
    let e = b.expr.map(|e| self.expr(e)).unwrap_or("null".into());
    format!("{{\"k\":\"Block\",\"stmts\":{},\"e\":{}}}", join(stmts), e)
  }

  fn expr(&self, e: &hir::Expr<'tcx>) -> String {
    let l = line_of(self.tcx, e.span);
    let es = |v: &[hir::Expr<'tcx>]| join(v.iter().map(|x| self.expr(x)).collect());
    match &e.kind {
      hir::ExprKind::DropTemps(x) | hir::ExprKind::Use(x, _) | hir::ExprKind::Type(x, _) => self.expr(x),
      hir::ExprKind::Array(v) => format!("{{\"k\":\"Array\",\"es\":{},\"l\":{}}}", es(v), l),
      hir::ExprKind::Tup(v) => format!("{{\"k\":\"Tup\",\"es\":{},\"l\":{}}}", es(v), l),
      hir::ExprKind::Call(f, args) => {
        format!("{{\"k\":\"Call\",\"f\":{},\"args\":{},\"l\":{}}}", self.expr(f), es(args), l)
      }
      hir::ExprKind::MethodCall(seg, recv, args, _) => {
        let d = self
          .tr
          .type_dependent_def_id(e.hir_id)
          .map(|d| esc(&path_of(self.tcx, d)))
          .unwrap_or("null".into());
        let rty = self.tr.expr_ty_adjusted_opt(recv).map(|t| esc(&ty_str(t))).unwrap_or("null".into());
        format!(
          "{{\"k\":\"MethodCall\",\"m\":{},\"def\":{},\"recv\":{},\"rty\":{},\"args\":{},\"l\":{}}}",
          esc(seg.ident.as_str()),
          d,
          self.expr(recv),
          rty,
          es(args),
          l
        )
      }
      hir::ExprKind::Binary(op, a, b) => {
        let d = self
          .tr
          .type_dependent_def_id(e.hir_id)
          .map(|d| esc(&path_of(self.tcx, d)))
          .unwrap_or("null".into());
        format!(
          "{{\"k\":\"Binary\",\"op\":{},\"a\":{},\"b\":{},\"def\":{},\"l\":{}}}",
          esc(&format!("{:?}", op.node)),
          self.expr(a),
          self.expr(b),
          d,
          l
        )
      }
      hir::ExprKind::Unary(op, a) => {
        format!("{{\"k\":\"Unary\",\"op\":{},\"e\":{},\"l\":{}}}", esc(&format!("{:?}", op)), self.expr(a), l)
      }
      hir::ExprKind::Lit(lit) => format!("{{\"k\":\"Lit\",\"v\":{},\"l\":{}}}", self.lit(lit), l),
      hir::ExprKind::Cast(x, _) => {
        let t = self.tr.expr_ty_opt(e).map(|t| esc(&ty_str(t))).unwrap_or("null".into());
        format!("{{\"k\":\"Cast\",\"e\":{},\"ty\":{},\"l\":{}}}", self.expr(x), t, l)
      }
      hir::ExprKind::Let(le) => {
        format!("{{\"k\":\"Let\",\"pat\":{},\"init\":{},\"l\":{}}}", self.pat(le.pat), self.expr(le.init), l)
      }
      hir::ExprKind::If(c, t, el) => format!(
        "{{\"k\":\"If\",\"c\":{},\"t\":{},\"e\":{},\"l\":{}}}",
        self.expr(c),
        self.expr(t),
        el.map(|x| self.expr(x)).unwrap_or("null".into()),
        l
      ),
      hir::ExprKind::Loop(b, _, src, _) => {
        format!("{{\"k\":\"Loop\",\"src\":{},\"b\":{},\"l\":{}}}", esc(&format!("{:?}", src)), self.block(b), l)
      }
      hir::ExprKind::Match(s, arms, src) => {
        let a = arms
          .iter()
          .map(|a| {
            format!(
              "{{\"pat\":{},\"guard\":{},\"body\":{}}}",
              self.pat(a.pat),
              a.guard.map(|g| self.expr(g)).unwrap_or("null".into()),
              self.expr(a.body)
            )
          })
          .collect();
        let srcs = format!("{:?}", src);
        let srcs = srcs.split(|c| c == '(' || c == ' ' || c == '{').next().unwrap_or("").to_string();
        format!(
          "{{\"k\":\"Match\",\"src\":{},\"e\":{},\"arms\":{},\"l\":{}}}",
          esc(&srcs),
          self.expr(s),
          join(a),
          l
        )
      }
      hir::ExprKind::Closure(c) => {
        let body = self.tcx.hir_body(c.body);
        let params = join(body.params.iter().map(|p| self.pat(p.pat)).collect());
        format!(
          "{{\"k\":\"Closure\",\"def\":{},\"params\":{},\"body\":{},\"l\":{}}}",
          esc(&path_of(self.tcx, c.def_id.to_def_id())),
          params,
          self.expr(body.value),
          l
        )
      }
      hir::ExprKind::Block(b, _) => self.block(b),
      hir::ExprKind::Assign(a, b, _) => {
        format!("{{\"k\":\"Assign\",\"a\":{},\"b\":{},\"l\":{}}}", self.expr(a), self.expr(b), l)
      }
      hir::ExprKind::AssignOp(op, a, b) => {
        let d = self
          .tr
          .type_dependent_def_id(e.hir_id)
          .map(|d| esc(&path_of(self.tcx, d)))
          .unwrap_or("null".into());
        format!(
          "{{\"k\":\"AssignOp\",\"op\":{},\"a\":{},\"b\":{},\"def\":{},\"l\":{}}}",
          esc(&format!("{:?}", op.node)),
          self.expr(a),
          self.expr(b),
          d,
          l
        )
      }
      hir::ExprKind::Field(x, id) => {
        format!("{{\"k\":\"Field\",\"e\":{},\"n\":{},\"l\":{}}}", self.expr(x), esc(id.as_str()), l)
      }
      hir::ExprKind::Index(a, b, _) => {
        format!("{{\"k\":\"Index\",\"a\":{},\"b\":{},\"l\":{}}}", self.expr(a), self.expr(b), l)
      }
      hir::ExprKind::Path(q) => {
        format!("{{\"k\":\"Path\",\"res\":{},\"l\":{}}}", self.res(q, e.hir_id), l)
      }
      hir::ExprKind::AddrOf(_, m, x) => format!(
        "{{\"k\":\"AddrOf\",\"mut\":{},\"e\":{},\"l\":{}}}",
        matches!(m, hir::Mutability::Mut),
        self.expr(x),
        l
      ),
      hir::ExprKind::Break(_, x) => {
        format!("{{\"k\":\"Break\",\"e\":{},\"l\":{}}}", x.map(|x| self.expr(x)).unwrap_or("null".into()), l)
      }
      hir::ExprKind::Continue(_) => format!("{{\"k\":\"Continue\",\"l\":{}}}", l),
      hir::ExprKind::Ret(x) => {
        format!("{{\"k\":\"Ret\",\"e\":{},\"l\":{}}}", x.map(|x| self.expr(x)).unwrap_or("null".into()), l)
      }
      hir::ExprKind::Struct(q, fields, tail) => {
        let fs = fields
          .iter()
          .map(|f| format!("{{\"n\":{},\"e\":{}}}", esc(f.ident.as_str()), self.expr(f.expr)))
          .collect();
        let base = match tail {
          hir::StructTailExpr::Base(b) => self.expr(b),
          _ => "null".to_string(),
        };
        let t = self.tr.expr_ty_opt(e).map(|t| esc(&ty_str(t))).unwrap_or("null".into());
        format!(
          "{{\"k\":\"Struct\",\"res\":{},\"ty\":{},\"fields\":{},\"base\":{},\"l\":{}}}",
          self.res(q, e.hir_id),
          t,
          join(fs),
          base,
          l
        )
      }
      hir::ExprKind::Repeat(x, _) => format!("{{\"k\":\"Repeat\",\"e\":{},\"l\":{}}}", self.expr(x), l),
      hir::ExprKind::Yield(x, _) => format!("{{\"k\":\"Yield\",\"e\":{},\"l\":{}}}", self.expr(x), l),
      hir::ExprKind::ConstBlock(_) => format!("{{\"k\":\"ConstBlock\",\"l\":{}}}", l),
      _ => format!("{{\"k\":\"Other\",\"l\":{}}}", l),
    }
  }
}

fn hir_json<'tcx>(tcx: TyCtxt<'tcx>, ldid: LocalDefId) -> Option<String> {
  let did = ldid.to_def_id();
  let kind = tcx.def_kind(did);
  match kind {
    DefKind::Fn | DefKind::AssocFn => {}
    _ => return None,
  }
  let body = tcx.hir_maybe_body_owned_by(ldid)?;
  let tr = tcx.typeck(ldid);
  let d = HirDump { tcx, tr };
  let params = join(body.params.iter().map(|p| d.pat(p.pat)).collect());
  let mut out = String::new();
  let _ = write!(out, "{{\"path\":{}", esc(&path_of(tcx, did)));
  let _ = write!(out, ",\"file\":{}", esc(&file_of(tcx, tcx.def_span(did))));
  let _ = write!(out, ",\"line\":{}", line_of(tcx, tcx.def_span(did)));
  if let Some(parent) = tcx.opt_parent(did) {
    if matches!(tcx.def_kind(parent), DefKind::Impl { .. }) {
      let self_ty = tcx.type_of(parent).instantiate_identity().skip_norm_wip();
      let _ = write!(out, ",\"impl_self\":{}", esc(&ty_str(self_ty)));
      if let Some(trf) = tcx.impl_opt_trait_ref(parent) {
        let trf = trf.instantiate_identity().skip_norm_wip();
        let _ = write!(out, ",\"impl_trait\":{}", esc(&path_of(tcx, trf.def_id)));
      }
    }
  }
  let _ = write!(out, ",\"params\":{},\"body\":{}}}", params, d.expr(body.value));
  Some(out)
}

// ---------------------------------------------------------------- ADTs and consts

fn adt_json<'tcx>(tcx: TyCtxt<'tcx>, did: DefId) -> String {
  let adt = tcx.adt_def(did);
  let mut vars = Vec::new();
  for (vi, v) in adt.variants().iter_enumerated() {
    let fields: Vec<String> = v
      .fields
      .iter()
      .map(|f| {
        let t = tcx.type_of(f.did).instantiate_identity().skip_norm_wip();
        format!("{{\"n\":{},\"ty\":{}}}", esc(&f.name.to_string()), esc(&ty_str(t)))
      })
      .collect();
    let discr = if adt.is_enum() {
      format!("{}", adt.discriminant_for_variant(tcx, vi).val)
    } else {
      "null".to_string()
    };
    vars.push(format!(
      "{{\"n\":{},\"discr\":{},\"fields\":{}}}",
      esc(&v.name.to_string()),
      discr,
      join(fields)
    ));
  }
  let kind = if adt.is_enum() {
    "enum"
  } else if adt.is_union() {
    "union"
  } else {
    "struct"
  };
  format!(
    "{{\"path\":{},\"kind\":{},\"file\":{},\"line\":{},\"variants\":{}}}",
    esc(&path_of(tcx, did)),
    esc(kind),
    esc(&file_of(tcx, tcx.def_span(did))),
    line_of(tcx, tcx.def_span(did)),
    join(vars)
  )
}

fn const_item_json<'tcx>(tcx: TyCtxt<'tcx>, did: DefId) -> Option<String> {
  if tcx.generics_of(did).requires_monomorphization(tcx) {
    return None;
  }
  let ty = tcx.type_of(did).instantiate_identity().skip_norm_wip();
  let val = match tcx.def_kind(did) {
    DefKind::Static { .. } => {
      let alloc = tcx.eval_static_initializer(did).ok()?;
      alloc_json(tcx, ty, alloc.inner(), 0)
    }
    _ => {
      let v = tcx.const_eval_poly(did).ok()?;
      const_value_json(tcx, ty, v)
    }
  };
  Some(format!(
    "{{\"path\":{},\"ty\":{},\"file\":{},\"line\":{},\"v\":{}}}",
    esc(&path_of(tcx, did)),
    esc(&ty_str(ty)),
    esc(&file_of(tcx, tcx.def_span(did))),
    line_of(tcx, tcx.def_span(did)),
    val.unwrap_or("null".to_string())
  ))
}

// ---------------------------------------------------------------- driver

struct Cb {
  out: Option<String>,
  crates: Vec<String>,
}

impl rustc_driver::Callbacks for Cb {
  fn after_analysis<'tcx>(
    &mut self,
    _compiler: &rustc_interface::interface::Compiler,
    tcx: TyCtxt<'tcx>,
  ) -> rustc_driver::Compilation {
    let Some(out) = &self.out else {
      return rustc_driver::Compilation::Continue;
    };
    let name = tcx.crate_name(LOCAL_CRATE).to_string();
    CRATE_NAME.with(|c| *c.borrow_mut() = name.clone());
    if !self.crates.iter().any(|c| *c == name) {
      return rustc_driver::Compilation::Continue;
    }
    // skip non-lib targets of the same name (bin shim)
    let is_lib = tcx
      .crate_types()
      .iter()
      .any(|t| matches!(t, rustc_session::config::CrateType::Rlib | rustc_session::config::CrateType::Dylib));
    if !is_lib {
      return rustc_driver::Compilation::Continue;
    }
    let mut mir_out = String::new();
    let mut hir_out = String::new();
    let mut n_mir = 0usize;
    let mut n_hir = 0usize;
    for ldid in tcx.hir_body_owners() {
      if let Some(j) = body_json(tcx, ldid) {
        mir_out.push_str(&j);
        mir_out.push('\n');
        n_mir += 1;
      }
      if let Some(j) = hir_json(tcx, ldid) {
        hir_out.push_str(&j);
        hir_out.push('\n');
        n_hir += 1;
      }
    }
    let mut adt_out = String::new();
    let mut const_out = String::new();
    for ldid in tcx.hir_crate_items(()).definitions() {
      let did = ldid.to_def_id();
      match tcx.def_kind(did) {
        DefKind::Struct | DefKind::Enum => {
          adt_out.push_str(&adt_json(tcx, did));
          adt_out.push('\n');
        }
        DefKind::Const { .. } | DefKind::AssocConst { .. } | DefKind::Static { .. } => {
          if let Some(j) = const_item_json(tcx, did) {
            const_out.push_str(&j);
            const_out.push('\n');
          }
        }
        _ => {}
      }
    }
    let w = |suffix: &str, data: &str| {
      let p = format!("{}/{}.{}.jsonl", out, name, suffix);
      std::fs::write(&p, data).unwrap_or_else(|e| panic!("ordfacts: cannot write {}: {}", p, e));
    };
    w("mir", &mir_out);
    w("hir", &hir_out);
    w("adt", &adt_out);
    w("const", &const_out);
    let meta = format!(
      "{{\"crate\":{},\"mir_bodies\":{},\"hir_bodies\":{},\"release_like\":{}}}\n",
      esc(&name),
      n_mir,
      n_hir,
      std::env::var("ORDFACTS_RELEASE").is_ok()
    );
    w("meta", &meta);
    rustc_driver::Compilation::Continue
  }
}

fn main() {
  // argv: [ordfacts, rustc, args...]
  let mut args: Vec<String> = std::env::args().skip(1).collect();
  if args.is_empty() {
    eprintln!("ordfacts: expected to be used as RUSTC_WORKSPACE_WRAPPER");
    std::process::exit(2);
  }
  let is_compile = args.iter().any(|a| a == "--crate-name");
  let out = std::env::var("ORDFACTS_OUT").ok();
  let crates: Vec<String> = std::env::var("ORDFACTS_CRATES")
    .unwrap_or_else(|_| "ord,ordinals".to_string())
    .split(',')
    .map(|s| s.to_string())
    .collect();
  let mut target_crate = false;
  if is_compile {
    if let Some(i) = args.iter().position(|a| a == "--crate-name") {
      if let Some(n) = args.get(i + 1) {
        target_crate = crates.iter().any(|c| c == n);
      }
    }
  }
  if target_crate && out.is_some() {
    args.push("-Zmir-opt-level=0".to_string());
    args.push("-Zmir-enable-passes=-CheckAlignment,-CheckNull,-CheckEnums".to_string());
    if std::env::var("ORDFACTS_RELEASE").is_ok() {
      // release-like arithmetic: no overflow asserts in MIR.  (debug-assertions stay on: turning them off flips
      // cfg(debug_assertions) for the member crates only, and rust-embed's derive then expands against a dependency
      // that was compiled with the other setting — it no longer type-checks.)
      args.push("-Coverflow-checks=off".to_string());
    }
  }
  let mut cb = Cb { out: if target_crate { out } else { None }, crates };
  rustc_driver::run_compiler(&args, &mut cb);
}
