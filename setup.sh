#!/bin/sh
# MANIFEST.setup_cmd: build the fact extractor and warm the dependency cache (offline).
set -e
cd "$(dirname "$0")"
export CARGO_NET_OFFLINE=true
(cd driver && cargo build --release --offline)
python3 -c "
import sys; sys.path.insert(0,'.'); sys.dont_write_bytecode=True
from checks import extract
print(extract.ensure_facts('dev'))
"
